#![no_main]
use libfuzzer_sys::fuzz_target;
fuzz_target!(|data: &[u8]| {
    vmain::fuzzing::fuzz_one("db", data);
});
