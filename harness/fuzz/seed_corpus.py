#!/usr/bin/env python3
"""Writes a starting corpus for a fuzz target into the given directory (from files shipped in /repo/tests)."""
import sys, os, json, glob, hashlib
target, out = sys.argv[1], sys.argv[2]
os.makedirs(out, exist_ok=True)
def put(b):
    if 0 < len(b) <= 4096:
        open(os.path.join(out, hashlib.sha1(b).hexdigest()[:16]), 'wb').write(b)
n = 0
if target == 'eofbytes':
    for f in glob.glob('/repo/tests/eof_suite/eest/eof_tests/**/*.json', recursive=True):
        try:
            d = json.load(open(f))
        except Exception:
            continue
        for unit in d.values():
            for v in (unit.get('vectors') or {}).values():
                try:
                    put(bytes.fromhex(v['code'][2:])); n += 1
                except Exception:
                    pass
elif target == 'interp':
    # legacy code of pre-state accounts of the shipped state tests, prefixed with (spec, gas)
    for f in sorted(glob.glob('/repo/tests/pectra_devnet5/state_tests/**/*.json', recursive=True))[:400]:
        try:
            d = json.load(open(f))
        except Exception:
            continue
        for t in d.values():
            for a in (t.get('pre') or {}).values():
                c = a.get('code', '0x')[2:]
                if c and not c.startswith('ef'):
                    put(bytes([18, 0xff, 0xff, 0x3f]) + bytes.fromhex(c)); n += 1
else:
    # structure-driven targets: a few all-zero / all-one / ramp seeds of different lengths
    for ln in (16, 64, 256, 1024, 4096):
        put(bytes(ln)); put(bytes([0xff]) * ln); put(bytes(i % 251 for i in range(ln))); n += 3
print(f"{n} corpus files for {target} in {out}")
