#!/bin/bash
# usage: run.sh <target> <runs-per-job> [jobs]   — bounded libFuzzer campaign of one target (ASan, debug assertions).
# exit 0 = no violation, 1 = VIOLATION line(s) printed (replay files written by the target), 2 = build failure (inconclusive)
set -u
cd "$(dirname "$0")" || exit 2
T="$1"; RUNS="${2:-100000}"; JOBS="${3:-16}"
export CARGO_NET_OFFLINE=true
LOG=$(mktemp)
if ! cargo +nightly fuzz build "$T" >"$LOG" 2>&1; then echo "FUZZ BUILD FAILED for $T (inconclusive)"; tail -20 "$LOG"; rm -f "$LOG"; exit 2; fi
rm -f "$LOG"
C="corpus/$T.$$"; A="artifacts/$T.$$"; mkdir -p "$C" "$A"
python3 seed_corpus.py "$T" "$C" >/dev/null
OUT=$(mktemp -d)
( cd "$OUT" && "$OLDPWD/target/x86_64-unknown-linux-gnu/release/$T" "$OLDPWD/$C" -runs="$RUNS" -seed="$(( ${VERIF_SEED:-0} + 1 ))" -jobs="$JOBS" -workers="$JOBS" -len_control=0 -max_len=4096 -timeout=120 -report_slow_units=100 -rss_limit_mb=4096 -artifact_prefix="$OLDPWD/$A/" >/dev/null 2>&1 )
V=$(cat "$OUT"/fuzz-*.log 2>/dev/null | grep -E "^VIOLATION|^  part=" | sort -u)
EXECS=$(cat "$OUT"/fuzz-*.log 2>/dev/null | grep -E "^Done [0-9]+ runs" | awk '{s+=$2} END {print s+0}')
rm -f "$A"/slow-unit-* 2>/dev/null   # slow inputs are not failures
CRASH=$(ls "$A" 2>/dev/null | wc -l)
echo "fuzz target=$T jobs=$JOBS execs=$EXECS artifacts=$CRASH"
rm -rf "$OUT" "$C"
if [ -n "$V" ]; then echo "$V"; exit 1; fi
if [ "$CRASH" -gt 0 ]; then echo "libFuzzer left $CRASH artifact(s) in $A without a VIOLATION line (timeout / OOM / sanitizer report): inconclusive"; exit 2; fi
rmdir "$A" 2>/dev/null
exit 0
