//! Independent reference implementations of the Ethereum precompile functions,
//! written from the standards (FIPS 180-4, the RIPEMD-160 paper, RFC 7693,
//! EIP-152, EIP-196/197, EIP-198/2565, EIP-2537). Used as a test oracle:
//! plain and slow on purpose, no dependency on revm or on any crypto library
//! (only num-bigint for unbounded integers).

#![forbid(unsafe_code)]

mod ec;

pub mod blake2;
pub mod bls12_381;
pub mod bn254;
pub mod hash;
pub mod modexp;
pub mod secp256k1;

pub use blake2::blake2f;
pub use hash::{ripemd160, sha256};
pub use modexp::{modexp, modexp_gas_berlin, modexp_gas_byzantium};
