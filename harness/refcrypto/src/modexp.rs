//! MODEXP precompile reference: the arithmetic (EIP-198) and the two gas
//! formulas (EIP-198 for Byzantium, EIP-2565 for Berlin), in unbounded integers.

use num_bigint::BigUint;
use num_traits::{One, Zero};

/// `base ^ exp mod modulus` on big-endian byte strings. The result is
/// left-padded with zeros to `modulus.len()`. A zero (or empty) modulus gives
/// `modulus.len()` zero bytes. Empty base / exponent are the number zero, and
/// `0 ^ 0 = 1` (so the result is `1 mod modulus`), as in EIP-198.
pub fn modexp(base: &[u8], exp: &[u8], modulus: &[u8]) -> Vec<u8> {
    let mut out = vec![0u8; modulus.len()];
    let m = BigUint::from_bytes_be(modulus);
    if m.is_zero() {
        return out;
    }
    let b = BigUint::from_bytes_be(base);
    let e = BigUint::from_bytes_be(exp);
    let r = if e.is_zero() { BigUint::one() % &m } else { b.modpow(&e, &m) };
    // r < m, so its minimal big-endian encoding fits in modulus.len() bytes
    let bytes = r.to_bytes_be();
    let start = out.len() - bytes.len();
    out[start..].copy_from_slice(&bytes);
    out
}

/// Index of the highest set bit (floor(log2)), or 0 for the value zero.
fn highest_bit_index(v: &BigUint) -> BigUint {
    if v.is_zero() {
        BigUint::zero()
    } else {
        BigUint::from(v.bits() - 1)
    }
}

/// EIP-198 "adjusted exponent length" / EIP-2565 "iteration count" before the
/// final max(.., 1):
///  - exp_len <= 32: index of the highest set bit of the exponent (0 if the
///    exponent is zero)
///  - exp_len  > 32: 8 * (exp_len - 32) + index of the highest set bit of the
///    first 32 bytes of the exponent (0 if those bytes are all zero)
/// `exp_head` is the value of the first min(32, exp_len) bytes of the exponent.
pub fn adjusted_exponent_length(exp_len: &BigUint, exp_head: &BigUint) -> BigUint {
    let thirty_two = BigUint::from(32u32);
    if *exp_len <= thirty_two {
        highest_bit_index(exp_head)
    } else {
        BigUint::from(8u32) * (exp_len - &thirty_two) + highest_bit_index(exp_head)
    }
}

/// EIP-198 `mult_complexity(x)`.
pub fn mult_complexity_byzantium(x: &BigUint) -> BigUint {
    let sq = x * x;
    if *x <= BigUint::from(64u32) {
        sq
    } else if *x <= BigUint::from(1024u32) {
        // x^2 // 4 + 96 x - 3072 ; x > 64 so no underflow
        sq / BigUint::from(4u32) + BigUint::from(96u32) * x - BigUint::from(3072u32)
    } else {
        // x^2 // 16 + 480 x - 199680 ; x > 1024 so no underflow
        sq / BigUint::from(16u32) + BigUint::from(480u32) * x - BigUint::from(199680u32)
    }
}

/// EIP-198 gas: floor(mult_complexity(max(base_len, mod_len)) *
/// max(adjusted_exponent_length, 1) / 20).
pub fn modexp_gas_byzantium(base_len: &BigUint, exp_len: &BigUint, mod_len: &BigUint, exp_head: &BigUint) -> BigUint {
    let max_len = base_len.max(mod_len);
    let adj = adjusted_exponent_length(exp_len, exp_head).max(BigUint::one());
    mult_complexity_byzantium(max_len) * adj / BigUint::from(20u32)
}

/// EIP-2565 gas: max(200, floor(ceil(max(base_len, mod_len) / 8)^2 *
/// max(iteration_count, 1) / 3)).
pub fn modexp_gas_berlin(base_len: &BigUint, exp_len: &BigUint, mod_len: &BigUint, exp_head: &BigUint) -> BigUint {
    let max_len = base_len.max(mod_len);
    let words = (max_len + BigUint::from(7u32)) / BigUint::from(8u32);
    let iterations = adjusted_exponent_length(exp_len, exp_head).max(BigUint::one());
    let gas = &words * &words * iterations / BigUint::from(3u32);
    gas.max(BigUint::from(200u32))
}

#[cfg(test)]
mod tests {
    use super::*;
    use crate::hash::tests::hex;

    fn unhex(s: &str) -> Vec<u8> {
        (0..s.len() / 2).map(|i| u8::from_str_radix(&s[2 * i..2 * i + 2], 16).unwrap()).collect()
    }
    fn big(v: u64) -> BigUint {
        BigUint::from(v)
    }

    /// plain left-to-right square-and-multiply using only `*` and `%`
    fn modexp_naive(base: &[u8], exp: &[u8], modulus: &[u8]) -> Vec<u8> {
        let m = BigUint::from_bytes_be(modulus);
        let mut out = vec![0u8; modulus.len()];
        if m.is_zero() {
            return out;
        }
        let b = BigUint::from_bytes_be(base) % &m;
        let mut acc = BigUint::one() % &m;
        for byte in exp {
            for bit in (0..8).rev() {
                acc = &acc * &acc % &m;
                if (byte >> bit) & 1 == 1 {
                    acc = acc * &b % &m;
                }
            }
        }
        let bytes = acc.to_bytes_be();
        let start = out.len() - bytes.len();
        out[start..].copy_from_slice(&bytes);
        out
    }

    #[test]
    fn edge_cases() {
        assert_eq!(modexp(&[], &[], &[]), Vec::<u8>::new());
        assert_eq!(modexp(&[2], &[3], &[]), Vec::<u8>::new());
        assert_eq!(modexp(&[2], &[3], &[0, 0, 0]), vec![0, 0, 0]);
        assert_eq!(modexp(&[2], &[3], &[0, 0, 5]), vec![0, 0, 3]);
        assert_eq!(modexp(&[], &[], &[7]), vec![1]); // 0^0 = 1
        assert_eq!(modexp(&[], &[], &[1]), vec![0]); // 1 mod 1 = 0
        assert_eq!(modexp(&[0], &[0], &[0, 9]), vec![0, 1]);
        assert_eq!(modexp(&[], &[5], &[9]), vec![0]); // 0^5 = 0
        assert_eq!(modexp(&[9, 9, 9], &[], &[0, 0, 0, 2]), vec![0, 0, 0, 1]);
        assert_eq!(modexp(&[3], &[0, 0, 0, 0, 2], &[0, 100]), vec![0, 9]);
        assert_eq!(modexp(&[0xff; 40], &[1], &[0, 16]), vec![0, 15]); // base > modulus
        assert_eq!(modexp(&[2], &[0xff; 4], &[2]), vec![0]); // even modulus
    }

    /// EIP-198 example 1: 3 ^ (2^256 - 2^32 - 978) mod (2^256 - 2^32 - 977) = 1 (Fermat)
    #[test]
    fn eip198_fermat_example() {
        let e = unhex("fffffffffffffffffffffffffffffffffffffffffffffffffffffffefffffc2e");
        let m = unhex("fffffffffffffffffffffffffffffffffffffffffffffffffffffffefffffc2f");
        let mut one = vec![0u8; 32];
        one[31] = 1;
        assert_eq!(modexp(&[3], &e, &m), one);
        // example 2: zero-length base -> 0
        assert_eq!(modexp(&[], &e, &m), vec![0u8; 32]);
    }

    /// expected values computed with python pow(b, e, m)
    #[test]
    fn against_python_pow() {
        let cases: [(&str, &str, &str, &str); 5] = [
            ("d50598bc638adf52bf3fdd85595fb52ed3554b692761aea40ceaad0dd4010353", "5b9232d4365dc077a814763dff6e5f83de4215549a044c75b3af50c5a506191f", "e328c65b05bc6e3ef61f07fba6d767ba3d4c28fd54ab76685353934c2e014b01", "836185dc74d691a1c2b78045d4fa21daf810b88950c5a908f370fa0e9d42ba5e"),
            ("fd5e3187cf", "21eb", "005d7c5e0dbea95aca5b5b7fd3d5a63d22eb63674577a995401e85da16ba37224fbe128ce3bccd9de5879ffcf51987e40f70b045012a0f3860cbfb5d8bb26a98", "003f846af98c7950c7b300f96406174e0f5e4bea652ada13db55309167bb66fcadc4b2389f96ff160362207d36235fee7c7877493c02736a23eca45860fd3ee7"),
            ("a1c6269abc14d6615229499c76aad966074c3a10aec8a3147b33f84c6984b75191132e306ad1074da653ead4e10cbe0ec6b508a3f0e017a3a0c79840c21d38f83c3159111a9e6e31ebfff01ed87071a853c47bf15c6a6d51e9076325233e3087786d8e73febde4ce7fe6370fbc7accfc2ad7ee38a77fe39bd93f576fc5865a02", "8d0cf5", "aa679a0ecbbb6e80752f688002084d44a86d419c920e6bdbc9cde18f9025f4f751d818323d88a1d3c8f42fc73edc7503ea4f07b6518a49c6529fa5a1dc14b57dea0db1c8fe46bf9843ffe705eebc76d1f173aefb9775d4a3314c5f173ec640bd20666e0030ac857f8d9eb1a1c80a3de0e1a178823257941f414864896c82b718", "a5e1cdd47344066ef2bb66547557e956f803caeeaf7eafc57317d99a389bf885f7f1af653d58afb52e8e2f6b31a8b901966c478853c352aba0fa4062c2f1b9f922a70b1d7a069f35fa6db85de1555965a13cda5a409b41b96132b83e837ef18d64e811da1ee29248f62055ef92c09d6a326c08bde910dfe864e395a7de462440"),
            ("28487716470a1249c1d9d70c584f49fb35b6264f0b24b543b8af6c9664a9cf24a95380f15643c40ce34b83454f81829401bccd67c0333756ed5e263737d34d17e53dce849243", "735a32da4b8e7c3da0ca866dbfc79e0295dde6d6f835f2f27017b3596170276a5a4359023442071e", "003e9806f673ad2f0c06d2339ee32325c44fe7a7f049c07fd249ddb673c707ecb0", "0009b911bcd9167a0953ec9ad500afaeda4e7943e04b7f14024e7f4beefa5e21a9"),
            ("3cf4bc3d8b26670d35cea5fd5d7a89da0c4b3e57c3773760d00660e4d7a9c7d78bd01b5e31bbe2059d19ec35e4de43152b544fe0e00ea2d2a7afd3fa87a5d9285b7ffaf62dad89a3f7b19eb45dad2634eadeebe668da727cb4eba3dfd0310cb4e00b7c1349bf00630d94ca5c66a9a2aed87d62ef01777576e35a14ee4745eeb474a40f3251443e3da8deaab26bc52cda65e36a3b515abe393f8c49ae71f40f878ef9aa00a70dbb7c0b205870b995e5ec1012242fa46fd9a60837669a4644d763efa854d6bd43b773e4dbfd9a7fdc2b7ed35e04ad8cf806a0db83f73782ac6e0304bf44515e9dce2ee72bb7c238d72637551253a01d657f6c38cc4cbdc291250c", "a7a2e9339d00658dbf0f88b903e3d8f7", "063a2430ca9034bfde2fb0d523a801ac0964d12ea188aa9903f85d19c5935d2c2c7a8ac905c5c691251a303a2b774d007e655eb4a325790ac3b628ed6486f06ad83f67d9e39fed7dcfbb82c9d52e05a93a818d8b45dbe8852cc68483d00aa4c59351ab567a51ba3cb8617fd249b51de2b7260dfef82b519b6298719a40e14f2bb7260a5b411a2d5eafa52a082897c343e19decda82f250412ccdc5afcfc61c00808f80045ed3dfd4511616a0d9fbf1687588c59030d122ad394fc9208342b048183b9f876bd81b92", "01dfa62362a8feea9fc806493c69e3dfc69505c4a56d8d41363d2b556920b9d727343622dfab1e417fd7bd357d03d088f79446f1fb3bfaa45a9027cd9735d2d2bd09f566150859d7e7db417c1b63b3f2ae69c9ef46d4a081c5be35af913c951eb432dc5a0ad1e6122bea78ae6efc55a45e3606ac8690704479a1170b6cffd5e274e6f03ecc1b4eef58a7606bb24c4473400dc403c24364a31256a248066a10f7a2a06cf6af81febe8978f0a7e7e35703fe2781c7b5874806549ddde163fdc92d9137af2268967e8e"),
        ];
        for (b, e, m, want) in cases {
            assert_eq!(hex(&modexp(&unhex(b), &unhex(e), &unhex(m))), want);
        }
    }

    #[test]
    fn against_naive_square_and_multiply() {
        let mut state = 0x9e3779b97f4a7c15u64;
        let mut next = move || {
            state ^= state << 13;
            state ^= state >> 7;
            state ^= state << 17;
            state
        };
        for _ in 0..300 {
            let lens = [next() % 40, next() % 12, next() % 40];
            let mut parts: Vec<Vec<u8>> =
                lens.iter().map(|l| (0..*l).map(|_| (next() >> 32) as u8).collect()).collect();
            // sometimes force leading zeros / even modulus / tiny modulus
            if next() % 4 == 0 && !parts[2].is_empty() {
                parts[2][0] = 0;
            }
            if next() % 4 == 0 {
                if let Some(last) = parts[2].last_mut() {
                    *last &= 0xfe;
                }
            }
            let got = modexp(&parts[0], &parts[1], &parts[2]);
            assert_eq!(got, modexp_naive(&parts[0], &parts[1], &parts[2]));
            assert_eq!(got.len(), parts[2].len());
        }
    }

    #[test]
    fn adjusted_exponent_length_cases() {
        assert_eq!(adjusted_exponent_length(&big(0), &big(0)), big(0));
        assert_eq!(adjusted_exponent_length(&big(32), &big(0)), big(0));
        assert_eq!(adjusted_exponent_length(&big(1), &big(1)), big(0));
        assert_eq!(adjusted_exponent_length(&big(1), &big(2)), big(1));
        assert_eq!(adjusted_exponent_length(&big(3), &big(0x10001)), big(16));
        assert_eq!(adjusted_exponent_length(&big(32), &((BigUint::one() << 256usize) - 1u32)), big(255));
        assert_eq!(adjusted_exponent_length(&big(33), &big(0)), big(8));
        assert_eq!(adjusted_exponent_length(&big(33), &big(1)), big(8));
        assert_eq!(adjusted_exponent_length(&big(40), &big(0x80)), big(64 + 7));
    }

    #[test]
    fn mult_complexity_byzantium_boundaries() {
        assert_eq!(mult_complexity_byzantium(&big(0)), big(0));
        assert_eq!(mult_complexity_byzantium(&big(64)), big(4096));
        assert_eq!(mult_complexity_byzantium(&big(65)), big(65 * 65 / 4 + 96 * 65 - 3072));
        assert_eq!(mult_complexity_byzantium(&big(1024)), big(1024 * 1024 / 4 + 96 * 1024 - 3072));
        assert_eq!(mult_complexity_byzantium(&big(1025)), big(1025 * 1025 / 16 + 480 * 1025 - 199680));
    }

    /// Gas of the "nagydani" benchmark inputs listed in the EIP-2565 test
    /// table (base_len = mod_len = 64 << k; exponent 2, 3 or 0x010001). Every
    /// expected number was also re-derived by hand from the two formulas.
    #[test]
    fn nagydani_gas_table() {
        // (len, exp_len, exponent, byzantium gas, berlin gas)
        let rows: [(u64, u64, u64, u64, u64); 15] = [
            (64, 1, 2, 204, 200),
            (64, 1, 3, 204, 200),
            (64, 3, 0x10001, 3276, 341),
            (128, 1, 2, 665, 200),
            (128, 1, 3, 665, 200),
            (128, 3, 0x10001, 10649, 1365),
            (256, 1, 2, 1894, 341),
            (256, 1, 3, 1894, 341),
            (256, 3, 0x10001, 30310, 5461),
            (512, 1, 2, 5580, 1365),
            (512, 1, 3, 5580, 1365),
            (512, 3, 0x10001, 89292, 21845),
            (1024, 1, 2, 17868, 5461),
            (1024, 1, 3, 17868, 5461),
            (1024, 3, 0x10001, 285900, 87381),
        ];
        for (len, exp_len, e, byz, berlin) in rows {
            assert_eq!(modexp_gas_byzantium(&big(len), &big(exp_len), &big(len), &big(e)), big(byz));
            assert_eq!(modexp_gas_berlin(&big(len), &big(exp_len), &big(len), &big(e)), big(berlin));
        }
    }

    #[test]
    fn gas_small_examples() {
        // EIP-198 example: base_len 1, exp_len 32, mod_len 32, exp = 2^256 - 2^32 - 978
        // -> 32^2 * 255 / 20 = 13056 ; Berlin: 4^2 * 255 / 3 = 1360
        let e = (BigUint::one() << 256usize) - (BigUint::one() << 32usize) - 978u32;
        assert_eq!(modexp_gas_byzantium(&big(1), &big(32), &big(32), &e), big(13056));
        assert_eq!(modexp_gas_byzantium(&big(0), &big(32), &big(32), &e), big(13056));
        assert_eq!(modexp_gas_berlin(&big(1), &big(32), &big(32), &e), big(1360));
        // all-zero lengths: Byzantium 0, Berlin floor 200
        assert_eq!(modexp_gas_byzantium(&big(0), &big(0), &big(0), &big(0)), big(0));
        assert_eq!(modexp_gas_berlin(&big(0), &big(0), &big(0), &big(0)), big(200));
        // base longer than modulus decides the size; ceil(9/8) = 2 words
        assert_eq!(modexp_gas_berlin(&big(9), &big(40), &big(1), &big(0xff)), big(200)); // 4 * 71 / 3 = 94 -> 200
        assert_eq!(modexp_gas_berlin(&big(100), &big(40), &big(1), &big(0xff)), big(13 * 13 * 71 / 3));
        assert_eq!(modexp_gas_byzantium(&big(100), &big(40), &big(1), &big(0xff)), big((2500 + 9600 - 3072) * 71 / 20));
        // exponent longer than 32 bytes with a zero head: 8 * (exp_len - 32)
        assert_eq!(modexp_gas_byzantium(&big(8), &big(33), &big(8), &big(0)), big(64 * 8 / 20));
        // > 1024 branch: x = 2048 -> 2048^2/16 + 480*2048 - 199680 = 1045504
        assert_eq!(modexp_gas_byzantium(&big(2048), &big(1), &big(5), &big(1)), big(1045504 / 20));
    }

    /// lengths far beyond memory must be handled symbolically
    #[test]
    fn gas_huge_lengths() {
        let huge = (BigUint::one() << 256usize) - 1u32;
        let byz = modexp_gas_byzantium(&huge, &huge, &huge, &huge);
        let berlin = modexp_gas_berlin(&huge, &huge, &huge, &huge);
        // adjusted = 8 * (2^256 - 33) + 255
        let adj = big(8) * (&huge - 32u32) + 255u32;
        let x2 = &huge * &huge;
        assert_eq!(byz, (&x2 / 16u32 + big(480) * &huge - 199680u32) * &adj / 20u32);
        let words = BigUint::one() << 253usize; // ceil((2^256 - 1) / 8)
        assert_eq!(berlin, &words * &words * &adj / 3u32);
    }
}
