//! SHA-256 (FIPS 180-4) and RIPEMD-160 (Dobbertin, Bosselaers, Preneel 1996),
//! written directly from the specifications. Byte-at-a-time clarity is
//! preferred over speed.

/// FIPS 180-4 section 4.2.2: first 32 bits of the fractional parts of the cube
/// roots of the first 64 primes. (Re-derived from the primes in the tests.)
const SHA256_K: [u32; 64] = [
    0x428a2f98, 0x71374491, 0xb5c0fbcf, 0xe9b5dba5, 0x3956c25b, 0x59f111f1, 0x923f82a4, 0xab1c5ed5,
    0xd807aa98, 0x12835b01, 0x243185be, 0x550c7dc3, 0x72be5d74, 0x80deb1fe, 0x9bdc06a7, 0xc19bf174,
    0xe49b69c1, 0xefbe4786, 0x0fc19dc6, 0x240ca1cc, 0x2de92c6f, 0x4a7484aa, 0x5cb0a9dc, 0x76f988da,
    0x983e5152, 0xa831c66d, 0xb00327c8, 0xbf597fc7, 0xc6e00bf3, 0xd5a79147, 0x06ca6351, 0x14292967,
    0x27b70a85, 0x2e1b2138, 0x4d2c6dfc, 0x53380d13, 0x650a7354, 0x766a0abb, 0x81c2c92e, 0x92722c85,
    0xa2bfe8a1, 0xa81a664b, 0xc24b8b70, 0xc76c51a3, 0xd192e819, 0xd6990624, 0xf40e3585, 0x106aa070,
    0x19a4c116, 0x1e376c08, 0x2748774c, 0x34b0bcb5, 0x391c0cb3, 0x4ed8aa4a, 0x5b9cca4f, 0x682e6ff3,
    0x748f82ee, 0x78a5636f, 0x84c87814, 0x8cc70208, 0x90befffa, 0xa4506ceb, 0xbef9a3f7, 0xc67178f2,
];

/// FIPS 180-4 section 5.3.3: first 32 bits of the fractional parts of the
/// square roots of the first 8 primes.
const SHA256_H0: [u32; 8] = [
    0x6a09e667, 0xbb67ae85, 0x3c6ef372, 0xa54ff53a, 0x510e527f, 0x9b05688c, 0x1f83d9ab, 0x5be0cd19,
];

/// Merkle-Damgard padding shared by SHA-256 (big-endian length) and
/// RIPEMD-160 (little-endian length): 0x80, zeros up to 56 mod 64, then the
/// 64-bit message length in bits.
fn pad64(data: &[u8], big_endian_len: bool) -> Vec<u8> {
    let bit_len = (data.len() as u64).wrapping_mul(8);
    let mut msg = data.to_vec();
    msg.push(0x80);
    while msg.len() % 64 != 56 {
        msg.push(0);
    }
    if big_endian_len {
        msg.extend_from_slice(&bit_len.to_be_bytes());
    } else {
        msg.extend_from_slice(&bit_len.to_le_bytes());
    }
    msg
}

pub fn sha256(data: &[u8]) -> [u8; 32] {
    let mut h = SHA256_H0;
    for block in pad64(data, true).chunks(64) {
        // message schedule (6.2.2 step 1)
        let mut w = [0u32; 64];
        for t in 0..16 {
            w[t] = u32::from_be_bytes([block[4 * t], block[4 * t + 1], block[4 * t + 2], block[4 * t + 3]]);
        }
        for t in 16..64 {
            let s0 = w[t - 15].rotate_right(7) ^ w[t - 15].rotate_right(18) ^ (w[t - 15] >> 3);
            let s1 = w[t - 2].rotate_right(17) ^ w[t - 2].rotate_right(19) ^ (w[t - 2] >> 10);
            w[t] = s1.wrapping_add(w[t - 7]).wrapping_add(s0).wrapping_add(w[t - 16]);
        }
        let [mut a, mut b, mut c, mut d, mut e, mut f, mut g, mut hh] = h;
        for t in 0..64 {
            let big_s1 = e.rotate_right(6) ^ e.rotate_right(11) ^ e.rotate_right(25);
            let ch = (e & f) ^ (!e & g);
            let t1 = hh.wrapping_add(big_s1).wrapping_add(ch).wrapping_add(SHA256_K[t]).wrapping_add(w[t]);
            let big_s0 = a.rotate_right(2) ^ a.rotate_right(13) ^ a.rotate_right(22);
            let maj = (a & b) ^ (a & c) ^ (b & c);
            let t2 = big_s0.wrapping_add(maj);
            hh = g;
            g = f;
            f = e;
            e = d.wrapping_add(t1);
            d = c;
            c = b;
            b = a;
            a = t1.wrapping_add(t2);
        }
        let work = [a, b, c, d, e, f, g, hh];
        for i in 0..8 {
            h[i] = h[i].wrapping_add(work[i]);
        }
    }
    let mut out = [0u8; 32];
    for i in 0..8 {
        out[4 * i..4 * i + 4].copy_from_slice(&h[i].to_be_bytes());
    }
    out
}

// ---------------------------------------------------------------- RIPEMD-160

/// message word selection, left line
const RMD_R: [usize; 80] = [
    0, 1, 2, 3, 4, 5, 6, 7, 8, 9, 10, 11, 12, 13, 14, 15, //
    7, 4, 13, 1, 10, 6, 15, 3, 12, 0, 9, 5, 2, 14, 11, 8, //
    3, 10, 14, 4, 9, 15, 8, 1, 2, 7, 0, 6, 13, 11, 5, 12, //
    1, 9, 11, 10, 0, 8, 12, 4, 13, 3, 7, 15, 14, 5, 6, 2, //
    4, 0, 5, 9, 7, 12, 2, 10, 14, 1, 3, 8, 11, 6, 15, 13,
];
/// message word selection, right line
const RMD_RP: [usize; 80] = [
    5, 14, 7, 0, 9, 2, 11, 4, 13, 6, 15, 8, 1, 10, 3, 12, //
    6, 11, 3, 7, 0, 13, 5, 10, 14, 15, 8, 12, 4, 9, 1, 2, //
    15, 5, 1, 3, 7, 14, 6, 9, 11, 8, 12, 2, 10, 0, 4, 13, //
    8, 6, 4, 1, 3, 11, 15, 0, 5, 12, 2, 13, 9, 7, 10, 14, //
    12, 15, 10, 4, 1, 5, 8, 7, 6, 2, 13, 14, 0, 3, 9, 11,
];
/// rotation amounts, left line
const RMD_S: [u32; 80] = [
    11, 14, 15, 12, 5, 8, 7, 9, 11, 13, 14, 15, 6, 7, 9, 8, //
    7, 6, 8, 13, 11, 9, 7, 15, 7, 12, 15, 9, 11, 7, 13, 12, //
    11, 13, 6, 7, 14, 9, 13, 15, 14, 8, 13, 6, 5, 12, 7, 5, //
    11, 12, 14, 15, 14, 15, 9, 8, 9, 14, 5, 6, 8, 6, 5, 12, //
    9, 15, 5, 11, 6, 8, 13, 12, 5, 12, 13, 14, 11, 8, 5, 6,
];
/// rotation amounts, right line
const RMD_SP: [u32; 80] = [
    8, 9, 9, 11, 13, 15, 15, 5, 7, 7, 8, 11, 14, 14, 12, 6, //
    9, 13, 15, 7, 12, 8, 9, 11, 7, 7, 12, 7, 6, 15, 13, 11, //
    9, 7, 15, 11, 8, 6, 6, 14, 12, 13, 5, 14, 13, 13, 7, 5, //
    15, 5, 8, 11, 14, 14, 6, 14, 6, 9, 12, 9, 12, 5, 15, 8, //
    8, 5, 12, 9, 12, 5, 14, 6, 8, 13, 6, 5, 15, 13, 11, 11,
];
/// added constants per 16-step round: floor(2^30 * sqrt(2,3,5,7)) on the left
/// line and floor(2^30 * cbrt(2,3,5,7)) on the right line.
const RMD_K: [u32; 5] = [0x00000000, 0x5a827999, 0x6ed9eba1, 0x8f1bbcdc, 0xa953fd4e];
const RMD_KP: [u32; 5] = [0x50a28be6, 0x5c4dd124, 0x6d703ef3, 0x7a6d76e9, 0x00000000];

/// the five nonlinear functions, selected by round number 0..4
fn rmd_f(round: usize, x: u32, y: u32, z: u32) -> u32 {
    match round {
        0 => x ^ y ^ z,
        1 => (x & y) | (!x & z),
        2 => (x | !y) ^ z,
        3 => (x & z) | (y & !z),
        _ => x ^ (y | !z),
    }
}

pub fn ripemd160(data: &[u8]) -> [u8; 20] {
    let mut h: [u32; 5] = [0x67452301, 0xefcdab89, 0x98badcfe, 0x10325476, 0xc3d2e1f0];
    for block in pad64(data, false).chunks(64) {
        let mut x = [0u32; 16];
        for i in 0..16 {
            x[i] = u32::from_le_bytes([block[4 * i], block[4 * i + 1], block[4 * i + 2], block[4 * i + 3]]);
        }
        let [mut a, mut b, mut c, mut d, mut e] = h;
        let [mut ap, mut bp, mut cp, mut dp, mut ep] = h;
        for j in 0..80 {
            let round = j / 16;
            // left line uses f in order 0..4, right line in order 4..0
            let t = a
                .wrapping_add(rmd_f(round, b, c, d))
                .wrapping_add(x[RMD_R[j]])
                .wrapping_add(RMD_K[round])
                .rotate_left(RMD_S[j])
                .wrapping_add(e);
            a = e;
            e = d;
            d = c.rotate_left(10);
            c = b;
            b = t;
            let t = ap
                .wrapping_add(rmd_f(4 - round, bp, cp, dp))
                .wrapping_add(x[RMD_RP[j]])
                .wrapping_add(RMD_KP[round])
                .rotate_left(RMD_SP[j])
                .wrapping_add(ep);
            ap = ep;
            ep = dp;
            dp = cp.rotate_left(10);
            cp = bp;
            bp = t;
        }
        let t = h[1].wrapping_add(c).wrapping_add(dp);
        h[1] = h[2].wrapping_add(d).wrapping_add(ep);
        h[2] = h[3].wrapping_add(e).wrapping_add(ap);
        h[3] = h[4].wrapping_add(a).wrapping_add(bp);
        h[4] = h[0].wrapping_add(b).wrapping_add(cp);
        h[0] = t;
    }
    let mut out = [0u8; 20];
    for i in 0..5 {
        out[4 * i..4 * i + 4].copy_from_slice(&h[i].to_le_bytes());
    }
    out
}

#[cfg(test)]
pub(crate) mod tests {
    use super::*;
    use num_bigint::BigUint;
    use num_traits::One;

    pub(crate) fn hex(b: &[u8]) -> String {
        b.iter().map(|x| format!("{:02x}", x)).collect()
    }

    /// deterministic test message of a given length (same formula used in the
    /// python script that produced the expected digests)
    fn pattern(len: usize) -> Vec<u8> {
        (0..len).map(|i| ((i * 7 + len * 13 + 5) & 0xff) as u8).collect()
    }

    #[test]
    fn sha256_constants_derived_from_primes() {
        // K[t] = floor(frac(cbrt(prime_t)) * 2^32) = floor(cbrt(prime_t * 2^96)) mod 2^32
        // H0[i] = floor(sqrt(prime_i * 2^64)) mod 2^32
        let mut primes = Vec::new();
        let mut n = 2u32;
        while primes.len() < 64 {
            if (2..n).all(|d| n % d != 0) {
                primes.push(n);
            }
            n += 1;
        }
        let mask = (BigUint::one() << 32usize) - BigUint::one();
        for t in 0..64 {
            let v = (BigUint::from(primes[t]) << 96usize).cbrt() & &mask;
            assert_eq!(v, BigUint::from(SHA256_K[t]), "K[{}]", t);
        }
        for i in 0..8 {
            let v = (BigUint::from(primes[i]) << 64usize).sqrt() & &mask;
            assert_eq!(v, BigUint::from(SHA256_H0[i]), "H0[{}]", i);
        }
    }

    #[test]
    fn ripemd160_added_constants_derived() {
        // floor(2^30 * sqrt(n)) = floor(sqrt(n * 2^60)); floor(2^30 * cbrt(n)) = floor(cbrt(n * 2^90))
        for (i, n) in [2u32, 3, 5, 7].iter().enumerate() {
            assert_eq!((BigUint::from(*n) << 60usize).sqrt(), BigUint::from(RMD_K[i + 1]));
            assert_eq!((BigUint::from(*n) << 90usize).cbrt(), BigUint::from(RMD_KP[i]));
        }
    }

    #[test]
    fn ripemd160_index_tables_are_permutations() {
        for round in 0..5 {
            for table in [&RMD_R, &RMD_RP] {
                let mut seen = [false; 16];
                for j in 0..16 {
                    seen[table[round * 16 + j]] = true;
                }
                assert!(seen.iter().all(|s| *s));
            }
        }
    }

    #[test]
    fn sha256_published_vectors() {
        // FIPS 180-4 / NIST example vectors
        assert_eq!(hex(&sha256(b"")), "e3b0c44298fc1c149afbf4c8996fb92427ae41e4649b934ca495991b7852b855");
        assert_eq!(hex(&sha256(b"abc")), "ba7816bf8f01cfea414140de5dae2223b00361a396177a9cb410ff61f20015ad");
        assert_eq!(
            hex(&sha256(b"abcdbcdecdefdefgefghfghighijhijkijkljklmklmnlmnomnopnopq")),
            "248d6a61d20638b8e5c026930c3e6039a33ce45964ff2167f6ecedd419db06c1"
        );
        assert_eq!(
            hex(&sha256(&vec![b'a'; 1_000_000])),
            "cdc76e5c9914fb9281a1c7e284d73e67f1809a48a497200e046d39ccc7112cd0"
        );
    }

    #[test]
    fn ripemd160_published_vectors() {
        // test vectors from the RIPEMD-160 paper
        let cases: [(&[u8], &str); 8] = [
            (b"", "9c1185a5c5e9fc54612808977ee8f548b2258d31"),
            (b"a", "0bdc9d2d256b3ee9daae347be6f4dc835a467ffe"),
            (b"abc", "8eb208f7e05d987a9b044a8e98c6b087f15a0bfc"),
            (b"message digest", "5d0689ef49d2fae572b881b123a85ffa21595f36"),
            (b"abcdefghijklmnopqrstuvwxyz", "f71c27109c692c1b56bbdceb5b9d2865b3708dbc"),
            (b"abcdbcdecdefdefgefghfghighijhijkijkljklmklmnlmnomnopnopq", "12a053384a9c0c88e405a06c27dcf49ada62eb2b"),
            (
                b"ABCDEFGHIJKLMNOPQRSTUVWXYZabcdefghijklmnopqrstuvwxyz0123456789",
                "b0e20b6e3116640286ed3a87a5713079b21f5189",
            ),
            (
                b"12345678901234567890123456789012345678901234567890123456789012345678901234567890",
                "9b752e45573d4b39f4dbd3323cab82bf63326bfb",
            ),
        ];
        for (msg, want) in cases {
            assert_eq!(hex(&ripemd160(msg)), want);
        }
        assert_eq!(hex(&ripemd160(&vec![b'a'; 1_000_000])), "52783243c1697bdbe16d37f97f68f08325dc1528");
    }

    /// Every message length 0..=300 (covers all padding boundaries for one to
    /// five blocks). acc = H(acc || H(pattern(len))); the final accumulators
    /// were computed with python hashlib using the same recipe.
    #[test]
    fn all_lengths_against_hashlib() {
        let mut acc_s = [0u8; 32];
        let mut acc_r = [0u8; 20];
        for len in 0..=300 {
            let msg = pattern(len);
            let mut buf = acc_s.to_vec();
            buf.extend_from_slice(&sha256(&msg));
            acc_s = sha256(&buf);
            let mut buf = acc_r.to_vec();
            buf.extend_from_slice(&ripemd160(&msg));
            acc_r = ripemd160(&buf);
        }
        assert_eq!(hex(&acc_s), "49914f46ee4a5d198a6bf3a92cee06df8ee95f3734c0ec0aacc4bf16edbd4a55");
        assert_eq!(hex(&acc_r), "2e9b14f98c1366372532e7361b8165c2a392bb0f");
    }

    #[test]
    fn selected_lengths_against_hashlib() {
        let cases: [(usize, &str, &str); 6] = [
            (55, "9244f66668bcbf7ce675cdb9a2ba7e74ea8e1982eabbf92f69bb3a2da17635c4", "5c871be76a461c0c2f106ca1954f8430e34b4193"),
            (56, "2b0769065ce37eb6635aa4fbe53e4fbed798da5eed4213e03292cc92e8b47121", "8f2533ff16c6342b371e3955c0e6eaa936bd5851"),
            (63, "781330a9a6ac331691cccbd142da3d79e979d494b863c3d3b0721308e9074845", "affb2f99b8fa679bb63d6c6b7d445a67bf499a82"),
            (64, "60f31f1ba0688214cbdf49d35c75c4fe634799a3f70757c8859293e55d231ad8", "7b506625c898bdfd55851a5f110c27daac83fe54"),
            (119, "8000b88ef379c6873418b9bebdc8a955a19c5e83223e87ec168f9e5af23f634e", "8ef39a1f1fbc51ddac921657763baf904f903ef2"),
            (1000, "4581a3fb7a344b904a369d718603fcc0f5bd1cf0fd67936188bcabf9a63b0e80", "cfafc364d979b06eee42f33ad3f665071102dae7"),
        ];
        for (len, s, r) in cases {
            assert_eq!(hex(&sha256(&pattern(len))), s, "sha256 len {}", len);
            assert_eq!(hex(&ripemd160(&pattern(len))), r, "ripemd160 len {}", len);
        }
    }
}
