//! secp256k1 ECDSA public-key recovery (and signing, for test-input generation) in plain
//! big-integer affine arithmetic: y^2 = x^3 + 7 over Fp, p = 2^256 - 2^32 - 977.
//! Written from SEC 1 v2 section 4.1.6 / the Yellow Paper appendix F; no library code.
use crate::ec::{self, Field, Fp, Point};
use num_bigint::BigUint;
use num_traits::Zero;

pub const P_HEX: &str = "fffffffffffffffffffffffffffffffffffffffffffffffffffffffefffffc2f";
pub const N_HEX: &str = "fffffffffffffffffffffffffffffffebaaedce6af48a03bbfd25e8cd0364141";
const GX_HEX: &str = "79be667ef9dcbbac55a06295ce870b07029bfcdb2dce28d959f2815b16f81798";
const GY_HEX: &str = "483ada7726a3c4655da4fbfc0e1108a8fd17b448a68554199c47d08ffb10d4b8";

pub fn p() -> BigUint {
    ec::parse(P_HEX, 16)
}
pub fn n() -> BigUint {
    ec::parse(N_HEX, 16)
}
fn fp() -> Fp {
    Fp { p: p() }
}
fn b() -> BigUint {
    BigUint::from(7u32)
}
pub fn generator() -> (BigUint, BigUint) {
    (ec::parse(GX_HEX, 16), ec::parse(GY_HEX, 16))
}

/// k * G as affine coordinates (None = infinity)
pub fn mul_g(k: &BigUint) -> Option<(BigUint, BigUint)> {
    let g: Point<BigUint> = Some(generator());
    ec::mul(&fp(), &g, k)
}

/// ECDSA signature of the 32-byte message hash `z` with private key `d` and nonce `k`
/// (all taken mod n): returns (r, s, y_is_odd) or None when r or s is zero or R.x >= n.
pub fn sign(z: &BigUint, d: &BigUint, k: &BigUint) -> Option<(BigUint, BigUint, bool)> {
    let n = n();
    let k = k % &n;
    if k.is_zero() {
        return None;
    }
    let (rx, ry) = mul_g(&k)?;
    if rx >= n {
        return None; // the recovery id would need its second bit: not expressible as v = 27/28
    }
    let r = rx;
    let kinv = k.modpow(&(&n - 2u32), &n);
    let s = (kinv * ((z % &n) + &r * (d % &n))) % &n;
    if r.is_zero() || s.is_zero() {
        return None;
    }
    Some((r, s, ry.bit(0)))
}

/// Public key Q with  s*R = z*G + r*Q,  R = the curve point with x = r and the given y parity.
/// None when r or s is outside [1, n-1], when x = r is not on the curve, or when Q is infinity.
pub fn recover(z: &BigUint, r: &BigUint, s: &BigUint, y_is_odd: bool) -> Option<(BigUint, BigUint)> {
    let n = n();
    let p = p();
    let f = fp();
    if r.is_zero() || s.is_zero() || *r >= n || *s >= n {
        return None;
    }
    // y = sqrt(x^3 + 7); p = 3 mod 4
    let rhs = f.add(&f.mul(&f.mul(r, r), r), &b());
    let mut y = rhs.modpow(&((&p + 1u32) >> 2), &p);
    if f.mul(&y, &y) != rhs {
        return None;
    }
    if y.bit(0) != y_is_odd {
        y = f.sub(&BigUint::zero(), &y);
    }
    let rp: Point<BigUint> = Some((r.clone(), y));
    let g: Point<BigUint> = Some(generator());
    let rinv = r.modpow(&(&n - 2u32), &n);
    // Q = r^-1 (s R - z G)
    let u1 = (&n - (z % &n) * &rinv % &n) % &n;
    let u2 = s * &rinv % &n;
    let q = ec::add(&f, &ec::mul(&f, &g, &u1), &ec::mul(&f, &rp, &u2));
    q
}

#[cfg(test)]
mod tests {
    use super::*;

    #[test]
    fn generator_and_order() {
        let (x, y) = generator();
        assert!(ec::on_curve(&fp(), &b(), &x, &y));
        assert_eq!(mul_g(&n()), None);
        assert_eq!(mul_g(&(n() + 1u32)), Some(generator()));
        // 2G (well-known value)
        let (x2, _) = mul_g(&BigUint::from(2u32)).unwrap();
        assert_eq!(x2, ec::parse("c6047f9441ed7d6d3045406e95c07cd85c778e4b8cef3ca7abac09b95c709ee5", 16));
    }

    #[test]
    fn sign_then_recover() {
        let mut seed = BigUint::from(0x1234_5678_9abc_def1u64);
        for i in 0..12u32 {
            seed = (&seed * &seed + 12345u32 + i) % n();
            let d = &seed % n();
            let z = (&seed * 7u32 + 3u32) % (BigUint::from(1u32) << 256);
            let k = (&seed * 31u32 + 11u32) % n();
            let Some((r, s, odd)) = sign(&z, &d, &k) else { continue };
            let q = recover(&z, &r, &s, odd).expect("recovers");
            assert_eq!(Some(q.clone()), mul_g(&d));
            // the high-s twin with flipped parity recovers the same key
            let q2 = recover(&z, &r, &(n() - &s), !odd).expect("recovers");
            assert_eq!(q, q2);
            // wrong parity gives another key
            assert_ne!(recover(&z, &r, &s, !odd), Some(q));
        }
    }

    #[test]
    fn rejects_out_of_range() {
        let z = BigUint::from(5u32);
        let one = BigUint::from(1u32);
        assert_eq!(recover(&z, &BigUint::zero(), &one, false), None);
        assert_eq!(recover(&z, &one, &BigUint::zero(), false), None);
        assert_eq!(recover(&z, &n(), &one, false), None);
        assert_eq!(recover(&z, &one, &n(), false), None);
        let _ = recover(&z, &one, &one, false); // must not panic whether or not x = 1 is on the curve
    }
}
