//! Shared, deliberately naive elliptic-curve machinery for the two pairing
//! curves: prime field Fp, quadratic extension Fp2 = Fp[i]/(i^2 + 1), and affine
//! short-Weierstrass arithmetic for curves y^2 = x^3 + b (a = 0).
//!
//! Points are `Option<(x, y)>` with `None` = point at infinity. All functions
//! here assume field elements are already reduced (the public wrappers in
//! `bn254` / `bls12_381` reduce their inputs).

use num_bigint::BigUint;
use num_traits::Zero;

pub(crate) trait Field {
    type El: Clone + PartialEq;
    fn reduce(&self, a: &Self::El) -> Self::El;
    fn is_canonical(&self, a: &Self::El) -> bool;
    fn is_zero(&self, a: &Self::El) -> bool;
    fn from_u32(&self, n: u32) -> Self::El;
    fn add(&self, a: &Self::El, b: &Self::El) -> Self::El;
    fn sub(&self, a: &Self::El, b: &Self::El) -> Self::El;
    fn mul(&self, a: &Self::El, b: &Self::El) -> Self::El;
    /// multiplicative inverse; returns zero for zero
    fn inv(&self, a: &Self::El) -> Self::El;
}

/// prime field of order `p`
pub(crate) struct Fp {
    pub p: BigUint,
}

impl Field for Fp {
    type El = BigUint;
    fn reduce(&self, a: &BigUint) -> BigUint {
        a % &self.p
    }
    fn is_canonical(&self, a: &BigUint) -> bool {
        *a < self.p
    }
    fn is_zero(&self, a: &BigUint) -> bool {
        a.is_zero()
    }
    fn from_u32(&self, n: u32) -> BigUint {
        BigUint::from(n) % &self.p
    }
    fn add(&self, a: &BigUint, b: &BigUint) -> BigUint {
        (a + b) % &self.p
    }
    fn sub(&self, a: &BigUint, b: &BigUint) -> BigUint {
        // (b % p) <= p, so the subtraction cannot go below zero
        (a + &self.p - (b % &self.p)) % &self.p
    }
    fn mul(&self, a: &BigUint, b: &BigUint) -> BigUint {
        (a * b) % &self.p
    }
    fn inv(&self, a: &BigUint) -> BigUint {
        // Fermat: a^(p-2) = a^-1 for prime p (and 0 -> 0)
        a.modpow(&(&self.p - BigUint::from(2u32)), &self.p)
    }
}

/// Fp2 = Fp[i] / (i^2 + 1); element (c0, c1) = c0 + c1 * i
pub(crate) struct Fp2 {
    pub fp: Fp,
}

pub(crate) type Fp2El = (BigUint, BigUint);

impl Field for Fp2 {
    type El = Fp2El;
    fn reduce(&self, a: &Fp2El) -> Fp2El {
        (self.fp.reduce(&a.0), self.fp.reduce(&a.1))
    }
    fn is_canonical(&self, a: &Fp2El) -> bool {
        self.fp.is_canonical(&a.0) && self.fp.is_canonical(&a.1)
    }
    fn is_zero(&self, a: &Fp2El) -> bool {
        a.0.is_zero() && a.1.is_zero()
    }
    fn from_u32(&self, n: u32) -> Fp2El {
        (self.fp.from_u32(n), BigUint::zero())
    }
    fn add(&self, a: &Fp2El, b: &Fp2El) -> Fp2El {
        (self.fp.add(&a.0, &b.0), self.fp.add(&a.1, &b.1))
    }
    fn sub(&self, a: &Fp2El, b: &Fp2El) -> Fp2El {
        (self.fp.sub(&a.0, &b.0), self.fp.sub(&a.1, &b.1))
    }
    fn mul(&self, a: &Fp2El, b: &Fp2El) -> Fp2El {
        // (a0 + a1 i)(b0 + b1 i) = (a0 b0 - a1 b1) + (a0 b1 + a1 b0) i
        let f = &self.fp;
        (
            f.sub(&f.mul(&a.0, &b.0), &f.mul(&a.1, &b.1)),
            f.add(&f.mul(&a.0, &b.1), &f.mul(&a.1, &b.0)),
        )
    }
    fn inv(&self, a: &Fp2El) -> Fp2El {
        // 1 / (a0 + a1 i) = (a0 - a1 i) / (a0^2 + a1^2)
        let f = &self.fp;
        let norm = f.add(&f.mul(&a.0, &a.0), &f.mul(&a.1, &a.1));
        let ninv = f.inv(&norm);
        (f.mul(&a.0, &ninv), f.sub(&BigUint::zero(), &f.mul(&a.1, &ninv)))
    }
}

pub(crate) type Point<E> = Option<(E, E)>;

/// y^2 == x^3 + b, with both coordinates canonical (< p)
pub(crate) fn on_curve<F: Field>(f: &F, b: &F::El, x: &F::El, y: &F::El) -> bool {
    if !f.is_canonical(x) || !f.is_canonical(y) {
        return false;
    }
    let lhs = f.mul(y, y);
    let rhs = f.add(&f.mul(&f.mul(x, x), x), b);
    lhs == rhs
}

pub(crate) fn neg<F: Field>(f: &F, p: &Point<F::El>) -> Point<F::El> {
    p.as_ref().map(|(x, y)| (x.clone(), f.sub(&f.from_u32(0), y)))
}

/// chord-and-tangent addition in affine coordinates (curve coefficient a = 0)
pub(crate) fn add<F: Field>(f: &F, p: &Point<F::El>, q: &Point<F::El>) -> Point<F::El> {
    let (x1, y1) = match p {
        None => return q.clone(),
        Some(xy) => xy,
    };
    let (x2, y2) = match q {
        None => return p.clone(),
        Some(xy) => xy,
    };
    let lambda = if x1 == x2 {
        if y1 != y2 || f.is_zero(y1) {
            // q = -p (this includes doubling a point of order two)
            return None;
        }
        // tangent: 3 x1^2 / (2 y1)
        let num = f.mul(&f.from_u32(3), &f.mul(x1, x1));
        let den = f.mul(&f.from_u32(2), y1);
        f.mul(&num, &f.inv(&den))
    } else {
        // chord: (y2 - y1) / (x2 - x1)
        f.mul(&f.sub(y2, y1), &f.inv(&f.sub(x2, x1)))
    };
    let x3 = f.sub(&f.sub(&f.mul(&lambda, &lambda), x1), x2);
    let y3 = f.sub(&f.mul(&lambda, &f.sub(x1, &x3)), y1);
    Some((x3, y3))
}

/// double-and-add, most significant bit first; the scalar is used as given
/// (not reduced modulo any group order)
pub(crate) fn mul<F: Field>(f: &F, p: &Point<F::El>, k: &BigUint) -> Point<F::El> {
    let mut acc: Point<F::El> = None;
    for i in (0..k.bits()).rev() {
        acc = add(f, &acc, &acc);
        if k.bit(i) {
            acc = add(f, &acc, p);
        }
    }
    acc
}

/// Parses one of the built-in curve constants (all of them are exercised by the tests).
pub(crate) fn parse(s: &str, radix: u32) -> BigUint {
    BigUint::parse_bytes(s.as_bytes(), radix).expect("malformed built-in constant")
}

/// Generates the public G1/G2 API of a curve module. The invoking module must
/// define `p()`, `order()`, `b1()` (G1 curve constant, in Fp), `b2()` (G2 curve
/// constant, in Fp2), `G1_GEN` and `G2_GEN` as (radix, x, y) / (radix, x0, x1, y0, y1).
macro_rules! curve_api {
    () => {
        /// Point of E(Fp): y^2 = x^3 + b1
        #[derive(Clone, Debug, PartialEq, Eq)]
        pub enum G1 {
            Inf,
            Aff(BigUint, BigUint),
        }

        /// Point of E'(Fp2): y^2 = x^3 + b2. A coordinate (c0, c1) means c0 + c1 * i.
        #[derive(Clone, Debug, PartialEq, Eq)]
        pub enum G2 {
            Inf,
            Aff((BigUint, BigUint), (BigUint, BigUint)),
        }

        fn fp() -> Fp {
            Fp { p: p() }
        }
        fn fp2() -> Fp2 {
            Fp2 { fp: fp() }
        }
        fn g1_to_point(f: &Fp, a: &G1) -> Point<BigUint> {
            match a {
                G1::Inf => None,
                G1::Aff(x, y) => Some((f.reduce(x), f.reduce(y))),
            }
        }
        fn g1_from_point(a: Point<BigUint>) -> G1 {
            match a {
                None => G1::Inf,
                Some((x, y)) => G1::Aff(x, y),
            }
        }
        fn g2_to_point(f: &Fp2, a: &G2) -> Point<Fp2El> {
            match a {
                G2::Inf => None,
                G2::Aff(x, y) => Some((f.reduce(x), f.reduce(y))),
            }
        }
        fn g2_from_point(a: Point<Fp2El>) -> G2 {
            match a {
                None => G2::Inf,
                Some((x, y)) => G2::Aff(x, y),
            }
        }

        /// true iff x, y < P and y^2 = x^3 + b1 (mod P)
        pub fn g1_on_curve(x: &BigUint, y: &BigUint) -> bool {
            ec::on_curve(&fp(), &b1(), x, y)
        }
        /// Group law on E(Fp). Works for any points of the curve (no subgroup
        /// requirement). Coordinates >= P are reduced first; points not on the
        /// curve give a meaningless (but panic-free) result.
        pub fn g1_add(a: &G1, b: &G1) -> G1 {
            let f = fp();
            g1_from_point(ec::add(&f, &g1_to_point(&f, a), &g1_to_point(&f, b)))
        }
        /// k * a by double-and-add; k is not reduced.
        pub fn g1_mul(a: &G1, k: &BigUint) -> G1 {
            let f = fp();
            g1_from_point(ec::mul(&f, &g1_to_point(&f, a), k))
        }
        pub fn g1_neg(a: &G1) -> G1 {
            let f = fp();
            g1_from_point(ec::neg(&f, &g1_to_point(&f, a)))
        }
        /// Inf, or an on-curve point with order * a = Inf
        pub fn g1_in_subgroup(a: &G1) -> bool {
            match a {
                G1::Inf => true,
                G1::Aff(x, y) => g1_on_curve(x, y) && g1_mul(a, &order()) == G1::Inf,
            }
        }
        pub fn g1_generator() -> G1 {
            let (radix, x, y) = G1_GEN;
            G1::Aff(ec::parse(x, radix), ec::parse(y, radix))
        }

        /// true iff all four coefficients < P and y^2 = x^3 + b2 in Fp2
        pub fn g2_on_curve(x: &(BigUint, BigUint), y: &(BigUint, BigUint)) -> bool {
            ec::on_curve(&fp2(), &b2(), x, y)
        }
        /// Group law on E'(Fp2); same conventions as `g1_add`.
        pub fn g2_add(a: &G2, b: &G2) -> G2 {
            let f = fp2();
            g2_from_point(ec::add(&f, &g2_to_point(&f, a), &g2_to_point(&f, b)))
        }
        pub fn g2_mul(a: &G2, k: &BigUint) -> G2 {
            let f = fp2();
            g2_from_point(ec::mul(&f, &g2_to_point(&f, a), k))
        }
        pub fn g2_neg(a: &G2) -> G2 {
            let f = fp2();
            g2_from_point(ec::neg(&f, &g2_to_point(&f, a)))
        }
        /// Inf, or an on-curve point with order * a = Inf
        pub fn g2_in_subgroup(a: &G2) -> bool {
            match a {
                G2::Inf => true,
                G2::Aff(x, y) => g2_on_curve(x, y) && g2_mul(a, &order()) == G2::Inf,
            }
        }
        pub fn g2_generator() -> G2 {
            let (radix, x0, x1, y0, y1) = G2_GEN;
            G2::Aff(
                (ec::parse(x0, radix), ec::parse(x1, radix)),
                (ec::parse(y0, radix), ec::parse(y1, radix)),
            )
        }
    };
}
pub(crate) use curve_api;

/// Group-law tests shared by both curve modules; expanded inside their test
/// modules. `VEC_RADIX`, `VEC_K`, `VEC_G1`, `VEC_G2` (k, k*G1, k*G2 computed by
/// an independent python model) must be in scope.
#[cfg(test)]
macro_rules! curve_tests {
    () => {
        /// xorshift64 scalar source: alternates 64-bit and ~256-bit scalars
        struct Rng(u64);
        impl Rng {
            fn word(&mut self) -> u64 {
                self.0 ^= self.0 << 13;
                self.0 ^= self.0 >> 7;
                self.0 ^= self.0 << 17;
                self.0
            }
            fn scalar(&mut self) -> BigUint {
                if self.word() % 2 == 0 {
                    BigUint::from(self.word())
                } else {
                    let words: Vec<u32> = (0..8).map(|_| self.word() as u32).collect();
                    BigUint::from_slice(&words)
                }
            }
        }
        fn big(s: &str) -> BigUint {
            ec::parse(s, VEC_RADIX)
        }
        fn g1_is_on_curve(a: &G1) -> bool {
            match a {
                G1::Inf => true,
                G1::Aff(x, y) => g1_on_curve(x, y),
            }
        }
        fn g2_is_on_curve(a: &G2) -> bool {
            match a {
                G2::Inf => true,
                G2::Aff(x, y) => g2_on_curve(x, y),
            }
        }

        #[test]
        fn generators_on_curve_with_prime_order() {
            let (g1, g2) = (g1_generator(), g2_generator());
            assert!(g1_is_on_curve(&g1) && g2_is_on_curve(&g2));
            assert_eq!(g1_mul(&g1, &order()), G1::Inf);
            assert_eq!(g2_mul(&g2, &order()), G2::Inf);
            assert_eq!(g1_mul(&g1, &(order() - 1u32)), g1_neg(&g1));
            assert_eq!(g2_mul(&g2, &(order() - 1u32)), g2_neg(&g2));
            assert_eq!(g1_mul(&g1, &(order() + 5u32)), g1_mul(&g1, &BigUint::from(5u32)));
            assert_eq!(g2_mul(&g2, &(order() + 5u32)), g2_mul(&g2, &BigUint::from(5u32)));
            assert!(g1_in_subgroup(&g1) && g2_in_subgroup(&g2));
            assert!(g1_in_subgroup(&G1::Inf) && g2_in_subgroup(&G2::Inf));
        }

        #[test]
        fn identity_inverse_and_doubling() {
            let two = BigUint::from(2u32);
            let (g1, g2) = (g1_generator(), g2_generator());
            assert_eq!(g1_add(&G1::Inf, &G1::Inf), G1::Inf);
            assert_eq!(g1_add(&g1, &G1::Inf), g1);
            assert_eq!(g1_add(&G1::Inf, &g1), g1);
            assert_eq!(g1_add(&g1, &g1_neg(&g1)), G1::Inf);
            assert_eq!(g1_add(&g1, &g1), g1_mul(&g1, &two));
            assert_eq!(g1_mul(&g1, &BigUint::from(0u32)), G1::Inf);
            assert_eq!(g1_mul(&g1, &BigUint::from(1u32)), g1);
            assert_eq!(g1_mul(&G1::Inf, &BigUint::from(77u32)), G1::Inf);
            assert_eq!(g1_neg(&G1::Inf), G1::Inf);
            assert_eq!(g1_neg(&g1_neg(&g1)), g1);
            assert_eq!(g2_add(&G2::Inf, &G2::Inf), G2::Inf);
            assert_eq!(g2_add(&g2, &G2::Inf), g2);
            assert_eq!(g2_add(&G2::Inf, &g2), g2);
            assert_eq!(g2_add(&g2, &g2_neg(&g2)), G2::Inf);
            assert_eq!(g2_add(&g2, &g2), g2_mul(&g2, &two));
            assert_eq!(g2_mul(&g2, &BigUint::from(0u32)), G2::Inf);
            assert_eq!(g2_mul(&g2, &BigUint::from(1u32)), g2);
            assert_eq!(g2_mul(&G2::Inf, &BigUint::from(77u32)), G2::Inf);
            assert_eq!(g2_neg(&G2::Inf), G2::Inf);
            assert_eq!(g2_neg(&g2_neg(&g2)), g2);
        }

        #[test]
        fn group_laws_on_random_multiples() {
            let mut rng = Rng(0x1234_5678_9abc_def1);
            let (g1, g2) = (g1_generator(), g2_generator());
            for _ in 0..6 {
                let (a, b, c) = (rng.scalar(), rng.scalar(), rng.scalar());
                // G1
                let (pa, pb, pc) = (g1_mul(&g1, &a), g1_mul(&g1, &b), g1_mul(&g1, &c));
                assert!(g1_is_on_curve(&pa) && g1_is_on_curve(&pb) && g1_is_on_curve(&pc));
                let ab = g1_add(&pa, &pb);
                assert!(g1_is_on_curve(&ab));
                assert_eq!(ab, g1_mul(&g1, &(&a + &b))); // (a+b)G = aG + bG
                assert_eq!(ab, g1_add(&pb, &pa)); // commutative
                assert_eq!(g1_add(&ab, &pc), g1_add(&pa, &g1_add(&pb, &pc))); // associative
                assert_eq!(g1_mul(&pa, &b), g1_mul(&g1, &(&a * &b))); // b(aG) = (ab)G
                assert_eq!(g1_add(&pa, &pa), g1_mul(&pa, &BigUint::from(2u32))); // doubling
                assert_eq!(g1_add(&ab, &g1_neg(&pb)), pa);
                // G2
                let (qa, qb, qc) = (g2_mul(&g2, &a), g2_mul(&g2, &b), g2_mul(&g2, &c));
                assert!(g2_is_on_curve(&qa) && g2_is_on_curve(&qb) && g2_is_on_curve(&qc));
                let ab = g2_add(&qa, &qb);
                assert!(g2_is_on_curve(&ab));
                assert_eq!(ab, g2_mul(&g2, &(&a + &b)));
                assert_eq!(ab, g2_add(&qb, &qa));
                assert_eq!(g2_add(&ab, &qc), g2_add(&qa, &g2_add(&qb, &qc)));
                assert_eq!(g2_mul(&qa, &b), g2_mul(&g2, &(&a * &b)));
                assert_eq!(g2_add(&qa, &qa), g2_mul(&qa, &BigUint::from(2u32)));
                assert_eq!(g2_add(&ab, &g2_neg(&qb)), qa);
            }
        }

        #[test]
        fn multiples_against_python_model() {
            let (g1, g2) = (g1_generator(), g2_generator());
            for i in 0..VEC_K.len() {
                let k = big(VEC_K[i]);
                let [x, y] = VEC_G1[i];
                assert_eq!(g1_mul(&g1, &k), G1::Aff(big(x), big(y)), "k = {}", VEC_K[i]);
                let [x0, x1, y0, y1] = VEC_G2[i];
                assert_eq!(g2_mul(&g2, &k), G2::Aff((big(x0), big(x1)), (big(y0), big(y1))), "k = {}", VEC_K[i]);
            }
        }

        #[test]
        fn non_canonical_and_off_curve_inputs() {
            let one = BigUint::from(1u32);
            let (gx, gy) = match g1_generator() {
                G1::Aff(x, y) => (x, y),
                G1::Inf => unreachable!(),
            };
            assert!(!g1_on_curve(&(&gx + p()), &gy)); // x >= P rejected
            assert!(!g1_on_curve(&gx, &(&gy + p())));
            assert!(!g1_on_curve(&gx, &(&gy + &one)));
            assert!(!g1_on_curve(&BigUint::from(0u32), &BigUint::from(0u32)));
            assert!(!g1_in_subgroup(&G1::Aff(gx.clone(), &gy + &one)));
            // arithmetic reduces coordinates first
            let shifted = G1::Aff(&gx + p(), &gy + p() * 3u32);
            assert_eq!(g1_add(&shifted, &g1_generator()), g1_mul(&g1_generator(), &BigUint::from(2u32)));
            // garbage must not panic
            let junk = G1::Aff(BigUint::from(0u32), BigUint::from(0u32));
            let _ = g1_add(&junk, &junk);
            let _ = g1_add(&junk, &g1_generator());
            let _ = g1_mul(&junk, &order());
            let _ = g1_mul(&G1::Aff(one.clone() << 600usize, one.clone() << 700usize), &(one.clone() << 300usize));

            let (hx, hy) = match g2_generator() {
                G2::Aff(x, y) => (x, y),
                G2::Inf => unreachable!(),
            };
            assert!(!g2_on_curve(&(&hx.0 + p(), hx.1.clone()), &hy));
            assert!(!g2_on_curve(&(hx.0.clone(), &hx.1 + p()), &hy));
            assert!(!g2_on_curve(&hx, &(&hy.0 + p(), hy.1.clone())));
            assert!(!g2_on_curve(&hx, &(hy.0.clone(), &hy.1 + p())));
            assert!(!g2_on_curve(&hx, &(hy.0.clone(), &hy.1 + &one)));
            assert!(!g2_in_subgroup(&G2::Aff(hx.clone(), (hy.0.clone(), &hy.1 + &one))));
            let shifted = G2::Aff((&hx.0 + p(), &hx.1 + p()), (&hy.0 + p(), &hy.1 + p()));
            assert_eq!(g2_add(&shifted, &g2_generator()), g2_mul(&g2_generator(), &BigUint::from(2u32)));
            let zero2 = (BigUint::from(0u32), BigUint::from(0u32));
            let junk = G2::Aff(zero2.clone(), zero2.clone());
            let _ = g2_add(&junk, &junk);
            let _ = g2_add(&junk, &g2_generator());
            let _ = g2_mul(&junk, &order());
        }
    };
}
#[cfg(test)]
pub(crate) use curve_tests;
