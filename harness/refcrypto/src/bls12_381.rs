//! BLS12-381 (EIP-2537). G1: y^2 = x^3 + 4 over Fp. G2: y^2 = x^3 + 4(1+u)
//! over Fp2 = Fp[u]/(u^2+1). Both curves have non-trivial cofactors, so
//! on-curve does not imply membership of the order-R subgroup.

use crate::ec::{self, Field, Fp, Fp2, Fp2El, Point};
use num_bigint::BigUint;

/// field modulus P (hex, 381 bits)
pub const P_HEX: &str =
    "1a0111ea397fe69a4b1ba7b6434bacd764774b84f38512bf6730d2a0f6b0f6241eabfffeb153ffffb9feffffffffaaab";
/// subgroup order R (hex, 255 bits)
pub const R_HEX: &str = "73eda753299d7d483339d80809a1d80553bda402fffe5bfeffffffff00000001";

/// (radix, x, y) of the G1 generator
const G1_GEN: (u32, &str, &str) = (
    16,
    "17f1d3a73197d7942695638c4fa9ac0fc3688c4f9774b905a14e3a3f171bac586c55e83ff97a1aeffb3af00adb22c6bb",
    "08b3f481e3aaa0f1a09e30ed741d8ae4fcf5e095d5d00af600db18cb2c04b3edd03cc744a2888ae40caa232946c5e7e1",
);
/// (radix, x.c0, x.c1, y.c0, y.c1) of the G2 generator
const G2_GEN: (u32, &str, &str, &str, &str) = (
    16,
    "024aa2b2f08f0a91260805272dc51051c6e47ad4fa403b02b4510b647ae3d1770bac0326a805bbefd48056c8c121bdb8",
    "13e02b6052719f607dacd3a088274f65596bd0d09920b61ab5da61bbdc7f5049334cf11213945d57e5ac7d055d042b7e",
    "0ce5d527727d6e118cc9cdc6da2e351aadfd9baa8cbdd3a76d429a695160d12c923ac9cc3baca289e193548608b82801",
    "0606c4a02ea734cc32acd2b02bc28b99cb3e287e85a763af267492ab572e99ab3f370d275cec1da1aaa9075ff05f79be",
);

/// field modulus P
pub fn p() -> BigUint {
    ec::parse(P_HEX, 16)
}
/// order R of the G1 / G2 subgroups
pub fn r() -> BigUint {
    ec::parse(R_HEX, 16)
}
/// same as `r()` (name shared with the bn254 module)
pub fn order() -> BigUint {
    r()
}
/// G1 curve constant b = 4
fn b1() -> BigUint {
    BigUint::from(4u32)
}
/// G2 curve constant b' = 4 (1 + u)
fn b2() -> Fp2El {
    (BigUint::from(4u32), BigUint::from(4u32))
}

ec::curve_api!();

/// A point of E(Fp) outside the order-R subgroup: x = 4, y = sqrt(4^3 + 4) (P = 3 mod 4).
pub fn g1_off_subgroup() -> G1 {
    let y = BigUint::from(68u32).modpow(&((p() + 1u32) >> 2), &p());
    G1::Aff(BigUint::from(4u32), y)
}

/// A point of E'(Fp2) outside the order-R subgroup: x = 1 + u (y from the python model, checked in the tests).
pub fn g2_off_subgroup() -> G2 {
    G2::Aff(
        (BigUint::from(1u32), BigUint::from(1u32)),
        (
            ec::parse("17faa6201231304f270b858dad9462089f2a5b83388e4b10773abc1eef6d193b9fce4e8ea2d9d28e3c3a315aa7de14ca", 16),
            ec::parse("cc12449be6ac4e7f367e7242250427c4fb4c39325d3164ad397c1837a90f0ea1a534757df374dd6569345eb41ed76e", 16),
        ),
    )
}

#[cfg(test)]
mod tests {
    use super::*;

    const VEC_RADIX: u32 = 16;
    const VEC_K: [&str; 7] = [
        "2",
        "3",
        "5",
        "74fd5e3ede15ff11eefb5c0fe3f7f14e06fc89649f9b43a99fb6ec663bc45c1",
        "73eda753299d7d483339d80809a1d80553bda402fffe5bfeffffffff00000000",
        "73eda753299d7d483339d80809a1d80553bda402fffe5bfeffffffff00000008",
        "e99eefe4237fe0733f5bd72f56ddb589bdd1a845f0d554949efe35fed0d13f6a1e7b1243c1b",
    ];
    const VEC_G1: [[&str; 2]; 7] = [
        [
            "572cbea904d67468808c8eb50a9450c9721db309128012543902d0ac358a62ae28f75bb8f1c7c42c39a8c5529bf0f4e",
            "166a9d8cabc673a322fda673779d8e3822ba3ecb8670e461f73bb9021d5fd76a4c56d9d4cd16bd1bba86881979749d28",
        ],
        [
            "9ece308f9d1f0131765212deca99697b112d61f9be9a5f1f3780a51335b3ff981747a0b2ca2179b96d2c0c9024e5224",
            "32b80d3a6f5b09f8a84623389c5f80ca69a0cddabc3097f9d9c27310fd43be6e745256c634af45ca3473b0590ae30d1",
        ],
        [
            "10e7791fb972fe014159aa33a98622da3cdc98ff707965e536d8636b5fcc5ac7a91a8c46e59a00dca575af0f18fb13dc",
            "16ba437edcc6551e30c10512367494bfb6b01cc6681e8a4c3cd2501832ab5c4abc40b4578b85cbaffbf0bcd70d67c6e2",
        ],
        [
            "19ab6df1454da687fd26ac7fce8cbb171b16b2b989df78ca8333be8749f91b75c5418e330789093120497c807018d536",
            "a4e494cf31eb83a58bcaa5f4e712fb664ab1748b21edff72936acc2185ae0b5847d640d6f2409796a106a170fb1c844",
        ],
        [
            "17f1d3a73197d7942695638c4fa9ac0fc3688c4f9774b905a14e3a3f171bac586c55e83ff97a1aeffb3af00adb22c6bb",
            "114d1d6855d545a8aa7d76c8cf2e21f267816aef1db507c96655b9d5caac42364e6f38ba0ecb751bad54dcd6b939c2ca",
        ],
        [
            "1928f3beb93519eecf0145da903b40a4c97dca00b21f12ac0df3be9116ef2ef27b2ae6bcd4c5bc2d54ef5a70627efcb7",
            "108dadbaa4b636445639d5ae3089b3c43a8a1d47818edd1839d7383959a41c10fdc66849cfa1b08c5a11ec7e28981a1c",
        ],
        [
            "18bbc54d38bfc1b473b71f8c9a90373e75309b5bbde6ecc1f51819e16ddefaefeaa9dd5b1bc6d81ca8e6eaaed98065b8",
            "d121d242127420c7741d91d83bc62c526ece2660128f3ef01263d94e66bdd872184a2eb4684c51638349d8aaf86043c",
        ],
    ];
    const VEC_G2: [[&str; 4]; 7] = [
        [
            "1638533957d540a9d2370f17cc7ed5863bc0b995b8825e0ee1ea1e1e4d00dbae81f14b0bf3611b78c952aacab827a053",
            "a4edef9c1ed7f729f520e47730a124fd70662a904ba1074728114d1031e1572c6c886f6b57ec72a6178288c47c33577",
            "468fb440d82b0630aeb8dca2b5256789a66da69bf91009cbfe6bd221e47aa8ae88dece9764bf3bd999d95d71e4c9899",
            "f6d4552fa65dd2638b361543f887136a43253d9c66c411697003f7a13c308f5422e1aa0a59c8967acdefd8b6e36ccf3",
        ],
        [
            "122915c824a0857e2ee414a3dccb23ae691ae54329781315a0c75df1c04d6d7a50a030fc866f09d516020ef82324afae",
            "9380275bbc8e5dcea7dc4dd7e0550ff2ac480905396eda55062650f8d251c96eb480673937cc6d9d6a44aaa56ca66dc",
            "b21da7955969e61010c7a1abc1a6f0136961d1e3b20b1a7326ac738fef5c721479dfd948b52fdf2455e44813ecfd892",
            "8f239ba329b3967fe48d718a36cfe5f62a7e42e0bf1c1ed714150a166bfbd6bcf6b3b58b975b9edea56d53f23a0e849",
        ],
        [
            "411a5de6730ffece671a9f21d65028cc0f1102378de124562cb1ff49db6f004fcd14d683024b0548eff3d1468df2688",
            "fb837804dba8213329db46608b6c121d973363c1234a86dd183baff112709cf97096c5e9a1a770ee9d7dc641a894d6",
            "19b5e8f5d4a72f2b75811ac084a7f814317360bac52f6aab15eed416b4ef9938e0bdc4865cc2c4d0fd947e7c6925fd14",
            "93567b4228be17ee62d11a254edd041ee4b953bffb8b8c7f925bd6662b4298bac2822b446f5b5de3b893e1be5aa4986",
        ],
        [
            "ec3819c3ce218062181f0b955980ad9f646c62f254beacbeac331cbe1a924db034be68f80f4d8dd02bbd2f1b7aca05f",
            "91e6e2895a5b622caeaa14790abfe536f0d2f3faf251069bb491ced272c17e5d148bc1d2c07cf031ad3e28aa838e428",
            "1775021d854236e9d192a358c54d7e108fc5e59b5d1836936d49e43ecd3df7c5d825e412b00d412306f6563c48d28a63",
            "fbd5f4e847a6bf86fc667555dd8efd9d6bd4ef4706960b95332c9aeece7fcfb285e4b32e0a8276dd47eba8691d093f5",
        ],
        [
            "24aa2b2f08f0a91260805272dc51051c6e47ad4fa403b02b4510b647ae3d1770bac0326a805bbefd48056c8c121bdb8",
            "13e02b6052719f607dacd3a088274f65596bd0d09920b61ab5da61bbdc7f5049334cf11213945d57e5ac7d055d042b7e",
            "d1b3cc2c7027888be51d9ef691d77bcb679afda66c73f17f9ee3837a55024f78c71363275a75d75d86bab79f74782aa",
            "13fa4d4a0ad8b1ce186ed5061789213d993923066dddaf1040bc3ff59f825c78df74f2d75467e25e0f55f8a00fa030ed",
        ],
        [
            "49cd1dbb2d2c3581e54c088135fef36505a6823d61b859437bfc79b617030dc8b40e32bad1fa85b9c0f368af6d38d3c",
            "d0273f6bf31ed37c3b8d68083ec3d8e20b5f2cc170fa24b9b5be35b34ed013f9a921f1cad1644d4bdb14674247234c8",
            "8b7ae4dbf802c17a6648842922c9467e460a71c88d393ee7af356da123a2f3619e80c3bdcc8e2b1da52f8cd9913ccdd",
            "5ecf93654b7a1885695aaeeb7caf41b0239dc45e1022be55d37111af2aecef87799638bec572de86a7437898efa7020",
        ],
        [
            "7d987d18f52745ab9928443f8eaf1c8ca70d0766a40d24bd31b2f1227c63c6678d718b7c498f43f86e43861dfdd3e24",
            "f666e94008da7afd18df6dd9e04a3be90011ad83725643b8bdce62b755c4da93630c110452d924dcd95302ed0e1f70f",
            "88d931450743def3f10e135e22dcb0aac6ab408ace147fa01bfe1df3b0e336bb3766ee443e22bcdfc74040b7288f6b",
            "1335dad3ec40286106ded0a2a761ee62f812e8ff792536faeb3c236c1200886d6906d8ade50badcabb38f036480976ba",
        ],
    ];
    ec::curve_tests!();

    #[test]
    fn parameters() {
        assert_eq!(p().bits(), 381);
        assert_eq!(r().bits(), 255);
        // BLS12 parametrisation with z = -0xd201000000010000:
        // r = z^4 - z^2 + 1, p = (z - 1)^2 * r / 3 + z
        let z = BigUint::from(0xd201000000010000u64); // |z|
        let z2 = &z * &z;
        let r_ = &z2 * &z2 - &z2 + 1u32;
        assert_eq!(r(), r_);
        let zp1 = &z + 1u32; // (z - 1)^2 = (|z| + 1)^2
        assert_eq!(p(), &zp1 * &zp1 * &r_ / 3u32 - &z);
        assert_eq!((&zp1 * &zp1 * &r_) % 3u32, BigUint::from(0u32));
    }

    /// Points of E(Fp) outside the order-R subgroup. Q is the point with x = 4
    /// (smallest x giving a curve point of order not dividing R), S = Q + 12345 G.
    /// Expected coordinates (Q, S, 2Q, R*S) come from the python model.
    #[test]
    fn g1_add_outside_subgroup() {
        let c: Vec<BigUint> = ["4", "a989badd40d6212b33cffc3f3763e9bc760f988c9926b26da9dd85e928483446346b8ed00e1de5d5ea93e354abe706c", "4c159574ed468053f4ec5215042ca729eda5b9c0a2324d9752acdbdbb08da7bf8bf807f11c51b4ea382cd21a652dae9", "112d992d28ac52f1fbe45b2cf5417134d07f95779d38fad60d79f1f47500963f1db64b29413b7d1d4e32cc8dfc69e37b", "61e5e9176f0eaf720bb36853d02bf41bd493ef21b2e5ec39fcf409e5829a353cafb4b4afc8c3c3c2bc3878787877374", "3dce838b58d784d9e663fdf809f630c630692751c8af8af9b42d50ff90694b2e211bc0c19a333160a1ee6891b38838e", "ccd40884cb1834492efbd0149a414535890f30477f9535103082ff438ca13d7f7e36e2f1d15dd8ca30397f12170831a", "157112d2c2dfffc1f042dd01e9cc104f0609ada5f5fb621f5eb44c9b1b3174267681bbdea41aacc3af76740445774b94"].iter().map(|s| big(s)).collect();
        let q = G1::Aff(c[0].clone(), c[1].clone());
        let s = G1::Aff(c[2].clone(), c[3].clone());
        let q2 = G1::Aff(c[4].clone(), c[5].clone());
        let rs = G1::Aff(c[6].clone(), c[7].clone());
        // derive Q's y here as well: sqrt(4^3 + 4) = 68^((P+1)/4)
        let y = BigUint::from(68u32).modpow(&((p() + 1u32) >> 2), &p());
        assert_eq!(&y * &y % p(), BigUint::from(68u32));
        assert_eq!(y, c[1]);
        assert!(g1_is_on_curve(&q) && g1_is_on_curve(&s));
        assert!(!g1_in_subgroup(&q) && !g1_in_subgroup(&s));
        let g12345 = g1_mul(&g1_generator(), &BigUint::from(12345u32));
        assert_eq!(g1_add(&q, &g12345), s);
        assert_eq!(g1_add(&g12345, &q), s);
        assert_eq!(g1_add(&q, &q), q2);
        assert_eq!(g1_mul(&q, &BigUint::from(2u32)), q2);
        assert_eq!(g1_mul(&s, &r()), rs);
        assert_eq!(g1_add(&s, &g1_neg(&q)), g12345);
        assert_eq!(g1_add(&g1_add(&q, &s), &q2), g1_add(&q, &g1_add(&s, &q2)));
        // cofactor h1 = (z - 1)^2 / 3 clears Q into the subgroup
        let h1 = ec::parse("396c8c005555e1568c00aaab0000aaab", 16);
        let zp1 = BigUint::from(0xd201000000010000u64) + 1u32;
        assert_eq!(h1, &zp1 * &zp1 / 3u32);
        assert!(g1_in_subgroup(&g1_mul(&q, &h1)));
        assert!(g1_mul(&q, &h1) != G1::Inf);
        assert_eq!(g1_mul(&q, &(h1 * r())), G1::Inf);
    }

    /// Same for E'(Fp2): Q has x = 1 + u, S = Q + 54321 G2; expected Q, S, 2Q
    /// from the python model.
    #[test]
    fn g2_add_outside_subgroup() {
        assert!(!g2_in_subgroup(&g2_off_subgroup()) && !g1_in_subgroup(&g1_off_subgroup()));
        match (g2_off_subgroup(), g1_off_subgroup()) {
            (G2::Aff(x, y), G1::Aff(a, b)) => assert!(g2_on_curve(&x, &y) && g1_on_curve(&a, &b)),
            _ => unreachable!(),
        }
        let c: Vec<BigUint> = ["1", "1", "17faa6201231304f270b858dad9462089f2a5b83388e4b10773abc1eef6d193b9fce4e8ea2d9d28e3c3a315aa7de14ca", "cc12449be6ac4e7f367e7242250427c4fb4c39325d3164ad397c1837a90f0ea1a534757df374dd6569345eb41ed76e", "1451df4be18be383af07e125127436781840dc750447e428a2b431d911faff0c6c3869662707a7833fe89f0c53c8b468", "1503dfb1adb98b667ef3fc471af8217fdbfcceb70c262ae42b675e1f2984e01688b2f76d261d1b966c93ef262ba4d639", "1939353547e17098e89366d25a4c5a5977c052e3635812268caf3f46678fba902725ab7a73cd9837a5382b68e7cc9c68", "173787914d5b35e9e9d6fe9831acf04ac98956913bbc84b846961502968c2acdc60d14d3afe6621f7db3a0fc747a7e11", "919f97860ecc3e933e3477fcac0e2e4fcc35a6e886e935c97511685232456263def6665f143ccccb44c733333331553", "18b4376b50398178fa8d78ed2654b0ffd2a487be4dbe6b69086e61b283f4e9d58389cccb8edc99995718a66666661555", "26898f699c4b07a405ab4183a10b47f923d1c0fda1018682dd2ccc88968c1b90d44534d6b9270cf57f8dc6d4891678a", "3270414330ead5ec92219a03a24dfa059dbcbe610868be1851cc13dac447f60b40d41113fd007d3307b19add4b0f061"].iter().map(|s| big(s)).collect();
        let pt = |i: usize| G2::Aff((c[i].clone(), c[i + 1].clone()), (c[i + 2].clone(), c[i + 3].clone()));
        let (q, s, q2) = (pt(0), pt(4), pt(8));
        assert!(g2_is_on_curve(&q) && g2_is_on_curve(&s) && g2_is_on_curve(&q2));
        assert!(!g2_in_subgroup(&q) && !g2_in_subgroup(&s));
        let g54321 = g2_mul(&g2_generator(), &BigUint::from(54321u32));
        assert_eq!(g2_add(&q, &g54321), s);
        assert_eq!(g2_add(&g54321, &q), s);
        assert_eq!(g2_add(&q, &q), q2);
        assert_eq!(g2_mul(&q, &BigUint::from(2u32)), q2);
        assert_eq!(g2_add(&s, &g2_neg(&q)), g54321);
        assert_eq!(g2_add(&g2_add(&q, &s), &q2), g2_add(&q, &g2_add(&s, &q2)));
    }
}
