//! BLAKE2b compression function F (RFC 7693 section 3.2) with a caller-chosen
//! number of rounds, as exposed by the EIP-152 precompile.

/// RFC 7693 section 2.6: initialisation vector (same as the SHA-512 IV).
pub const BLAKE2B_IV: [u64; 8] = [
    0x6a09e667f3bcc908,
    0xbb67ae8584caa73b,
    0x3c6ef372fe94f82b,
    0xa54ff53a5f1d36f1,
    0x510e527fade682d1,
    0x9b05688c2b3e6c1f,
    0x1f83d9abfb41bd6b,
    0x5be0cd19137e2179,
];

/// RFC 7693 section 2.7: message word schedule.
const SIGMA: [[usize; 16]; 10] = [
    [0, 1, 2, 3, 4, 5, 6, 7, 8, 9, 10, 11, 12, 13, 14, 15],
    [14, 10, 4, 8, 9, 15, 13, 6, 1, 12, 0, 2, 11, 7, 5, 3],
    [11, 8, 12, 0, 5, 2, 15, 13, 10, 14, 3, 6, 7, 1, 9, 4],
    [7, 9, 3, 1, 13, 12, 11, 14, 2, 6, 5, 10, 4, 0, 15, 8],
    [9, 0, 5, 7, 2, 4, 10, 15, 14, 1, 11, 12, 6, 8, 3, 13],
    [2, 12, 6, 10, 0, 11, 8, 3, 4, 13, 7, 5, 15, 14, 1, 9],
    [12, 5, 1, 15, 14, 13, 4, 10, 0, 7, 6, 3, 9, 2, 8, 11],
    [13, 11, 7, 14, 12, 1, 3, 9, 5, 0, 15, 4, 8, 6, 2, 10],
    [6, 15, 14, 9, 11, 3, 0, 8, 12, 2, 13, 7, 1, 4, 10, 5],
    [10, 2, 8, 4, 7, 6, 1, 5, 15, 11, 9, 14, 3, 12, 13, 0],
];

/// RFC 7693 section 3.1: mixing function G with rotation constants
/// (R1, R2, R3, R4) = (32, 24, 16, 63).
fn g(v: &mut [u64; 16], a: usize, b: usize, c: usize, d: usize, x: u64, y: u64) {
    v[a] = v[a].wrapping_add(v[b]).wrapping_add(x);
    v[d] = (v[d] ^ v[a]).rotate_right(32);
    v[c] = v[c].wrapping_add(v[d]);
    v[b] = (v[b] ^ v[c]).rotate_right(24);
    v[a] = v[a].wrapping_add(v[b]).wrapping_add(y);
    v[d] = (v[d] ^ v[a]).rotate_right(16);
    v[c] = v[c].wrapping_add(v[d]);
    v[b] = (v[b] ^ v[c]).rotate_right(63);
}

/// Compression function F. `t` = (low word, high word) of the byte offset
/// counter, `last` = final block flag. Round `i` uses `SIGMA[i % 10]`.
pub fn blake2f(rounds: u32, h: [u64; 8], m: [u64; 16], t: [u64; 2], last: bool) -> [u64; 8] {
    let mut v = [0u64; 16];
    v[..8].copy_from_slice(&h);
    v[8..].copy_from_slice(&BLAKE2B_IV);
    v[12] ^= t[0];
    v[13] ^= t[1];
    if last {
        v[14] = !v[14];
    }
    for i in 0..rounds {
        let s = &SIGMA[(i % 10) as usize];
        g(&mut v, 0, 4, 8, 12, m[s[0]], m[s[1]]);
        g(&mut v, 1, 5, 9, 13, m[s[2]], m[s[3]]);
        g(&mut v, 2, 6, 10, 14, m[s[4]], m[s[5]]);
        g(&mut v, 3, 7, 11, 15, m[s[6]], m[s[7]]);
        g(&mut v, 0, 5, 10, 15, m[s[8]], m[s[9]]);
        g(&mut v, 1, 6, 11, 12, m[s[10]], m[s[11]]);
        g(&mut v, 2, 7, 8, 13, m[s[12]], m[s[13]]);
        g(&mut v, 3, 4, 9, 14, m[s[14]], m[s[15]]);
    }
    let mut out = [0u64; 8];
    for i in 0..8 {
        out[i] = h[i] ^ v[i] ^ v[i + 8];
    }
    out
}

#[cfg(test)]
mod tests {
    use super::*;
    use crate::hash::tests::hex;

    /// Full BLAKE2b (RFC 7693 section 3.3) built on top of `blake2f`, used to
    /// compare with python's hashlib.blake2b. Exercises non-final blocks, the
    /// offset counter, keyed mode and truncated digests.
    fn blake2b(data: &[u8], key: &[u8], out_len: usize) -> Vec<u8> {
        let mut h = BLAKE2B_IV;
        h[0] ^= 0x01010000 ^ ((key.len() as u64) << 8) ^ out_len as u64;
        let mut input = Vec::new();
        if !key.is_empty() {
            input.extend_from_slice(key);
            input.resize(128, 0);
        }
        input.extend_from_slice(data);
        let total = input.len() as u64;
        if input.is_empty() || input.len() % 128 != 0 {
            let padded = (input.len() / 128 + 1) * 128;
            input.resize(padded, 0);
        }
        let blocks = input.len() / 128;
        for (i, block) in input.chunks(128).enumerate() {
            let mut m = [0u64; 16];
            for j in 0..16 {
                m[j] = u64::from_le_bytes(block[8 * j..8 * j + 8].try_into().unwrap());
            }
            let is_last = i + 1 == blocks;
            let t = if is_last { total } else { (i as u64 + 1) * 128 };
            h = blake2f(12, h, m, [t, 0], is_last);
        }
        let bytes: Vec<u8> = h.iter().flat_map(|w| w.to_le_bytes()).collect();
        bytes[..out_len].to_vec()
    }

    fn pattern(len: usize) -> Vec<u8> {
        (0..len).map(|i| ((i * 11 + len * 3 + 1) & 0xff) as u8).collect()
    }

    #[test]
    fn blake2b_abc_rfc7693_appendix_a() {
        assert_eq!(
            hex(&blake2b(b"abc", b"", 64)),
            "ba80a53f981c4d0d6a2797b69f12f6e94c212f14685ac4b74b12bb6fdbffa2d1\
             7d87c5392aab792dc252d5de4533cc9518d38aa8dbf1925ab92386edd4009923"
        );
    }

    /// expected values computed with python hashlib.blake2b
    #[test]
    fn blake2b_against_hashlib() {
        let cases: [(usize, usize, usize, &str); 9] = [
            (0, 0, 64, "786a02f742015903c6c6fd852552d272912f4740e15847618a86e217f71f5419d25e1031afee585313896444934eb04b903a685b1448b755d56f701afe9be2ce"),
            (1, 0, 64, "5456d364023d2cc081ae05ab99b56079e15755c0ba2aa9e0718dd48c4f1dec7b69ed517608e0b4cb9eb010d30e512d0352994d68dcbab8604ec01bb2cf93382c"),
            (127, 0, 64, "1cda48d6704c47c031aca68762552249fcfecdf3613cd4597018b06a10482762e8f8f36010877e3d915ba5c56547b8eee2d122793ca647165deeb434730bf0b9"),
            (128, 0, 64, "555acdf352265765c76337d857166f07217aa0295629ca6dce4b5d64786d98c0561ea5ee622acc0ada377dd5cbe0db99cabcbb2eb966c4127924b256a090be5f"),
            (129, 0, 64, "1d2c2a1b65802a903f48909cc81768b8d78545b2cb71fa6427a5a62c1164e5dcf26f2050ac2592a7d3950664d2b4f13730cf60cf09576828d38bdf8fef88e820"),
            (256, 0, 32, "0aeaa477807a6d6c0c1aae6ef933b35f3984b1f464db7d1e07c6bf21df749608"),
            (1000, 0, 64, "0ca1af2803fafc5d8d06f634a284ce531c3f666c6d43be7dad76dbd1d80a6c031e395782ca6882303578531378948e78d45edbfc39ddb99d21b3b763bc29ac82"),
            (300, 64, 64, "0ebeea93037874b7f1f754b436e36a5582c91762b568844ce454c1bdade9232e708c6a1ef71ea621bf750796e65a66cb269780e5fdeba93cf6d29cd21f2333a2"),
            (0, 17, 20, "d0e435bdb570532fee5a41297d2d21eb718604c6"),
        ];
        for (len, key_len, out_len, want) in cases {
            let key: Vec<u8> = (0..key_len).map(|i| (i as u8) ^ 0x5a).collect();
            assert_eq!(hex(&blake2b(&pattern(len), &key, out_len)), want, "len {} key {}", len, key_len);
        }
    }

    /// the fixed inputs of the EIP-152 test vectors 4-7: h = parameter-xored IV
    /// for an unkeyed 64-byte digest, m = "abc", t = (3, 0)
    fn eip152_inputs() -> ([u64; 8], [u64; 16]) {
        let mut h = BLAKE2B_IV;
        h[0] ^= 0x01010040;
        let mut m = [0u64; 16];
        m[0] = 0x636261;
        (h, m)
    }

    fn out_hex(h: [u64; 8]) -> String {
        hex(&h.iter().flat_map(|w| w.to_le_bytes()).collect::<Vec<u8>>())
    }

    #[test]
    fn eip152_vectors() {
        let (h, m) = eip152_inputs();
        // vector 5: 12 rounds, final -> BLAKE2b-512("abc")
        assert_eq!(
            out_hex(blake2f(12, h, m, [3, 0], true)),
            "ba80a53f981c4d0d6a2797b69f12f6e94c212f14685ac4b74b12bb6fdbffa2d1\
             7d87c5392aab792dc252d5de4533cc9518d38aa8dbf1925ab92386edd4009923"
        );
        // vector 4: 0 rounds
        assert_eq!(
            out_hex(blake2f(0, h, m, [3, 0], true)),
            "08c9bcf367e6096a3ba7ca8485ae67bb2bf894fe72f36e3cf1361d5f3af54fa5\
             d282e6ad7f520e511f6c3e2b8c68059b9442be0454267ce079217e1319cde05b"
        );
        // vector 6: 12 rounds, not final
        assert_eq!(
            out_hex(blake2f(12, h, m, [3, 0], false)),
            "75ab69d3190a562c51aef8d88f1c2775876944407270c42c9844252c26d28752\
             98743e7f6d5ea2f2d3e8d226039cd31b4e426ac4f2d3d666a610c2116fde4735"
        );
        // vector 7: 1 round
        assert_eq!(
            out_hex(blake2f(1, h, m, [3, 0], true)),
            "b63a380cb2897d521994a85234ee2c181b5f844d2c624c002677e9703449d2fb\
             a551b3a8333bcdf5f2f7e08993d53923de3d64fcc68c034e717b9293fed7a421"
        );
    }

    /// With zero rounds F degenerates to h[i] ^ v[i] ^ v[i+8] = IV[i] with the
    /// counter / final-flag xors applied, independent of h and m.
    #[test]
    fn zero_rounds_by_hand() {
        let h = [1, 2, 3, 4, 5, 6, 7, 8];
        let m = [9u64; 16];
        let out = blake2f(0, h, m, [0x1111, 0x2222], true);
        let mut want = BLAKE2B_IV;
        want[4] ^= 0x1111;
        want[5] ^= 0x2222;
        want[6] = !want[6];
        assert_eq!(out, want);
        assert_eq!(blake2f(0, h, m, [0, 0], false), BLAKE2B_IV);
    }

    /// More than ten rounds (round i uses SIGMA[i % 10]) with arbitrary h, m, a
    /// counter using both words, and last = false. The expected value comes from
    /// a separate python transcription of RFC 7693 F, which was itself checked
    /// against hashlib.blake2b (12 rounds) and reproduces EIP-152 vectors 4-7.
    #[test]
    fn twenty_five_rounds_against_python_model() {
        let mut h = [0u64; 8];
        for i in 0..8 {
            h[i] = 0x0123456789abcdefu64.wrapping_mul(i as u64 + 1);
        }
        let mut m = [0u64; 16];
        for i in 0..16 {
            m[i] = 0xfedcba9876543211u64.wrapping_mul(i as u64 + 3);
        }
        let out = blake2f(25, h, m, [0xffffffffffffffff, 0x8000000000000001], false);
        let want = [
            0x9688598318385217,
            0x30ed813968f7a8db,
            0x6d4fe24d1c8da3d3,
            0xd007aec28ecfb296,
            0x043c84ff3b1c5c78,
            0xdaa5833a7fc5d065,
            0x332bf041c15d3eb0,
            0x2e7e432d2177a595,
        ];
        assert_eq!(out, want);
        // and every round count gives a different result
        let (h, m) = eip152_inputs();
        let mut seen = std::collections::HashSet::new();
        for r in 0..40u32 {
            assert!(seen.insert(blake2f(r, h, m, [3, 0], true)));
        }
    }
}
