//! vcheck: runs the check of one property (default revm feature set).

use vcore::Ctx;
use vmain::*;

fn main() {
    let args: Vec<String> = std::env::args().skip(1).collect();
    let Some(id) = args.first().cloned() else {
        eprintln!("usage: vcheck <Cxx> [quick|thorough] [--seed N] [--replay file]");
        std::process::exit(2);
    };
    vcore::install_panic_hook();
    let mut ctx = Ctx::from_args(&id, &args[1..]);
    // watchdog: a hang is inconclusive (exit 2), never a violation
    let budget = match ctx.tier {
        vcore::Tier::Quick => 30 * 60,
        vcore::Tier::Thorough => 8 * 3600,
    };
    std::thread::spawn(move || {
        std::thread::sleep(std::time::Duration::from_secs(budget));
        eprintln!("watchdog: time budget of {budget}s exhausted — inconclusive");
        std::process::exit(2);
    });
    // fixed-work quick tiers: scale factors measured so that each quick check runs ~15-40 s on 16 cores
    vcore::set_quick_scale(match id.as_str() {
        "C01" => 25,
        "C02" => 4,
        "C03" | "C06" | "C16" | "C17" | "C21" | "C22" => 20,
        "C04" | "C13" | "C27" => 30,
        "C07" => 4,
        "C08" | "C09" | "C10" | "C11" | "C25" => 5,
        "C12" => 3,
        "C14" | "C32" => 50,
        "C15" | "C18" | "C19" => 15,
        "C20" | "C30" => 6,
        "C28" | "C26" => 2,
        "C29" | "C34" => 8,
        "C31" => 10,
        _ => 1,
    });
    match id.as_str() {
        "C01" => {
            golden::golden_part(&mut ctx);
            txcheck::c01(&mut ctx);
        }
        "C02" => histcheck::c02(&mut ctx),
        "C03" => ops::c03(&mut ctx),
        "C04" => ops::c04(&mut ctx),
        "C05" => {
            ops::c05_opcodes(&mut ctx);
            histcheck::c05_precompiles(&mut ctx);
        }
        "C06" => journalcheck::c06(&mut ctx),
        "C07" => monchecks::c07(&mut ctx),
        "C08" => monchecks::c08(&mut ctx),
        "C09" => monchecks::c09(&mut ctx),
        "C10" => monchecks::c10(&mut ctx),
        "C11" => {
            structs::c11a(&mut ctx);
            monchecks::c11b(&mut ctx);
        }
        "C12" => structs::c12(&mut ctx),
        "C13" => pure::c13(&mut ctx),
        "C14" => pure::c14(&mut ctx),
        "C15" => statecheck::c15(&mut ctx),
        "C16" => statecheck::c16(&mut ctx),
        "C17" => statecheck::c17(&mut ctx),
        "C18" => statecheck::c18(&mut ctx),
        "C19" => statecheck::c19(&mut ctx),
        "C20" => dbcheck::c20(&mut ctx),
        "C21" => histcheck::c21(&mut ctx),
        "C22" => histcheck::c22(&mut ctx),
        "C23" => precomp::c23(&mut ctx),
        "C24-gen" => {
            let path = args.iter().position(|a| a == "--cases").and_then(|i| args.get(i + 1)).cloned().unwrap_or_else(|| "/verif/harness/target/c24-cases.jsonl".into());
            precomp::c24_gen(&ctx, &path);
            std::process::exit(0);
        }
        "C25" => monchecks::c25(&mut ctx),
        "C26" => eofcheck::c26(&mut ctx),
        "C27" => pure::c27(&mut ctx),
        "C28" => monchecks::c28(&mut ctx),
        "C29" => monchecks::c29(&mut ctx),
        "C30" => monchecks::c30(&mut ctx),
        "C31" => histcheck::c31(&mut ctx),
        "C32" => pure::c32(&mut ctx),
        "C34" => histcheck::c34(&mut ctx),
        _ => {
            eprintln!("unknown property {id}");
            std::process::exit(2);
        }
    }
    std::process::exit(ctx.finish());
}
