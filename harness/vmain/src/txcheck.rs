//! Transaction-level checks on generated worlds: C01 (differential vs the reference EVM),
//! C08 (ether conservation), C09 (gas/fee rules), C02 (validity).
use crate::common::{big, era, Era};
use crate::evmrun::*;
use num_bigint::BigUint;
use refevm as r;
use revm::inspector_handle_register;
use revm::interpreter::Interpreter;
use revm::primitives::{ResultAndState, SpecId};
use revm::{Database, Evm, EvmContext, Inspector};
use vcore::{ensure, fail, CaseResult, Ctx, Failure, Outcome};
use vgen::world::{world_case, WorldCase, WorldCfg};

pub struct Stats {
    pub steps: u64,
    pub max_depth: usize,
    pub ops: [u32; 256],
}
impl Default for Stats {
    fn default() -> Self {
        Stats { steps: 0, max_depth: 0, ops: [0; 256] }
    }
}

impl r::Tracer for Stats {
    fn step(&mut self, depth: usize, _pc: usize, op: u8, _gas: u64, _stack: &[r::U256], _mem: usize) {
        self.steps += 1;
        self.max_depth = self.max_depth.max(depth);
        self.ops[op as usize] += 1;
    }
}

#[derive(Default)]
pub struct RefTrace(pub Vec<(usize, usize, u8, u64)>);
impl r::Tracer for RefTrace {
    fn step(&mut self, depth: usize, pc: usize, op: u8, gas: u64, _stack: &[r::U256], _mem: usize) {
        if self.0.len() < 200_000 {
            self.0.push((depth, pc, op, gas));
        }
    }
}

#[derive(Default)]
pub struct RevmTrace(pub Vec<(usize, usize, u8, u64)>);
impl<DB: Database> Inspector<DB> for RevmTrace {
    fn step(&mut self, interp: &mut Interpreter, ctx: &mut EvmContext<DB>) {
        if self.0.len() < 200_000 {
            self.0.push((ctx.journaled_state.depth() as usize, interp.program_counter(), interp.current_opcode(), interp.gas.remaining()));
        }
    }
}

/// First point where the two instruction traces differ (for triage messages).
pub fn trace_divergence(spec: SpecId, fork: r::Fork, world: &r::World, b: &r::Block, t: &r::Tx) -> String {
    let mut rt = RefTrace::default();
    let _ = r::execute(fork, b, world, t, &RevmPrecompiles, &mut rt);
    let db = ModelDB::new(world.clone());
    let mut evm = Evm::builder().with_db(db).with_spec_id(spec).with_env(Box::new(make_env(spec, b, t))).with_external_context(RevmTrace::default()).append_handler_register(inspector_handle_register).build();
    let _ = evm.transact();
    let vt = &evm.context.external.0;
    let base = vt.first().map(|x| x.0).unwrap_or(0);
    for (i, (a, b_)) in rt.0.iter().zip(vt.iter()).enumerate() {
        let bn = (b_.0 - base, b_.1, b_.2, b_.3);
        if *a != bn {
            let prev = if i > 0 { format!("{:?}", rt.0[i - 1]) } else { "-".into() };
            return format!("traces diverge at step {i}: reference (depth,pc,op,gas)={:?} revm={:?}; previous step {prev}", a, bn);
        }
    }
    if rt.0.len() != vt.len() {
        let n = rt.0.len().min(vt.len());
        return format!("traces agree for {n} steps, then lengths differ: reference {} revm {}; last common {:?}; next ref {:?} next revm {:?}", rt.0.len(), vt.len(), rt.0.get(n.wrapping_sub(1)), rt.0.get(n), vt.get(n));
    }
    format!("instruction traces identical ({} steps)", rt.0.len())
}

pub struct Evaluated {
    pub spec: SpecId,
    pub fork: Option<r::Fork>,
    pub pre: r::World,
    pub block: r::Block,
    pub tx: r::Tx,
    pub revm: Result<ResultAndState, String>,
    pub revm_post: Option<r::World>,
    pub reference: Option<r::TxOutcome>,
    pub stats: Stats,
}

pub fn evaluate(case: &WorldCase) -> Evaluated {
    let spec = spec_id(case.spec);
    let fork = case.fork();
    let (pre, block, tx) = case.build();
    let revm = run_plain(spec, &pre, &block, &tx);
    let revm_post = revm.as_ref().ok().map(|rs| {
        let mut w = pre.clone();
        apply_state(&mut w, &rs.state, state_clear(spec));
        w
    });
    let mut stats = Stats::default();
    let reference = fork.map(|f| r::execute(f, &block, &pre, &tx, &RevmPrecompiles, &mut stats));
    Evaluated { spec, fork, pre, block, tx, revm, revm_post, reference, stats }
}

/// Pre-states no reachable chain state can contain and for which the specification and revm's
/// documented assumptions differ (counted in the evidence as `excluded:*` labels).
pub fn out_of_domain(ev: &Evaluated) -> Option<&'static str> {
    // A signing authority that exists in the trie but is EIP-161-empty can only be a storage-only
    // account (EIP-7610's 28 hash-derived contract addresses): nobody holds a key for those.
    for a in &ev.tx.authorization_list {
        if let Some(auth) = a.authority {
            if let Some(acc) = ev.pre.get(&auth) {
                if acc.is_empty() {
                    return Some("excluded:authority-is-161-empty-account-in-trie");
                }
            }
        }
    }
    None
}

fn world_diff(a: &r::World, b: &r::World) -> String {
    let mut out = vec![];
    let keys: std::collections::BTreeSet<_> = a.keys().chain(b.keys()).collect();
    for k in keys {
        match (a.get(k), b.get(k)) {
            (Some(x), Some(y)) if x == y => {}
            (Some(x), Some(y)) => {
                let mut d = vec![];
                if x.balance != y.balance {
                    d.push(format!("balance {} vs {}", x.balance, y.balance));
                }
                if x.nonce != y.nonce {
                    d.push(format!("nonce {} vs {}", x.nonce, y.nonce));
                }
                if x.code != y.code {
                    d.push(format!("code {} vs {}", hex::encode(&x.code), hex::encode(&y.code)));
                }
                if x.storage != y.storage {
                    d.push(format!("storage {:?} vs {:?}", x.storage, y.storage));
                }
                out.push(format!("{}: {}", hex::encode(k), d.join(", ")));
            }
            (Some(_), None) => out.push(format!("{}: exists in revm post-state only", hex::encode(k))),
            (None, Some(_)) => out.push(format!("{}: exists in reference post-state only", hex::encode(k))),
            (None, None) => {}
        }
        if out.len() >= 4 {
            break;
        }
    }
    out.join(" | ")
}

pub fn labels_of(ev: &Evaluated, o: &mut Outcome) {
    o.labels.push(match ev.tx.tx_type {
        r::TxType::Legacy => "tx:legacy",
        r::TxType::Eip2930 => "tx:2930",
        r::TxType::Eip1559 => "tx:1559",
        r::TxType::Eip4844 => "tx:4844",
        r::TxType::Eip7702 => "tx:7702",
    });
    if ev.tx.to.is_none() {
        o.labels.push("tx:create");
    }
    let s = &ev.stats;
    let any = |ops: &[u8]| ops.iter().any(|o| s.ops[*o as usize] > 0);
    if any(&[0xf0]) {
        o.labels.push("CREATE");
    }
    if any(&[0xf5]) {
        o.labels.push("CREATE2");
    }
    if any(&[0xff]) {
        o.labels.push(if ev.fork.map(|f| f >= r::Fork::Cancun).unwrap_or(true) { "SELFDESTRUCT-cancun+" } else { "SELFDESTRUCT-pre-cancun" });
    }
    if any(&[0xf1, 0xf2, 0xf4, 0xfa]) {
        o.labels.push("nested-call");
    }
    if s.max_depth >= 3 {
        o.labels.push("depth>=3");
    }
    if any(&[0x55]) {
        o.labels.push("SSTORE");
    }
    if any(&[0xa0, 0xa1, 0xa2, 0xa3, 0xa4]) {
        o.labels.push("LOG");
    }
    if !ev.tx.access_list.is_empty() {
        o.labels.push("access-list");
    }
}

// ------------------------------------------------------------------------------------------
// C01
// ------------------------------------------------------------------------------------------

pub fn c01_case(case: &WorldCase) -> CaseResult {
    let ev = evaluate(case);
    let Some(fork) = ev.fork else { return Ok(Outcome::trivial()) };
    let reference = ev.reference.as_ref().unwrap();
    let mut o = Outcome::trivial();
    if total_supply(&ev.pre).bits() > 256 {
        // no specified behaviour when the total supply exceeds 2^256 (C08/C06 cover overflow paths)
        return Ok(o.label("excluded:supply>2^256"));
    }
    if let Some(l) = out_of_domain(&ev) {
        return Ok(o.label(l));
    }
    let rx = match reference {
        r::TxOutcome::Rejected(_) => {
            return Ok(o.label("rejected-by-reference"));
        }
        r::TxOutcome::Executed(x) => x,
    };
    let rs = match &ev.revm {
        Err(_) => return Ok(o.label("rejected-by-revm-only(see C02)")),
        Ok(rs) => rs,
    };
    let n = norm_result(&rs.result);
    let post = ev.revm_post.as_ref().unwrap();
    let ctx = |what: &str| -> String {
        let div = trace_divergence(ev.spec, fork, &ev.pre, &ev.block, &ev.tx);
        format!("{what} [spec {:?}, tx {:?} to {:?} gas {}] {div}", ev.spec, ev.tx.tx_type, ev.tx.to.map(hex::encode), ev.tx.gas_limit)
    };
    let mut fails: Vec<Failure> = vec![];
    if n.status != rx.status {
        fails.push(Failure::new("C01|status", ctx(&format!("outcome class: revm {:?} ({}) vs reference {:?}", n.status, n.halt_reason, rx.status))));
    }
    if n.gas_used != rx.gas_used {
        fails.push(Failure::new("C01|gas_used", ctx(&format!("gas_used: revm {} vs reference {}", n.gas_used, rx.gas_used))));
    }
    // `gas_refunded` is reporting only (not part of the specification's outputs); when the EIP-7623
    // floor is binding revm reports 0 because the refund no longer influences the charge.
    let floor_binding = rx.gas_used == r::floor_gas(fork, &ev.tx) && r::floor_gas(fork, &ev.tx) > 0;
    if n.status == r::Status::Success && n.gas_refunded != rx.gas_refunded && !floor_binding {
        fails.push(Failure::new("C01|gas_refunded", ctx(&format!("gas_refunded: revm {} vs reference {}", n.gas_refunded, rx.gas_refunded))));
    }
    if n.output != rx.output {
        fails.push(Failure::new("C01|output", ctx(&format!("output: revm {} vs reference {}", hex::encode(&n.output), hex::encode(&rx.output)))));
    }
    if n.logs != rx.logs {
        fails.push(Failure::new("C01|logs", ctx(&format!("logs: revm {:?} vs reference {:?}", n.logs, rx.logs))));
    }
    if n.status == r::Status::Success && n.created != rx.created {
        fails.push(Failure::new("C01|created-address", ctx(&format!("created: revm {:?} vs reference {:?}", n.created.map(hex::encode), rx.created.map(hex::encode)))));
    }
    if *post != rx.post {
        fails.push(Failure::new("C01|post-state", ctx(&format!("post-state differs: {}", world_diff(post, &rx.post)))));
    }
    if !fails.is_empty() {
        return Err(fails);
    }
    o.labels.push(match n.status {
        r::Status::Success => "success",
        r::Status::Revert => "revert",
        r::Status::Halt => "halt",
    });
    labels_of(&ev, &mut o);
    if n.status == r::Status::Halt {
        let h = &n.halt_reason;
        o.labels.push(if h.starts_with("OutOfGas") {
            "halt:OutOfGas"
        } else if h.starts_with("OpcodeNotFound") {
            "halt:OpcodeNotFound"
        } else if h.starts_with("InvalidFEOpcode") {
            "halt:InvalidFE"
        } else if h.starts_with("InvalidJump") {
            "halt:InvalidJump"
        } else if h.starts_with("NotActivated") {
            "halt:NotActivated"
        } else if h.starts_with("StackUnderflow") {
            "halt:StackUnderflow"
        } else if h.starts_with("StackOverflow") {
            "halt:StackOverflow"
        } else if h.starts_with("OutOfOffset") {
            "halt:OutOfOffset"
        } else {
            "halt:other"
        });
    }
    if n.gas_refunded > 0 {
        o.labels.push("refund>0");
    }
    // opcode coverage of the generator: one label per opcode executed in this case
    for (op, n) in ev.stats.ops.iter().enumerate() {
        if *n > 0 {
            o.labels.push(op_label(op as u8));
        }
    }
    // non-trivial: executed >= 1 instruction and (nested call/create or a state change beyond fees)
    let nested = ev.stats.ops[0xf1] + ev.stats.ops[0xf2] + ev.stats.ops[0xf4] + ev.stats.ops[0xfa] + ev.stats.ops[0xf0] + ev.stats.ops[0xf5] > 0;
    let storage_changed = ev.pre.iter().any(|(a, acc)| post.get(a).map(|p| p.storage != acc.storage || p.code != acc.code).unwrap_or(true)) || post.len() != ev.pre.len();
    o.nontrivial = ev.stats.steps >= 1 && (nested || storage_changed);
    Ok(o)
}

/// "op:0xNN" labels (leaked once: labels are &'static str).
pub fn op_label(op: u8) -> &'static str {
    static NAMES: std::sync::OnceLock<Vec<&'static str>> = std::sync::OnceLock::new();
    NAMES.get_or_init(|| (0..256).map(|i| &*Box::leak(format!("op:0x{i:02x}").into_boxed_str())).collect())[op as usize]
}

/// Every opcode defined for legacy code up to Prague (own list).
pub fn legacy_opcodes() -> Vec<u8> {
    let mut v: Vec<u8> = vec![];
    v.extend(0x00..=0x0b);
    v.extend(0x10..=0x1d);
    v.push(0x20);
    v.extend(0x30..=0x4a);
    v.extend(0x50..=0x5f);
    v.extend(0x60..=0xa4);
    v.extend([0xf0, 0xf1, 0xf2, 0xf3, 0xf4, 0xf5, 0xfa, 0xfd, 0xfe, 0xff]);
    v
}

pub fn c01(ctx: &mut Ctx) {
    let n = ctx.tier.pick(40_000, 3_000_000);
    let cfg = WorldCfg::default();
    ctx.run_cases(
        "differential",
        "world generator (all specs FRONTIER..PRAGUE incl. aliases, 1-4 generated contracts, all tx types, ~88% valid) executed by revm and by the independent reference EVM (refevm, validated on the shipped execution-spec vectors); compared: outcome class, gas_used, gas_refunded, output, logs, created address, full post-state; non-trivial = executed >=1 instruction and made a nested call/create or changed storage/code/account set; distinct by case hash",
        || world_case(&cfg),
        n,
        c01_case,
    );
    ctx.expect_labels(
        "differential",
        &["tx:legacy", "tx:2930", "tx:1559", "tx:4844", "tx:7702", "tx:create", "success", "revert", "halt", "CREATE", "CREATE2", "SELFDESTRUCT-cancun+", "SELFDESTRUCT-pre-cancun", "nested-call", "depth>=3", "access-list", "refund>0"],
    );
    let ops: Vec<&'static str> = legacy_opcodes().into_iter().map(op_label).collect();
    ctx.expect_labels("differential", &ops);
    ctx.assumptions.push("precompile bodies are shared with revm-precompile inside this check (they are checked on their own in C23/C24); OSAKA/EOF has no reference and is excluded by the property".into());
}

// ------------------------------------------------------------------------------------------
// shared helpers for C08/C09
// ------------------------------------------------------------------------------------------

pub fn bu(v: r::U256) -> BigUint {
    big(ru(v))
}

pub fn is_london(spec: SpecId) -> bool {
    era(spec) >= Era::London
}

#[allow(dead_code)]
pub fn unused() {
    let _ = fail::<()>("", "");
    let _: CaseResult = Ok(Outcome::trivial());
    fn _e() -> CaseResult {
        ensure!(true, "", "");
        Ok(Outcome::trivial())
    }
}
