//! Library side of vcheck: every check module is public so that the fuzz targets (harness/fuzz) can
//! drive the same generators and oracles from libFuzzer byte streams.
pub mod common;
pub mod dbcheck;
pub mod eofcheck;
pub mod evmrun;
pub mod histcheck;
pub mod journalcheck;
pub mod monchecks;
pub mod monitors;
pub mod ops;
pub mod precomp;
pub mod pure;
pub mod statecheck;
pub mod structs;
pub mod txcheck;
pub mod fuzzing;
pub mod golden;
