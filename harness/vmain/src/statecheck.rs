//! C15-C19: block-state database, bundle changesets, reverts, split/join, preloaded bundles.
use crate::evmrun::*;
use crate::histcheck::{first_diff, reads};
use refevm as r;
use revm::db::states::bundle_state::BundleRetention;
use revm::db::states::changes::{PlainStateReverts, StateChangeset};
use revm::db::{BundleState, CacheDB, DatabaseCommit, OriginalValuesKnown, RevertToSlot, State};
use revm::primitives::{Address, Env, SpecId, KECCAK_EMPTY, U256};
use revm::Evm;
use serde::{Deserialize, Serialize};
use std::collections::BTreeMap;
use vcore::proptest::prelude::*;
use vcore::{ensure, CaseResult, Ctx, Failure, Outcome};
use vgen::pool;
use vgen::world::{self, world_case, TxSpec, WorldCase, WorldCfg};

#[derive(Clone, Debug, Hash, Serialize, Deserialize)]
pub enum HStep {
    Tx(TxSpec),
    Merge,
    Increment(Vec<(u8, u32)>),
    Drain(Vec<u8>),
}

#[derive(Clone, Debug, Hash, Serialize, Deserialize)]
pub struct HistCase {
    pub world: WorldCase,
    pub steps: Vec<HStep>,
    pub bundle: bool,
    pub split: u8,
    pub take_m: u8,
    pub revert_j: u8,
    /// second history (C19)
    pub steps2: Vec<HStep>,
}

/// Pre-state of a history: no storage-only accounts (documented precondition of the block-state
/// database: an account without code and nonce is "fully in memory").
pub fn hist_pre(case: &WorldCase) -> (r::World, r::Block, r::Tx) {
    let (mut pre, block, tx) = case.build();
    for a in pre.values_mut() {
        if a.code.is_empty() && a.nonce == 0 {
            a.storage.clear();
        }
    }
    (pre, block, tx)
}

pub struct HistOut {
    pub results: Vec<String>,
    /// reference world at history start and after every merge
    pub snaps: Vec<r::World>,
    pub final_world: r::World,
    pub state: State<ModelDB>,
    pub statuses_seen: BTreeMap<Address, std::collections::BTreeSet<String>>,
    pub labels: std::collections::BTreeSet<&'static str>,
    /// bundles taken at `take_at` points (merged right before)
    pub taken: Vec<BundleState>,
    pub read_mismatch: Option<String>,
}

fn base_env(spec: SpecId, block: &r::Block) -> Env {
    let mut env = Env::default();
    env.cfg.chain_id = block.chain_id;
    env.block = block_env(spec, block);
    env
}

/// Runs a history on `state`, maintaining the reference world by the independent apply rule.
pub fn run_history(spec: SpecId, fork: r::Fork, block: &r::Block, start: &r::World, state: State<ModelDB>, steps: &[HStep], take_at: &[usize], check_reads: bool) -> HistOut {
    let mut w = start.clone();
    let mut snaps = vec![w.clone()];
    let mut results = vec![];
    let mut labels = std::collections::BTreeSet::new();
    let mut statuses_seen: BTreeMap<Address, std::collections::BTreeSet<String>> = BTreeMap::new();
    let mut taken = vec![];
    let mut read_mismatch = None;
    let mut evm = Evm::builder().with_db(state).with_spec_id(spec).with_env(Box::new(base_env(spec, block))).build();
    for (i, st) in steps.iter().enumerate() {
        match st {
            HStep::Tx(t) => {
                let tx = t.build(fork, block, &w);
                *evm.tx_mut() = tx_env(&tx);
                match evm.transact() {
                    Ok(rs) => {
                        results.push(format!("{:?}", rs.result));
                        apply_state(&mut w, &rs.state, state_clear(spec));
                        if rs.state.values().any(|a| a.is_selfdestructed()) {
                            labels.insert("selfdestruct");
                        }
                        if rs.state.values().any(|a| a.is_created()) {
                            labels.insert("create");
                        }
                        evm.db_mut().commit(rs.state);
                    }
                    Err(e) => results.push(format!("Err({e:?})")),
                }
            }
            HStep::Merge => {
                evm.db_mut().merge_transitions(BundleRetention::Reverts);
                snaps.push(w.clone());
            }
            HStep::Increment(list) => {
                let items: Vec<(Address, u128)> = list.iter().map(|(a, v)| (ra(&pool::addr(*a % 16)), *v as u128)).collect();
                for (a, v) in &items {
                    if *v > 0 {
                        let e = w.entry(pa(a)).or_default();
                        e.balance = e.balance.saturating_add(r::U256::from(*v));
                    }
                }
                evm.db_mut().increment_balances(items).unwrap();
                labels.insert("increment");
            }
            HStep::Drain(list) => {
                // only existing accounts that stay non-empty (nonce or code) and fit u128
                let addrs: Vec<Address> = list
                    .iter()
                    .map(|a| pool::addr(*a % 16))
                    .filter(|a| w.get(a).map(|x| (x.nonce > 0 || !x.code.is_empty()) && x.balance.bits() <= 127).unwrap_or(false))
                    .map(|a| ra(&a))
                    .collect();
                let mut dedup = addrs.clone();
                dedup.sort();
                dedup.dedup();
                let want: Vec<u128> = dedup.iter().map(|a| w[&pa(a)].balance.low_u128()).collect();
                for a in &dedup {
                    w.get_mut(&pa(a)).unwrap().balance = r::U256::zero();
                }
                let got = evm.db_mut().drain_balances(dedup.clone()).unwrap();
                if got != want && read_mismatch.is_none() {
                    read_mismatch = Some(format!("step {i}: drain_balances returned {got:?}, reference balances {want:?}"));
                }
                if !dedup.is_empty() {
                    labels.insert("drain");
                }
            }
        }
        for (a, acc) in evm.db().cache.accounts.iter() {
            statuses_seen.entry(*a).or_default().insert(format!("{:?}", acc.status));
        }
        if check_reads && read_mismatch.is_none() {
            let got = reads(evm.db_mut());
            let want = reads(&mut ModelDB::new(w.clone()));
            if got != want {
                read_mismatch = Some(format!("after step {i} ({}): {}", step_name(st), first_diff(&got, &want)));
            }
        }
        if take_at.contains(&i) {
            evm.db_mut().merge_transitions(BundleRetention::Reverts);
            snaps.push(w.clone());
            taken.push(evm.db_mut().take_bundle());
        }
    }
    let (state, _) = evm.into_db_and_env_with_handler_cfg();
    HistOut { results, snaps, final_world: w, state, statuses_seen, labels, taken, read_mismatch }
}

fn step_name(s: &HStep) -> &'static str {
    match s {
        HStep::Tx(_) => "transaction",
        HStep::Merge => "merge",
        HStep::Increment(_) => "increment_balances",
        HStep::Drain(_) => "drain_balances",
    }
}

fn new_state(world: &r::World, spec: SpecId, bundle: bool) -> State<ModelDB> {
    let b = State::builder().with_database(ModelDB::new(world.clone()));
    let mut s = if bundle { b.with_bundle_update().build() } else { b.build() };
    s.set_state_clear_flag(state_clear(spec));
    s
}

/// Own applier of a plain-state changeset.
pub fn apply_changeset(world: &mut r::World, cs: &StateChangeset, base_codes: &r::World) {
    let mut codes: BTreeMap<[u8; 32], Vec<u8>> = BTreeMap::new();
    for a in base_codes.values().chain(world.values()) {
        if !a.code.is_empty() {
            codes.insert(r::keccak256(&a.code), a.code.clone());
        }
    }
    for (h, c) in &cs.contracts {
        codes.insert(h.0, c.original_bytes().to_vec());
    }
    // storage wipes first (they describe the old incarnation), then accounts, then slots
    for st in &cs.storage {
        if st.wipe_storage {
            if let Some(a) = world.get_mut(&pa(&st.address)) {
                a.storage.clear();
            }
        }
    }
    for (addr, info) in &cs.accounts {
        match info {
            None => {
                world.remove(&pa(addr));
            }
            Some(info) => {
                let e = world.entry(pa(addr)).or_default();
                e.balance = pu(info.balance);
                e.nonce = info.nonce;
                e.code = if info.code_hash == KECCAK_EMPTY { vec![] } else { codes.get(&info.code_hash.0).cloned().unwrap_or_else(|| vec![0xde, 0xad]) };
            }
        }
    }
    for st in &cs.storage {
        if let Some(a) = world.get_mut(&pa(&st.address)) {
            for (k, v) in &st.storage {
                if v.is_zero() {
                    a.storage.remove(&pu(*k));
                } else {
                    a.storage.insert(pu(*k), pu(*v));
                }
            }
        }
    }
}

fn worlds_equal(tag: &str, a: &r::World, b: &r::World) -> Result<(), String> {
    if a == b {
        return Ok(());
    }
    for k in a.keys().chain(b.keys()) {
        if a.get(k) != b.get(k) {
            return Err(format!("{tag}: account {} is {:?} but the reference has {:?}", hex::encode(k), a.get(k).map(short_acc), b.get(k).map(short_acc)));
        }
    }
    Err(format!("{tag}: worlds differ"))
}

fn short_acc(a: &r::Account) -> String {
    format!("bal {} nonce {} code {}B storage {:?}", a.balance, a.nonce, a.code.len(), a.storage)
}

fn final_merge(steps: &[HStep]) -> Vec<HStep> {
    let mut s = steps.to_vec();
    s.push(HStep::Merge);
    s
}

// ------------------------------------------------------------------------------------------
// C15
// ------------------------------------------------------------------------------------------

pub fn c15_case(c: &HistCase) -> CaseResult {
    let spec = spec_id(c.world.spec);
    let Some(fork) = c.world.fork() else { return Ok(Outcome::trivial()) };
    let (pre, block, _) = hist_pre(&c.world);
    let steps = final_merge(&c.steps);
    let out = run_history(spec, fork, &block, &pre, new_state(&pre, spec, c.bundle), &steps, &[], true);
    if let Some(m) = out.read_mismatch {
        return Err(vec![Failure::new("C15|state-read-differs-from-reference", m)]);
    }
    // the in-memory cache database gives identical results for the transactions
    let mut cache = CacheDB::new(ModelDB::new(pre.clone()));
    let mut w = pre.clone();
    let mut results = vec![];
    {
        let mut evm = Evm::builder().with_db(&mut cache).with_spec_id(spec).with_env(Box::new(base_env(spec, &block))).build();
        for st in &steps {
            match st {
                HStep::Tx(t) => {
                    let tx = t.build(fork, &block, &w);
                    *evm.tx_mut() = tx_env(&tx);
                    match evm.transact() {
                        Ok(rs) => {
                            results.push(format!("{:?}", rs.result));
                            apply_state(&mut w, &rs.state, state_clear(spec));
                            evm.db_mut().commit(rs.state);
                        }
                        Err(e) => results.push(format!("Err({e:?})")),
                    }
                }
                HStep::Increment(list) => {
                    // CacheDB has no such API: apply through plain account insertion
                    for (a, v) in list {
                        if *v > 0 {
                            let addr = pool::addr(*a % 16);
                            let e = w.entry(addr).or_default();
                            e.balance = e.balance.saturating_add(r::U256::from(*v));
                            let info = ModelDB::new(w.clone()).info_of(&w[&addr]);
                            let mut ch = revm::primitives::HashMap::default();
                            ch.insert(ra(&addr), revm::primitives::Account { info, storage: Default::default(), status: revm::primitives::AccountStatus::Touched });
                            evm.db_mut().commit(ch);
                        }
                    }
                }
                HStep::Drain(list) => {
                    let mut addrs: Vec<r::Address> = list.iter().map(|a| pool::addr(*a % 16)).filter(|a| w.get(a).map(|x| (x.nonce > 0 || !x.code.is_empty()) && x.balance.bits() <= 127).unwrap_or(false)).collect();
                    addrs.sort();
                    addrs.dedup();
                    for addr in addrs {
                        w.get_mut(&addr).unwrap().balance = r::U256::zero();
                        let info = ModelDB::new(w.clone()).info_of(&w[&addr]);
                        let mut ch = revm::primitives::HashMap::default();
                        ch.insert(ra(&addr), revm::primitives::Account { info, storage: Default::default(), status: revm::primitives::AccountStatus::Touched });
                        evm.db_mut().commit(ch);
                    }
                }
                HStep::Merge => {}
            }
        }
    }
    for (i, (a, b)) in out.results.iter().zip(results.iter()).enumerate() {
        ensure!(a == b, "C15|State-vs-CacheDB-result", "transaction {i}: over State {a}; over CacheDB {b}");
    }
    // CacheDB keeps a touched-empty account as an existing empty account instead of deleting it;
    // once state clearing is active "empty" and "absent" are the same state for every consumer
    let collapse = |v: Vec<String>| -> Vec<String> {
        if !state_clear(spec) {
            return v;
        }
        v.into_iter()
            .map(|l| {
                let empty = l.contains(": bal 0 nonce 0 codehash 0xc5d2460186f7233c927e7db2dcc703c0e500b653ca82273b7bfad8045d85a470 code ") && !l.contains('[');
                if empty {
                    format!("{}: none", l.split(':').next().unwrap_or(""))
                } else {
                    l
                }
            })
            .collect()
    };
    let (ra_, rb) = (collapse(reads(&mut cache)), collapse(reads(&mut ModelDB::new(out.final_world.clone()))));
    ensure!(ra_ == rb, "C15|cachedb-read-differs-from-reference", "CacheDB final reads: {}", first_diff(&ra_, &rb));
    let rich = out.statuses_seen.values().any(|s| s.len() >= 3);
    let mut o = Outcome::new(rich);
    for l in out.labels {
        o.labels.push(l);
    }
    let all: std::collections::BTreeSet<&String> = out.statuses_seen.values().flatten().collect();
    for (name, label) in [
        ("LoadedNotExisting", "status:LoadedNotExisting"),
        ("Loaded", "status:Loaded"),
        ("LoadedEmptyEIP161", "status:LoadedEmptyEIP161"),
        ("InMemoryChange", "status:InMemoryChange"),
        ("Changed", "status:Changed"),
        ("Destroyed", "status:Destroyed"),
        ("DestroyedChanged", "status:DestroyedChanged"),
        ("DestroyedAgain", "status:DestroyedAgain"),
    ] {
        if all.iter().any(|s| s.as_str() == name) {
            o.labels.push(label);
        }
    }
    Ok(o)
}

// ------------------------------------------------------------------------------------------
// C16 / C17
// ------------------------------------------------------------------------------------------

fn info_of(w: &r::World, a: &r::Address) -> Option<(r::U256, u64, [u8; 32])> {
    w.get(a).map(|x| (x.balance, x.nonce, if x.code.is_empty() { KECCAK_EMPTY.0 } else { r::keccak256(&x.code) }))
}

/// C17's reader: checks that group `g` of `reverts` describes exactly `before` given `after` and the pre-bundle world.
fn check_reverts(tag: &str, reverts: &PlainStateReverts, g: usize, before: &r::World, after: &r::World, base: &r::World) -> Result<(), Failure> {
    let accs: BTreeMap<Address, Option<(r::U256, u64, [u8; 32])>> = reverts.accounts[g].iter().map(|(a, i)| (*a, i.as_ref().map(|i| (pu(i.balance), i.nonce, i.code_hash.0)))).collect();
    let sts: BTreeMap<Address, (bool, BTreeMap<U256, RevertToSlot>)> = reverts.storage[g].iter().map(|s| (s.address, (s.wiped, s.storage_revert.iter().cloned().collect()))).collect();
    for i in 0..63u8 {
        let a = pool::addr(i);
        let ra_ = ra(&a);
        let (ib, ia) = (info_of(before, &a), info_of(after, &a));
        match accs.get(&ra_) {
            Some(listed) => {
                if *listed != ib {
                    return Err(Failure::new(format!("C17|{tag}|account-pre-value"), format!("group {g}: revert lists {:?} for account {} but its info before the group was {:?}", listed, hex::encode(a), ib)));
                }
            }
            None => {
                if ib != ia {
                    return Err(Failure::new(format!("C17|{tag}|changed-account-not-listed"), format!("group {g}: account {} changed ({:?} -> {:?}) but has no revert entry", hex::encode(a), ib, ia)));
                }
            }
        }
        for k in 0..7u8 {
            let key = pool::key(k);
            let vb = before.get(&a).and_then(|x| x.storage.get(&key)).copied().unwrap_or_default();
            let va = after.get(&a).and_then(|x| x.storage.get(&key)).copied().unwrap_or_default();
            let v0 = base.get(&a).and_then(|x| x.storage.get(&key)).copied().unwrap_or_default();
            let read = match sts.get(&ra_) {
                Some((wiped, slots)) => match slots.get(&ru(key)) {
                    Some(RevertToSlot::Some(v)) => pu(*v),
                    Some(RevertToSlot::Destroyed) => r::U256::zero(),
                    None => {
                        if *wiped {
                            v0
                        } else {
                            va
                        }
                    }
                },
                None => va,
            };
            if read != vb {
                return Err(Failure::new(
                    format!("C17|{tag}|storage-pre-value"),
                    format!("group {g}: slot {k} of {}: the reverts read as {read} but the value before the group was {vb} (after {va}, pre-bundle {v0}; entry {:?})", hex::encode(a), sts.get(&ra_).map(|(w, s)| (*w, s.get(&ru(key)).cloned()))),
                ));
            }
        }
    }
    Ok(())
}

pub fn c16_17_case(c: &HistCase) -> CaseResult {
    let spec = spec_id(c.world.spec);
    let Some(fork) = c.world.fork() else { return Ok(Outcome::trivial()) };
    let (pre, block, _) = hist_pre(&c.world);
    let steps = final_merge(&c.steps);
    let out = run_history(spec, fork, &block, &pre, new_state(&pre, spec, true), &steps, &[], false);
    let mut state = out.state;
    let bundle = state.take_bundle();
    let mut fails = vec![];
    // C16
    for (known, name) in [(OriginalValuesKnown::Yes, "known"), (OriginalValuesKnown::No, "not-known")] {
        let cs = bundle.to_plain_state(known);
        let mut w = pre.clone();
        apply_changeset(&mut w, &cs, &out.final_world);
        if let Err(m) = worlds_equal("changeset applied to the pre-state", &w, &out.final_world) {
            fails.push(Failure::new(format!("C16|changeset|{name}"), m));
        }
    }
    // C17: per-group pre-values
    let n = out.snaps.len() - 1;
    let reverts = bundle.reverts.to_plain_state_reverts();
    if reverts.accounts.len() != n {
        fails.push(Failure::new("C17|group-count", format!("{} revert groups for {n} merges", reverts.accounts.len())));
    } else {
        for g in 0..n {
            if let Err(f) = check_reverts("reverts", &reverts, g, &out.snaps[g], &out.snaps[g + 1], &pre) {
                fails.push(f);
                break;
            }
        }
        // revert(j)
        let j = (c.revert_j as usize) % (n + 1);
        let mut b = bundle.clone();
        b.revert(j);
        let cs = b.to_plain_state(OriginalValuesKnown::No);
        let mut w = pre.clone();
        apply_changeset(&mut w, &cs, &out.final_world);
        if let Err(m) = worlds_equal(&format!("bundle.revert({j}) applied to the pre-state"), &w, &out.snaps[n - j]) {
            fails.push(Failure::new("C17|revert(j)", m));
        }
    }
    if !fails.is_empty() {
        return Err(fails);
    }
    let wiped = bundle.state.values().any(|a| a.was_destroyed());
    let back_to_original = bundle.state.values().any(|a| a.storage.values().any(|s| s.previous_or_original_value == s.present_value));
    let mut o = Outcome::new(wiped || back_to_original).label_if(wiped, "wiped-account").label_if(back_to_original, "slot-back-to-original");
    for l in out.labels {
        o.labels.push(l);
    }
    Ok(o)
}

// ------------------------------------------------------------------------------------------
// C18
// ------------------------------------------------------------------------------------------

pub fn c18_case(c: &HistCase) -> CaseResult {
    let spec = spec_id(c.world.spec);
    let Some(fork) = c.world.fork() else { return Ok(Outcome::trivial()) };
    let (pre, block, _) = hist_pre(&c.world);
    let steps = final_merge(&c.steps);
    if steps.len() < 2 {
        return Ok(Outcome::trivial());
    }
    let split = (c.split as usize) % (steps.len() - 1);
    // monolithic bundle, with a merge at the split point too so that groups line up
    let mut mono_steps = steps.clone();
    mono_steps.insert(split + 1, HStep::Merge);
    let mono = run_history(spec, fork, &block, &pre, new_state(&pre, spec, true), &mono_steps, &[], false);
    let mut mono_state = mono.state;
    let b = mono_state.take_bundle();
    // split run: take the bundle after `split`
    let sp = run_history(spec, fork, &block, &pre, new_state(&pre, spec, true), &steps, &[split], false);
    let mut sp_state = sp.state;
    let b2_cont = sp_state.take_bundle();
    let b1 = sp.taken[0].clone();
    let mut fails = vec![];
    if sp.snaps != mono.snaps {
        return Ok(Outcome::trivial().label("harness:snapshots-differ"));
    }
    // second half produced by a fresh State over the state after block i (the cache of the
    // block-state database then matches the span of the bundle it produces)
    let n_first = steps[..=split].iter().filter(|s| matches!(s, HStep::Merge)).count() + 1;
    let world_i = mono.snaps[n_first].clone();
    let second = run_history(spec, fork, &block, &world_i, new_state(&world_i, spec, true), &steps[split + 1..], &[], false);
    let mut second_state = second.state;
    let b2 = second_state.take_bundle();
    let n = mono.snaps.len() - 1;
    let mut joined = b1.clone();
    joined.extend(b2.clone());
    let mut joined_cont = b1.clone();
    joined_cont.extend(b2_cont.clone());
    for (bundle, name) in [(&joined, "extend"), (&b, "monolithic"), (&joined_cont, "extend-after-take_bundle-on-continuing-State")] {
        let cs = bundle.to_plain_state(OriginalValuesKnown::No);
        let mut w = pre.clone();
        apply_changeset(&mut w, &cs, &mono.final_world);
        if let Err(m) = worlds_equal(&format!("{name} bundle applied to the pre-state"), &w, &mono.final_world) {
            fails.push(Failure::new(format!("C18|{name}|changeset"), m));
        }
        let rv = bundle.reverts.to_plain_state_reverts();
        if rv.accounts.len() != n {
            fails.push(Failure::new(format!("C18|{name}|group-count"), format!("{} groups, expected {n}", rv.accounts.len())));
        } else {
            for g in 0..n {
                if let Err(mut f) = check_reverts(name, &rv, g, &mono.snaps[g], &mono.snaps[g + 1], &pre) {
                    f.sig = f.sig.replace("C17|", "C18|");
                    fails.push(f);
                    break;
                }
            }
        }
    }
    // take_n_reverts
    let m = (c.take_m as usize) % (n + 2);
    let mut t = joined.clone();
    let all = joined.reverts.clone();
    let taken = t.take_n_reverts(m);
    let mm = m.min(all.len());
    if taken.len() != mm || t.reverts.len() != all.len() - mm {
        fails.push(Failure::new("C18|take_n_reverts|counts", format!("take_n_reverts({m}) returned {} groups and left {} of {}", taken.len(), t.reverts.len(), all.len())));
    } else {
        let mut a1 = revm::db::states::reverts::Reverts::new(taken.to_vec());
        let mut a2 = revm::db::states::reverts::Reverts::new(all[..mm].to_vec());
        a1.sort();
        a2.sort();
        let mut r1 = revm::db::states::reverts::Reverts::new(t.reverts.to_vec());
        let mut r2 = revm::db::states::reverts::Reverts::new(all[mm..].to_vec());
        r1.sort();
        r2.sort();
        if a1 != a2 || r1 != r2 {
            fails.push(Failure::new("C18|take_n_reverts|content", format!("take_n_reverts({m}) changed the reverts it returned or left")));
        }
    }
    // prepend_state: newer values win, accounts only in the older bundle are added
    let mut p = b2.clone();
    p.prepend_state(b1.clone());
    for (addr, newer) in &b2.state {
        match p.state.get(addr) {
            Some(x) => {
                if x.info != newer.info {
                    fails.push(Failure::new("C18|prepend_state|overrides-newer-info", format!("account {addr}: info {:?} after prepend, newer bundle had {:?}", x.info, newer.info)));
                }
                for (k, s) in &newer.storage {
                    if x.storage.get(k).map(|y| y.present_value) != Some(s.present_value) {
                        fails.push(Failure::new("C18|prepend_state|overrides-newer-slot", format!("account {addr} slot {k}: {:?} after prepend, newer bundle had {}", x.storage.get(k).map(|y| y.present_value), s.present_value)));
                    }
                }
            }
            None => fails.push(Failure::new("C18|prepend_state|drops-account", format!("account {addr} of the newer bundle is missing after prepend"))),
        }
    }
    for (addr, older) in &b1.state {
        if !b2.state.contains_key(addr) && p.state.get(addr).map(|x| &x.info) != Some(&older.info) {
            fails.push(Failure::new("C18|prepend_state|older-account-missing", format!("account {addr} only present in the older bundle is missing or changed after prepend")));
        }
    }
    if !fails.is_empty() {
        fails.truncate(3);
        return Err(fails);
    }
    let destroyed_both = b1.state.iter().any(|(a, x)| x.was_destroyed() && b2.state.get(a).map(|y| y.was_destroyed()).unwrap_or(false));
    let destroyed_any = b1.state.values().chain(b2.state.values()).any(|x| x.was_destroyed());
    Ok(Outcome::new(destroyed_any && !b1.state.is_empty() && !b2.state.is_empty()).label_if(destroyed_both, "destroyed-in-both-halves").label_if(destroyed_any, "destroyed-in-a-half"))
}

// ------------------------------------------------------------------------------------------
// C19
// ------------------------------------------------------------------------------------------

pub fn c19_case(c: &HistCase) -> CaseResult {
    let spec = spec_id(c.world.spec);
    let Some(fork) = c.world.fork() else { return Ok(Outcome::trivial()) };
    let (pre, block, _) = hist_pre(&c.world);
    let steps1 = final_merge(&c.steps);
    let h1 = run_history(spec, fork, &block, &pre, new_state(&pre, spec, true), &steps1, &[], false);
    let mut s1 = h1.state;
    let bundle = s1.take_bundle();
    let w1 = h1.final_world.clone();
    // (a) State over D with the bundle preloaded; (b) State over D (+) changeset(B)
    let mk_a = || {
        let mut s = State::builder().with_database(ModelDB::new(pre.clone())).with_bundle_prestate(bundle.clone()).with_bundle_update().build();
        s.set_state_clear_flag(state_clear(spec));
        s
    };
    let mut sa = mk_a();
    let mut sb = new_state(&w1, spec, true);
    let (r0a, r0b) = (reads(&mut sa), reads(&mut sb));
    ensure!(r0a == r0b, "C19|reads-before", "reads of State(D)+preloaded bundle differ from State(D+B): {}", first_diff(&r0a, &r0b));
    let steps2 = final_merge(&c.steps2);
    let a = run_history(spec, fork, &block, &w1, mk_a(), &steps2, &[], true);
    if let Some(m) = &a.read_mismatch {
        return Err(vec![Failure::new("C19|reads-during", format!("State with preloaded bundle: {m}"))]);
    }
    let b = run_history(spec, fork, &block, &w1, new_state(&w1, spec, true), &steps2, &[], false);
    for (i, (x, y)) in a.results.iter().zip(b.results.iter()).enumerate() {
        ensure!(x == y, "C19|result-differs", "transaction {i}: with preloaded bundle {x}; over merged state {y}");
    }
    let mut sa = a.state;
    let mut sb = b.state;
    let (ra_, rb) = (reads(&mut sa), reads(&mut sb));
    ensure!(ra_ == rb, "C19|reads-after", "final reads differ: {}", first_diff(&ra_, &rb));
    // resulting bundles
    let ba = sa.take_bundle();
    let bb = sb.take_bundle();
    let mut wa = pre.clone();
    apply_changeset(&mut wa, &ba.to_plain_state(OriginalValuesKnown::No), &a.final_world);
    let mut wb = w1.clone();
    apply_changeset(&mut wb, &bb.to_plain_state(OriginalValuesKnown::No), &b.final_world);
    if let Err(m) = worlds_equal("(preloaded bundle + H2) applied to D", &wa, &a.final_world) {
        return Err(vec![Failure::new("C19|resulting-bundle|preloaded", m)]);
    }
    if let Err(m) = worlds_equal("bundle of H2 applied to D+B", &wb, &b.final_world) {
        return Err(vec![Failure::new("C19|resulting-bundle|merged", m)]);
    }
    let interesting: Vec<&Address> = bundle.state.iter().filter(|(_, x)| x.was_destroyed()).map(|(a, _)| a).collect();
    let touched_again = interesting.iter().any(|a| ba.state.get(*a).map(|x| bundle.state.get(*a) != Some(x)).unwrap_or(false));
    Ok(Outcome::new(!interesting.is_empty()).label_if(!interesting.is_empty(), "prestate-has-destroyed-account").label_if(touched_again, "H2-touches-destroyed-account"))
}

// ------------------------------------------------------------------------------------------
// generators / registration
// ------------------------------------------------------------------------------------------

fn hist_cfg() -> WorldCfg {
    let mut cfg = WorldCfg::default();
    cfg.invalid_pct = 3;
    cfg.n_contracts = 2..=4;
    cfg.prog.call_weight = 10;
    cfg
}

fn hist_strategy() -> impl Strategy<Value = HistCase> {
    let cfg = hist_cfg();
    let step = || {
        let cfg = hist_cfg();
        prop_oneof![
            10 => world::tx_spec(&cfg).prop_map(HStep::Tx),
            3 => Just(HStep::Merge),
            1 => prop::collection::vec((0u8..16, prop_oneof![Just(0u32), 1u32..1000]), 1..3).prop_map(HStep::Increment),
            1 => prop::collection::vec(0u8..16, 1..3).prop_map(HStep::Drain),
        ]
    };
    (world_case(&cfg), prop::collection::vec(step(), 1..9), any::<bool>(), any::<u8>(), any::<u8>(), any::<u8>(), prop::collection::vec(step(), 1..6)).prop_map(|(mut world, mut steps, bundle, split, take_m, revert_j, steps2)| {
        // pre-Cancun specs frequent: real destroy / re-create
        if world.spec % 3 == 0 && world.spec > 16 {
            world.spec = 5 + world.spec % 11;
        }
        steps.insert(0, HStep::Tx(world.tx.clone()));
        HistCase { world, steps, bundle, split, take_m, revert_j, steps2 }
    })
}

/// Runtime of the "on demand" contract: calldata byte 0 = 1 -> SELFDESTRUCT(eoa 1), 2 -> clear
/// slot 1, anything else b -> SSTORE(1, b).
fn on_demand_runtime() -> Vec<u8> {
    let mut a = vgen::prog::Asm::default();
    a.push_n(0);
    a.op(0x35);
    a.push_n(0);
    a.op(0x1a); // BYTE(0, calldata word) = first calldata byte
    let fix = |a: &mut vgen::prog::Asm, v: u64| -> usize {
        a.op(0x80);
        a.push_n(v);
        a.op(0x14);
        let p = a.code.len();
        a.code.extend_from_slice(&[0x61, 0, 0, 0x57]);
        p
    };
    let p_sd = fix(&mut a, 1);
    let p_clear = fix(&mut a, 2);
    a.push_n(1);
    a.op(0x55);
    a.op(0x00);
    let l_sd = a.code.len();
    a.op(0x5b);
    a.push_u256(pool::addr_word(&pool::addr(1)));
    a.op(0xff);
    let l_clear = a.code.len();
    a.op(0x5b);
    a.push_n(0);
    a.push_n(1);
    a.op(0x55);
    a.op(0x00);
    for (p, l) in [(p_sd, l_sd), (p_clear, l_clear)] {
        a.code[p + 1] = (l >> 8) as u8;
        a.code[p + 2] = l as u8;
    }
    a.code
}

/// Histories aimed at destroy / re-create / destroy-again: an "on demand" contract with storage,
/// a CREATE2 factory with a fixed salt (CREATE before Constantinople) and calls to the child.
fn directed_hist() -> impl Strategy<Value = HistCase> {
    use vgen::prog::{Arg, Init, Program, Sink, Stmt, Term};
    use vgen::world::{AccountSpec, BlockSpec, Code, DataSpec};
    let runtime = on_demand_runtime();
    let init = Init::Deploy { ctor: vec![Stmt::Op { op: 0x55, args: vec![Arg::Key(2), Arg::N(5)], sink: Sink::Pop }], runtime: Box::new(Program { body: vec![Stmt::Raw(runtime.clone())], end: Term::Stop }) };
    let initcode = vgen::prog::assemble_init(&init);
    let factory = pool::addr(pool::IDX_CONTRACT0 + 1);
    let child2 = r::create2_address(factory, r::U256::zero(), &initcode);
    let child1 = r::create_address(factory, 1);
    let target = prop_oneof![3 => Just(0u8), 3 => Just(1u8), 4 => Just(2u8), 1 => Just(3u8)];
    let data = prop_oneof![3 => Just(1u8), 2 => Just(2u8), 2 => Just(9u8), 2 => 3u8..8];
    let step = (target, data, 0u8..10).prop_map(move |(t, d, kind)| match kind {
        0 | 1 => HStep::Merge,
        2 => HStep::Increment(vec![(pool::IDX_CONTRACT0, 5), (t, 0)]),
        _ => {
            let mut tx = TxSpec::call((d % 3) as u8, Some(pool::IDX_CONTRACT0), 1_500_000);
            tx.data = DataSpec::Bytes(vec![d]);
            match t {
                0 => tx.to = Some(pool::IDX_CONTRACT0),
                1 => tx.to = Some(pool::IDX_CONTRACT0 + 1),
                2 => tx.to_extra = Some([0xc2; 20]), // placeholder, patched below per spec
                _ => tx.to = Some(pool::IDX_NONE0),
            }
            HStep::Tx(tx)
        }
    });
    (prop_oneof![Just(5u8), Just(8), Just(9), Just(11), Just(12), Just(16), Just(17), Just(18), Just(0), Just(2)], prop::collection::vec(step.clone(), 2..12), any::<bool>(), any::<u8>(), any::<u8>(), any::<u8>(), prop::collection::vec(step, 1..7)).prop_map(move |(spec, mut steps, bundle, split, take_m, revert_j, mut steps2)| {
        let use_create2 = spec >= 7;
        let child = if use_create2 { child2 } else { child1 };
        for s in steps.iter_mut().chain(steps2.iter_mut()) {
            if let HStep::Tx(t) = s {
                if t.to_extra.is_some() {
                    t.to_extra = Some(child);
                }
            }
        }
        let factory_prog = Program { body: vec![Stmt::Create { create2: use_create2, value: Arg::N(0), salt: Arg::N(0), init: init.clone(), status: Sink::Sstore(0) }], end: Term::Stop };
        let accounts = vec![
            AccountSpec { addr: 0, balance: world::eth(1000), nonce: 0, code: Code::None, storage: vec![] },
            AccountSpec { addr: 1, balance: world::eth(1000), nonce: 0, code: Code::None, storage: vec![] },
            AccountSpec { addr: 2, balance: world::eth(1000), nonce: 3, code: Code::None, storage: vec![] },
            AccountSpec { addr: pool::IDX_CONTRACT0, balance: r::U256::from(77u64), nonce: 1, code: Code::Raw(runtime.clone()), storage: vec![(1, r::U256::from(9u64)), (2, r::U256::from(4u64))] },
            AccountSpec { addr: pool::IDX_CONTRACT0 + 1, balance: r::U256::zero(), nonce: 1, code: Code::Prog(factory_prog), storage: vec![] },
        ];
        let world = WorldCase { spec, accounts, block: BlockSpec::plain(), tx: TxSpec::call(0, Some(pool::IDX_CONTRACT0 + 1), 1_500_000) };
        steps.insert(0, HStep::Tx(world.tx.clone()));
        HistCase { world, steps, bundle, split, take_m, revert_j, steps2 }
    })
}

pub fn mixed_hist() -> impl Strategy<Value = HistCase> {
    prop_oneof![2 => hist_strategy().boxed(), 3 => directed_hist().boxed()]
}

pub fn c15(ctx: &mut Ctx) {
    let n = ctx.tier.pick(12_000, 400_000);
    ctx.run_cases(
        "state-reads",
        "histories of 2-10 steps (generated transactions incl. creates, self-destructs, storage writes, touches of empty accounts; merge points; increment_balances / drain_balances) executed through Evm + State<ModelDB> (with and without bundle tracking, state clearing per spec); the reference world is advanced by the independent apply rule after every commit; after EVERY step basic/storage/code reads of all 63 pool addresses x 7 keys are compared; the same history over CacheDB gives identical results and final reads; non-trivial = some account passes through >= 3 distinct AccountStatus values",
        mixed_hist,
        n,
        c15_case,
    );
    ctx.expect_labels("state-reads", &["selfdestruct", "create", "increment", "drain", "status:LoadedNotExisting", "status:Loaded", "status:InMemoryChange", "status:Changed", "status:Destroyed", "status:DestroyedChanged", "status:DestroyedAgain", "status:LoadedEmptyEIP161"]);
    ctx.assumptions.push("documented precondition (AccountStatus): the initial database holds no account with storage but neither code nor nonce; drain_balances is applied to existing accounts that stay non-empty and whose balance fits u128".into());
}

pub fn c16(ctx: &mut Ctx) {
    let n = ctx.tier.pick(15_000, 500_000);
    ctx.run_cases(
        "changeset",
        "histories as in C15 with random merge schedules (retention Reverts); the bundle's to_plain_state(Yes / No) is applied by an own changeset applier (accounts, wipe flags, slots, contracts) to the pre-history reference world and must equal the post-history reference world; non-trivial = bundle with a wiped account or a slot written back to its original value",
        mixed_hist,
        n,
        |c| c16_17_case(c).map_err(|f| f.into_iter().filter(|x| x.sig.starts_with("C16")).collect::<Vec<_>>()).or_else(|f| if f.is_empty() { Ok(Outcome::trivial()) } else { Err(f) }),
    );
    ctx.expect_labels("changeset", &["wiped-account", "slot-back-to-original"]);
}

pub fn c17(ctx: &mut Ctx) {
    let n = ctx.tier.pick(15_000, 500_000);
    ctx.run_cases(
        "reverts",
        "histories as in C16; reference snapshots S0..Sn at merge points; for every group k and every pool address/slot the value before k read off to_plain_state_reverts() (listed value; Destroyed = 0; unlisted = pre-bundle value if the storage is marked wiped, unchanged otherwise) must equal S(k-1), every account whose info changed must be listed, and bundle.revert(j) for a generated j leaves a bundle whose changeset maps S0 to S(n-j); non-trivial = bundle with a wiped account or a slot back at its original value",
        mixed_hist,
        n,
        |c| c16_17_case(c).map_err(|f| f.into_iter().filter(|x| x.sig.starts_with("C17")).collect::<Vec<_>>()).or_else(|f| if f.is_empty() { Ok(Outcome::trivial()) } else { Err(f) }),
    );
    ctx.expect_labels("reverts", &["wiped-account", "selfdestruct"]);
}

pub fn c18(ctx: &mut Ctx) {
    let n = ctx.tier.pick(10_000, 300_000);
    ctx.run_cases(
        "split-join",
        "histories as in C17 with a generated split point i: B1.extend(B2) versus the monolithic bundle: same changeset effect on S0 and the same per-group pre-values (C17's reader on both); take_n_reverts(m) returns the first m groups unchanged and leaves the rest; B2.prepend_state(B1) keeps every present info/slot of B2 and adds the accounts only B1 had; non-trivial = an account destroyed in one of the halves",
        mixed_hist,
        n,
        c18_case,
    );
    ctx.expect_labels("split-join", &["destroyed-in-a-half", "destroyed-in-both-halves"]);
}

pub fn c19(ctx: &mut Ctx) {
    let n = ctx.tier.pick(8_000, 200_000);
    ctx.run_cases(
        "preloaded-bundle",
        "history H1 over database D yields bundle B; history H2 is then run on State(D).with_bundle_prestate(B) and on State(D (+) changeset(B)): identical reads before, after every step and at the end, identical ExecutionResults, and both resulting bundles map their base to the same final reference world; non-trivial = B contains a destroyed account",
        mixed_hist,
        n,
        c19_case,
    );
    ctx.expect_labels("preloaded-bundle", &["prestate-has-destroyed-account", "H2-touches-destroyed-account"]);
}
