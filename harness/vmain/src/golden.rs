//! Golden replay: revm on the execution-spec-tests state vectors shipped under /repo/tests (they are not part of
//! the repository's own test suite).  Expected post-state root and logs hash come from the vectors (produced
//! by the execution-specs); the root of revm's post-state is computed with the reference's own MPT.
use crate::evmrun::*;
use refevm as r;
use revm::primitives::SpecId;
use serde::{Deserialize, Serialize};
use std::cell::RefCell;
use std::path::{Path, PathBuf};
use vcore::{ensure, CaseResult, Ctx, Failure, Outcome};

#[derive(Clone, Debug, Hash, Serialize, Deserialize)]
pub struct GoldenState {
    pub file: String,
    pub name: String,
    pub fork: String,
    pub index: usize,
}

const ROOTS: [&str; 2] = ["/repo/tests/pectra_devnet5/state_tests", "/repo/tests/eof_suite/eest/state_tests"];

fn spec_by_name(name: &str) -> Option<SpecId> {
    Some(match name {
        "Frontier" => SpecId::FRONTIER,
        "Homestead" => SpecId::HOMESTEAD,
        "EIP150" => SpecId::TANGERINE,
        "EIP158" => SpecId::SPURIOUS_DRAGON,
        "Byzantium" => SpecId::BYZANTIUM,
        "Constantinople" => SpecId::CONSTANTINOPLE,
        "ConstantinopleFix" | "Petersburg" => SpecId::PETERSBURG,
        "Istanbul" => SpecId::ISTANBUL,
        "Berlin" => SpecId::BERLIN,
        "London" => SpecId::LONDON,
        "Paris" | "Merge" => SpecId::MERGE,
        "Shanghai" => SpecId::SHANGHAI,
        "Cancun" => SpecId::CANCUN,
        "Prague" => SpecId::PRAGUE,
        "Osaka" => SpecId::OSAKA,
        _ => return None,
    })
}

fn collect(dir: &Path, out: &mut Vec<PathBuf>) {
    let Ok(rd) = std::fs::read_dir(dir) else { return };
    let mut entries: Vec<PathBuf> = rd.flatten().map(|e| e.path()).collect();
    entries.sort();
    for p in entries {
        if p.is_dir() {
            collect(&p, out);
        } else if p.extension().map(|x| x == "json").unwrap_or(false) {
            out.push(p);
        }
    }
}

pub fn load_all() -> Vec<GoldenState> {
    let mut files = vec![];
    for root in ROOTS {
        collect(Path::new(root), &mut files);
    }
    let mut out = vec![];
    for f in files {
        if r::vectors::EXPECTED_FAIL_FILES.iter().any(|x| f.ends_with(x)) {
            continue;
        }
        for c in r::vectors::load_file(&f) {
            if spec_by_name(&c.fork_name).is_some() {
                out.push(GoldenState { file: f.display().to_string(), name: c.name, fork: c.fork_name, index: c.index });
            }
        }
    }
    out
}

thread_local! {
    static LAST_FILE: RefCell<Option<(String, Vec<r::vectors::VectorCase>)>> = const { RefCell::new(None) };
}

pub fn golden_state_case(g: &GoldenState) -> CaseResult {
    let case = LAST_FILE.with(|l| {
        let mut l = l.borrow_mut();
        if l.as_ref().map(|(f, _)| f != &g.file).unwrap_or(true) {
            *l = Some((g.file.clone(), r::vectors::load_file(Path::new(&g.file))));
        }
        l.as_ref().unwrap().1.iter().find(|c| c.name == g.name && c.fork_name == g.fork && c.index == g.index).cloned()
    });
    let Some(c) = case else { return Err(vec![Failure::new("C01|golden|vector-vanished", format!("{} :: {} [{} #{}] is no longer loadable", g.file, g.name, g.fork, g.index))]) };
    let spec = spec_by_name(&c.fork_name).unwrap();
    let short = g.file.rsplit("state_tests/").next().unwrap_or(&g.file).to_string();
    let id = format!("{short} :: {} [{} #{}]", g.name, g.fork, g.index);
    match run_plain(spec, &c.pre, &c.block, &c.tx) {
        Err(e) => {
            ensure!(c.expect_exception.is_some(), "C01|golden|rejects-valid-transaction", "{id}: revm rejected the transaction ({e}) but the vector expects execution");
            let root = r::state_root(&c.pre);
            ensure!(root == c.expected_root, "C01|golden|harness|pre-root", "{id}: rejected as expected but the pre-state root differs from the vector's hash");
            Ok(Outcome::nontrivial().label("expected-rejection"))
        }
        Ok(rs) => {
            ensure!(c.expect_exception.is_none(), "C01|golden|accepts-invalid-transaction", "{id}: revm executed a transaction the vector expects to be rejected with {:?}", c.expect_exception);
            let mut post = c.pre.clone();
            apply_state(&mut post, &rs.state, state_clear(spec));
            let root = r::state_root(&post);
            let n = norm_result(&rs.result);
            let lh = r::logs_hash(&n.logs);
            ensure!(root == c.expected_root, "C01|golden|state-root", "{id}: post-state root 0x{} differs from the vector's 0x{} [{:?} gas_used {}]", hex::encode(root), hex::encode(c.expected_root), n.status, n.gas_used);
            ensure!(lh == c.expected_logs, "C01|golden|logs-hash", "{id}: logs hash 0x{} differs from the vector's 0x{}", hex::encode(lh), hex::encode(c.expected_logs));
            Ok(Outcome::nontrivial().label(if spec == SpecId::OSAKA { "osaka" } else { "frontier..prague" }))
        }
    }
}


/// The oracle's own anchor: the reference EVM on the same vectors (forks <= Prague; precompile bodies from revm-precompile).
pub fn golden_reference_case(g: &GoldenState) -> CaseResult {
    let case = LAST_FILE.with(|l| {
        let mut l = l.borrow_mut();
        if l.as_ref().map(|(f, _)| f != &g.file).unwrap_or(true) {
            *l = Some((g.file.clone(), r::vectors::load_file(Path::new(&g.file))));
        }
        l.as_ref().unwrap().1.iter().find(|c| c.name == g.name && c.fork_name == g.fork && c.index == g.index).cloned()
    });
    let Some(c) = case else { return Ok(Outcome::trivial()) };
    let Some(fork) = r::vectors::fork_by_name(&c.fork_name) else { return Ok(Outcome::trivial()) };
    let id = format!("{} :: {} [{} #{}]", g.file.rsplit("state_tests/").next().unwrap_or(&g.file), g.name, g.fork, g.index);
    match r::execute(fork, &c.block, &c.pre, &c.tx, &RevmPrecompiles, &mut r::NoTracer) {
        r::TxOutcome::Rejected(why) => {
            ensure!(c.expect_exception.is_some(), "C01|reference-vs-vector|rejects", "{id}: the reference EVM rejects ({why}) a transaction the vector executes");
        }
        r::TxOutcome::Executed(x) => {
            ensure!(c.expect_exception.is_none(), "C01|reference-vs-vector|accepts", "{id}: the reference EVM executes a transaction the vector rejects");
            let root = r::state_root(&x.post);
            ensure!(root == c.expected_root && r::logs_hash(&x.logs) == c.expected_logs, "C01|reference-vs-vector|root", "{id}: the reference EVM's post-state root / logs hash differ from the vector");
        }
    }
    Ok(Outcome::nontrivial())
}

pub fn golden_part(ctx: &mut Ctx) {
    let cases = load_all();
    if cases.is_empty() {
        ctx.warn("no shipped state vectors found under /repo/tests");
        return;
    }
    ctx.run_list(
        "golden-vectors",
        "every case of the execution-spec-tests state vectors shipped under /repo/tests (pectra_devnet5 and the EOF suite; forks Frontier..Prague and Osaka): revm's post-state root (reference MPT) and logs hash must equal the vector's; expected rejections must be rejected.  Excluded: files the task emptied (not loadable) and four ext_code_on_*set_code files that encode the superseded devnet-5 EXTCODE* rule",
        cases.clone(),
        false,
        golden_state_case,
    );
    let upto_prague: Vec<GoldenState> = cases.into_iter().filter(|g| r::vectors::fork_by_name(&g.fork).is_some()).collect();
    ctx.run_list(
        "reference-anchor",
        "the independent reference EVM (oracle of the differential parts) on the same vectors for Frontier..Prague: it must reproduce every post-state root and logs hash, so the oracle is anchored in the specification-produced vectors on every run",
        upto_prague,
        false,
        golden_reference_case,
    );
}
