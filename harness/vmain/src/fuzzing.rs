//! Coverage-guided entry points: libFuzzer bytes drive the *same* proptest strategies (through
//! proptest's pass-through RNG, so that byte mutations are structural mutations of the case) or are
//! used directly as code / container / precompile input; the semantic oracle of the property runs
//! inside the target.  A failure that is not a listed known finding is written as a replay file,
//! printed as a VIOLATION line, and then panics so that libFuzzer keeps the input.
use crate::precomp::{GasSel, Hx, PcCase, PcInput};
use serde::Serialize;
use vcore::proptest::prelude::*;
use vcore::proptest::strategy::ValueTree;
use vcore::proptest::test_runner::{Config, RngAlgorithm, TestRng, TestRunner};
use vcore::{CaseResult, Failure, ReplayFile};
use vgen::world::{world_case, WorldCfg};

fn report<C: Serialize>(id: &str, part: &str, case: &C, fails: Vec<Failure>) {
    let known = vcore::load_known(id);
    let unknown: Vec<&Failure> = fails.iter().filter(|f| !known.iter().any(|k| k.status == "known" && f.sig.starts_with(&k.signature))).collect();
    let Some(f) = unknown.first() else { return };
    let rf = ReplayFile { property: id.to_string(), part: part.to_string(), signature: f.sig.clone(), message: f.msg.clone(), case: serde_json::to_value(case).unwrap_or_default() };
    let dir = std::path::Path::new(vcore::VERIF_DIR).join("replays").join(id);
    let _ = std::fs::create_dir_all(&dir);
    let path = dir.join(format!("fuzz-{:016x}.json", vcore::fixed_hash(&(part, &f.sig, rf.case.to_string()))));
    let _ = std::fs::write(&path, serde_json::to_string_pretty(&rf).unwrap());
    println!("VIOLATION property={id} replay={}", path.display());
    println!("  part={part} sig={} :: {}", f.sig, vcore::first_line(&f.msg, 600));
    panic!("violation of {id}: {}", f.sig);
}

fn eval<C: Serialize>(id: &str, part: &str, case: &C, f: impl Fn(&C) -> CaseResult) {
    match vcore::guarded(|| f(case)) {
        Ok(Ok(_)) => {}
        Ok(Err(fails)) => report(id, part, case, fails),
        Err((loc, msg)) => report(id, part, case, vec![Failure::new(format!("{id}|panic|{loc}"), format!("panic at {loc}: {msg}"))]),
    }
}

/// Value of `strategy` determined by the fuzzer's bytes.
fn from_bytes<S: Strategy>(strategy: &S, data: &[u8]) -> Option<S::Value> {
    let cfg = Config { failure_persistence: None, ..Config::default() };
    let mut runner = TestRunner::new_with_rng(cfg, TestRng::from_seed(RngAlgorithm::PassThrough, data));
    strategy.new_tree(&mut runner).ok().map(|t| t.current())
}

macro_rules! cached {
    ($ty:ty, $make:expr) => {{
        thread_local! { static S: std::cell::OnceCell<BoxedStrategy<$ty>> = const { std::cell::OnceCell::new() }; }
        S.with(|c| c.get_or_init(|| $make.boxed()).clone())
    }};
}

pub const TARGETS: [&str; 10] = ["txdiff", "journal", "hist", "db", "eofbuilt", "eofbytes", "interp", "precompile", "stack", "depth"];

/// One libFuzzer iteration of `target`.
pub fn fuzz_one(target: &str, data: &[u8]) {
    static HOOK: std::sync::Once = std::sync::Once::new();
    HOOK.call_once(|| {
        // keep libFuzzer's abort-on-panic behaviour but remember location/message for the report
        let prev = std::panic::take_hook();
        vcore::install_panic_hook();
        let ours = std::panic::take_hook();
        std::panic::set_hook(Box::new(move |info| {
            ours(info);
            if info.payload().downcast_ref::<String>().map(|s| s.starts_with("violation of ")).unwrap_or(false) {
                prev(info);
            }
        }));
    });
    match target {
        "txdiff" => {
            let s = cached!(vgen::world::WorldCase, world_case(&WorldCfg::default()));
            if let Some(c) = from_bytes(&s, data) {
                eval("C01", "differential", &c, crate::txcheck::c01_case);
                eval("C09", "gas-rules", &c, crate::monchecks::c09_case);
                eval("C08", "conservation", &c, crate::monchecks::c08_case);
            }
        }
        "journal" => {
            let s = cached!(crate::journalcheck::JournalCase, crate::journalcheck::journal_strategy());
            if let Some(c) = from_bytes(&s, data) {
                eval("C06", "journal-model", &c, crate::journalcheck::c06_case);
            }
        }
        "hist" => {
            let s = cached!(crate::statecheck::HistCase, crate::statecheck::mixed_hist());
            if let Some(c) = from_bytes(&s, data) {
                eval("C15", "state-reads", &c, crate::statecheck::c15_case);
                eval("C17", "reverts", &c, crate::statecheck::c16_17_case);
                eval("C18", "split-join", &c, crate::statecheck::c18_case);
                eval("C19", "preloaded-bundle", &c, crate::statecheck::c19_case);
            }
        }
        "db" => {
            let s = cached!(crate::dbcheck::DbCase, crate::dbcheck::db_strategy());
            if let Some(c) = from_bytes(&s, data) {
                eval("C20", "wrappers", &c, crate::dbcheck::c20_case);
            }
        }
        "eofbuilt" => {
            let s = cached!(crate::eofcheck::BuiltCase, crate::eofcheck::built_strategy());
            if let Some(c) = from_bytes(&s, data) {
                eval("C26", "generated-containers", &c, crate::eofcheck::built_case);
            }
        }
        "eofbytes" => {
            // the input *is* the container (corpus: the shipped EOF vectors)
            let c = crate::eofcheck::BytesCase { bytes: Hx(data.to_vec()), calldata: vec![1, 2, 3, 4] };
            eval("C26", "mutated-corpus", &c, crate::eofcheck::bytes_case);
        }
        "interp" => {
            // byte 0: spec, byte 1-3: gas, rest: code of one contract called with its own tail as calldata
            if data.len() < 4 {
                return;
            }
            let gas = u32::from_le_bytes([data[1], data[2], data[3], 0]);
            let code = data[4..].to_vec();
            let calldata = code.iter().rev().take(36).copied().collect();
            let c = crate::monchecks::RawCodeCase { spec: data[0] % 20, codes: vec![code], calldata, gas, value: data[0] >> 6 };
            eval("C25", "raw-bytes", &c, crate::monchecks::c25_raw_case);
        }
        "precompile" => {
            // byte 0: precompile, byte 1: era + gas selector, rest: input
            if data.len() < 2 {
                return;
            }
            const ADDRS: [u16; 14] = [1, 2, 3, 4, 5, 6, 7, 9, 0x0b, 0x0c, 0x0d, 0x0e, 0x10, 0x11];
            let addr = ADDRS[data[0] as usize % ADDRS.len()];
            let gas = match data[1] >> 4 {
                0..=5 => GasSel::Exact,
                6..=8 => GasSel::Minus1,
                9..=10 => GasSel::Plus1,
                11 => GasSel::Zero,
                _ => GasSel::Large,
            };
            let c = PcCase { era: data[1] % 6, gas, input: PcInput::Raw { addr, bytes: Hx(data[2..].to_vec()) }, tx_level: data[1] & 8 != 0 };
            eval("C23", "fuzz-raw", &c, crate::precomp::c23_case);
        }
        "stack" => {
            let s = cached!(Vec<crate::structs::StackOp>, prop::collection::vec(crate::structs::stack_op(), 1..60));
            if let Some(c) = from_bytes(&s, data) {
                eval("C12", "stack-ops", &c, crate::structs::c12_case);
            }
        }
        "depth" => {
            let s = cached!(crate::monchecks::DepthCase, (0u8..20, prop::collection::vec((0u8..6, 0u8..13), 0..6)).prop_map(|(spec, prefix)| crate::monchecks::DepthCase { spec, prefix }));
            if let Some(c) = from_bytes(&s, data) {
                eval("C07", "depth-probe", &c, crate::monchecks::c07_depth_case);
            }
        }
        other => panic!("unknown fuzz target {other}"),
    }
}
