//! Checks built on the recording inspector: C07, C08, C09, C10, C11(b), C25, C28, C29, C30.
use crate::common::{big, era, Era};
use crate::evmrun::*;
use crate::monitors::*;
use num_bigint::BigUint;
use num_traits::Zero;
use refevm as r;
use revm::inspector_handle_register;
use revm::inspectors::{GasInspector, NoOpInspector, TracerEip3155};
use revm::interpreter::InstructionResult;
use revm::primitives::{Address, ExecutionResult, ResultAndState, SpecId, U256};
use revm::Evm;
use serde::{Deserialize, Serialize};
use std::collections::BTreeSet;
use vcore::proptest::prelude::*;
use vcore::{ensure, CaseResult, Ctx, Failure, Outcome};
use vgen::pool;
use vgen::prog::{Arg, GenCfg, Program, Sink, Stmt, Term};
use vgen::world::{world_case, AccountSpec, Code, WorldCase, WorldCfg};

pub struct Run {
    pub spec: SpecId,
    pub pre: r::World,
    pub block: r::Block,
    pub tx: r::Tx,
    pub res: Result<ResultAndState, String>,
    pub rec: Recorder,
}

pub fn run_case(case: &WorldCase, cfg: RecCfg) -> Run {
    let spec = spec_id(case.spec);
    let (pre, block, tx) = case.build();
    let env = make_env(spec, &block, &tx);
    let (res, rec) = run_recorded(spec, &pre, env, cfg);
    Run { spec, pre, block, tx, res, rec }
}

fn monitor_fails(rec: &Recorder, prefix: &[&str]) -> Vec<Failure> {
    rec.fails.iter().filter(|f| prefix.iter().any(|p| f.sig.starts_with(p))).cloned().collect()
}

fn outcome_label(res: &ExecutionResult) -> &'static str {
    match res {
        ExecutionResult::Success { .. } => "success",
        ExecutionResult::Revert { .. } => "revert",
        ExecutionResult::Halt { .. } => "halt",
    }
}

fn bu(v: r::U256) -> BigUint {
    big(ru(v))
}

/// Blob gas price by the reference's own function (Prague fraction for OSAKA).
fn blob_fee(run: &Run) -> BigUint {
    if era(run.spec) < Era::Cancun || run.tx.blob_hashes.is_empty() {
        return BigUint::zero();
    }
    let fork = if era(run.spec) >= Era::Prague { r::Fork::Prague } else { r::Fork::Cancun };
    bu(r::blob_gas_price(fork, run.block.excess_blob_gas)) * BigUint::from(run.tx.blob_hashes.len() as u64 * 131072)
}

fn effective_price(run: &Run) -> BigUint {
    let base = if era(run.spec) >= Era::London { bu(run.block.base_fee) } else { BigUint::zero() };
    match run.tx.max_priority_fee {
        Some(p) => std::cmp::min(bu(run.tx.gas_price), base + bu(p)),
        None => bu(run.tx.gas_price),
    }
}

// ------------------------------------------------------------------------------------------
// C08 conservation
// ------------------------------------------------------------------------------------------

pub fn c08_case(case: &WorldCase) -> CaseResult {
    let run = run_case(case, RecCfg::default());
    let Ok(rs) = &run.res else { return Ok(Outcome::trivial().label("rejected")) };
    let mut o = Outcome::trivial();
    let sd_executed = run.rec.ops[0xff] > 0;
    let supply_pre = total_supply(&run.pre);
    let coinbase_bal = run.pre.get(&run.block.coinbase).map(|a| a.balance).unwrap_or_default();
    if supply_pre.bits() > 256 {
        // Credits without any defined overflow behaviour (beneficiary of SELFDESTRUCT, coinbase
        // reward) are only in the domain when they cannot overflow.
        if sd_executed || coinbase_bal.bits() > 255 {
            return Ok(o.label("excluded:undefined-credit-could-overflow"));
        }
        o.labels.push("supply>2^256");
    }
    let mut post = run.pre.clone();
    apply_state(&mut post, &rs.state, state_clear(run.spec));
    let supply_post = total_supply(&post);
    let gas_used = rs.result.gas_used();
    let base = if era(run.spec) >= Era::London { bu(run.block.base_fee) } else { BigUint::zero() };
    let cancun = era(run.spec) >= Era::Cancun;
    // burns: completed, never-reverted SELFDESTRUCTs naming themselves that really delete the account
    let mut burns = BigUint::zero();
    for (a, bal) in &run.rec.self_burns {
        if !cancun || run.rec.created.contains(a) {
            burns += big(*bal);
        }
    }
    // residual balance of accounts deleted at the end of the transaction
    for (_, acc) in rs.state.iter() {
        if acc.is_selfdestructed() && acc.is_touched() {
            burns += big(acc.info.balance);
        }
    }
    let expected_loss = base * BigUint::from(gas_used) + blob_fee(&run) + &burns;
    let lhs = &supply_post + &expected_loss;
    if lhs != supply_pre {
        let (what, diff) = if lhs > supply_pre { ("created", &lhs - &supply_pre) } else { ("destroyed", &supply_pre - &lhs) };
        let sig = if run.rec.events.iter().any(|e| matches!(e, Ev::CallEnd { result: InstructionResult::OverflowPayment, .. } | Ev::CreateEnd { result: InstructionResult::OverflowPayment, .. })) {
            "C08|ether-destroyed|receiver-overflow"
        } else if what == "created" {
            "C08|ether-created"
        } else {
            "C08|ether-destroyed"
        };
        return Err(vec![Failure::new(
            sig,
            format!(
                "{diff} wei {what}: sum(pre)={supply_pre} sum(post)={supply_post} basefee*gas_used+blob_fee+burns={expected_loss} (burns {burns}) [spec {:?} outcome {} gas_used {gas_used}]",
                run.spec,
                outcome_label(&rs.result)
            ),
        )]);
    }
    let value_flows = !run.rec.flow_addrs.is_empty();
    o.nontrivial = value_flows && run.rec.steps > 0;
    o.labels.push(outcome_label(&rs.result));
    if sd_executed {
        o.labels.push(if cancun { "selfdestruct-cancun+" } else { "selfdestruct-pre-cancun" });
    }
    if !burns.is_zero() {
        o.labels.push("burn>0");
    }
    if run.rec.events.iter().any(|e| matches!(e, Ev::CallEnd { result: InstructionResult::OutOfFunds | InstructionResult::OverflowPayment | InstructionResult::CallTooDeep, inputs, .. } if inputs.transfers_value())) {
        o.labels.push("failed-value-call");
    }
    if run.rec.events.iter().any(|e| matches!(e, Ev::CreateEnd { inputs, result, .. } if !inputs.value.is_zero() && !result.is_ok())) {
        o.labels.push("failed-create-with-endowment");
    }
    Ok(o)
}

fn value_heavy_cfg() -> WorldCfg {
    let mut cfg = WorldCfg::default();
    cfg.invalid_pct = 2;
    cfg
}

pub fn c08(ctx: &mut Ctx) {
    let n = ctx.tier.pick(200_000, 4_000_000);
    let mut cfg = value_heavy_cfg();
    cfg.include_osaka = true;
    ctx.run_cases(
        "conservation",
        "world generator (all specs incl. OSAKA); sum over all accounts in BigUint: sum(post) + basefee*gas_used[London+] + blob_fee + burns == sum(pre), burns = balances of completed never-reverted self-beneficiary SELFDESTRUCTs that really delete the account (observed at the instruction by the inspector) + residual balances of accounts deleted at the end; non-trivial = a value-bearing call/create/selfdestruct was executed; supply > 2^256 allowed when only defined-overflow credits (call/create value) can overflow",
        || world_case(&cfg),
        n,
        c08_case,
    );
    ctx.run_cases(
        "eof-value-flows",
        "OSAKA: generated valid EOF containers moving value (EXTCALL with value to EOF / legacy / empty / precompile targets, EOFCREATE endowments incl. ones above the balance, create transactions with EOF initcode); oracle: sum(post) + basefee*gas_used == sum(pre); non-trivial = an EXT*CALL or EOFCREATE was executed",
        crate::eofcheck::built_strategy,
        ctx.tier.pick(30_000, 600_000),
        crate::eofcheck::c08_eof_case,
    );
    ctx.expect_labels("conservation", &["failed-value-call", "failed-create-with-endowment", "selfdestruct-cancun+", "selfdestruct-pre-cancun", "burn>0", "supply>2^256"]);
    ctx.assumptions.push("also counts as an allowed burn: ether sent to an account after it self-destructed in the same transaction (deleted at the end by the specification itself)".into());
    ctx.assumptions.push("beneficiary-reward disabled configurations are checked in C22".into());
}

// ------------------------------------------------------------------------------------------
// C09 gas and fee rules
// ------------------------------------------------------------------------------------------

pub fn c09_case(case: &WorldCase) -> CaseResult {
    let run = run_case(case, RecCfg::default());
    let Ok(rs) = &run.res else { return Ok(Outcome::trivial().label("rejected")) };
    let fork = case.fork().unwrap_or(r::Fork::Prague);
    let intrinsic = r::intrinsic_gas(fork, &run.tx);
    let floor = r::floor_gas(fork, &run.tx);
    let gas_used = rs.result.gas_used();
    let limit = run.tx.gas_limit;
    let mut o = Outcome::trivial();
    ensure!(gas_used <= limit, "C09|gas_used>gas_limit", "gas_used {gas_used} > gas_limit {limit}");
    let n_auth = run.tx.authorization_list.len() as u64;
    match &rs.result {
        ExecutionResult::Success { gas_refunded, .. } => {
            let q = if era(run.spec) >= Era::London { 5 } else { 2 };
            let spent = gas_used as u128 + *gas_refunded as u128;
            ensure!((*gas_refunded as u128) <= spent / q, "C09|refund-above-cap", "refund {gas_refunded} > (gas_used+refund)/{q} = {}", spent / q);
            ensure!(gas_used >= intrinsic.max(floor) || *gas_refunded > 0, "C09|gas_used<intrinsic", "gas_used {gas_used} < max(intrinsic {intrinsic}, floor {floor}) without refund");
            ensure!(gas_used >= floor, "C09|gas_used<floor", "gas_used {gas_used} < calldata floor {floor}");
            ensure!(spent >= intrinsic as u128, "C09|gas_spent<intrinsic", "gas spent before refund {spent} < intrinsic {intrinsic}");
            if *gas_refunded > 0 {
                o.labels.push("refund>0");
                if (*gas_refunded as u128) == spent / q {
                    o.labels.push("refund-at-cap");
                }
            }
            if floor > 0 && gas_used == floor {
                o.labels.push("floor-binding");
            }
        }
        ExecutionResult::Revert { .. } => {
            // no refund on revert, except the EIP-7702 authority refund the specification grants on every outcome
            ensure!(gas_used >= floor, "C09|gas_used<floor", "revert: gas_used {gas_used} < floor {floor}");
            let max_auth_refund = (12500 * n_auth).min(limit / 5);
            ensure!(gas_used + max_auth_refund >= intrinsic, "C09|gas_used<intrinsic", "revert: gas_used {gas_used} < intrinsic {intrinsic}");
        }
        ExecutionResult::Halt { .. } => {
            let max_auth_refund = (12500 * n_auth).min(limit / 5);
            ensure!(limit - gas_used <= max_auth_refund, "C09|halt-did-not-consume-all-gas", "halt: gas_used {gas_used} of limit {limit} (allowed 7702 authority refund <= {max_auth_refund})");
            if n_auth == 0 {
                ensure!(gas_used == limit, "C09|halt-did-not-consume-all-gas", "halt: gas_used {gas_used} != gas_limit {limit}");
            }
        }
    }
    // payments (only when no execution-level value flow touches sender or coinbase)
    let sender = ra(&run.tx.caller);
    let coinbase = ra(&run.block.coinbase);
    let to = run.tx.to.as_ref().map(ra);
    let supply_ok = total_supply(&run.pre).bits() <= 256;
    let untouched = !run.rec.flow_addrs.contains(&coinbase) && sender != coinbase && to != Some(coinbase) && to != Some(sender) && supply_ok;
    let sender_flows: BTreeSet<&Address> = run.rec.flow_addrs.iter().filter(|a| **a == sender).collect();
    // the top-level transfer itself always names the sender; every other flow naming it is counted through events
    let sender_in_inner_flow = run.rec.events.iter().skip(1).any(|e| match e {
        Ev::Call { inputs, .. } => inputs.transfers_value() && (inputs.caller == sender || inputs.target_address == sender),
        Ev::Create { inputs, .. } => !inputs.value.is_zero() && inputs.caller == sender,
        Ev::Step { op: 0xff, addr, top, .. } => *addr == sender || top.first().map(|t| Address::from_slice(&t.to_be_bytes::<32>()[12..]) == sender).unwrap_or(false),
        _ => false,
    });
    let _ = sender_flows;
    if untouched && !sender_in_inner_flow && run.rec.ops[0xff] == 0 {
        let mut post = run.pre.clone();
        apply_state(&mut post, &rs.state, state_clear(run.spec));
        let bal = |w: &r::World, a: &r::Address| w.get(a).map(|x| bu(x.balance)).unwrap_or_default();
        let price = effective_price(&run);
        let value_moved = if rs.result.is_success() { bu(run.tx.value) } else { BigUint::zero() };
        let want_debit = &price * BigUint::from(gas_used) + blob_fee(&run) + value_moved;
        let pre_s = bal(&run.pre, &run.tx.caller);
        let post_s = bal(&post, &run.tx.caller);
        ensure!(pre_s >= post_s && &pre_s - &post_s == want_debit, "C09|sender-debit", "sender paid {} but effective_price*gas_used + blob_fee + value = {want_debit} [price {price} gas_used {gas_used}]", BigUint::from(0u8) + &pre_s - std::cmp::min(&post_s, &pre_s));
        let base = if era(run.spec) >= Era::London { bu(run.block.base_fee) } else { BigUint::zero() };
        let want_reward = (&price - &base) * BigUint::from(gas_used);
        let pre_c = bal(&run.pre, &run.block.coinbase);
        let post_c = bal(&post, &run.block.coinbase);
        ensure!(post_c >= pre_c && &post_c - &pre_c == want_reward, "C09|coinbase-reward", "coinbase received {} but (effective_price - basefee)*gas_used = {want_reward}", &post_c - std::cmp::min(&pre_c, &post_c));
        o.labels.push("payments-checked");
    }
    o.nontrivial = (gas_used > intrinsic && gas_used < limit) || o.labels.contains(&"refund-at-cap") || o.labels.contains(&"floor-binding");
    o.labels.push(outcome_label(&rs.result));
    Ok(o)
}

pub fn c09(ctx: &mut Ctx) {
    let n = ctx.tier.pick(200_000, 4_000_000);
    let mut cfg = value_heavy_cfg();
    cfg.include_osaka = true;
    ctx.run_cases(
        "gas-rules",
        "world generator; invariants with the reference's independent intrinsic/floor calculators: max(intrinsic,floor) <= gas_used <= gas_limit, refund <= spent/q, halt consumes the whole limit (minus the EIP-7702 authority refund), sender debit = effective_price*gas_used + blob_fee + value, coinbase credit = (effective_price - basefee)*gas_used when no inner value flow touches them; exact gas equality with the reference is C01; non-trivial = intrinsic < gas_used < limit, or refund at cap, or floor binding",
        || world_case(&cfg),
        n,
        c09_case,
    );
    ctx.expect_labels("gas-rules", &["refund>0", "refund-at-cap", "floor-binding", "payments-checked", "halt", "revert", "success"]);
}

// ------------------------------------------------------------------------------------------
// generic monitor-driven checks on world cases: C07(a), C10, C11(b), C25
// ------------------------------------------------------------------------------------------

fn monitored(case: &WorldCase, cfg: RecCfg, prefixes: &[&str]) -> Result<Run, Vec<Failure>> {
    let run = run_case(case, cfg);
    let f = monitor_fails(&run.rec, prefixes);
    if !f.is_empty() {
        return Err(f);
    }
    if let Ok(rs) = &run.res {
        if rs.result.gas_used() > run.tx.gas_limit {
            return Err(vec![Failure::new("C25|gas_used>gas_limit", format!("gas_used {} > limit {}", rs.result.gas_used(), run.tx.gas_limit))]);
        }
    }
    Ok(run)
}

pub fn c10_case(case: &WorldCase) -> CaseResult {
    let run = monitored(case, RecCfg { statics: true, ..Default::default() }, &["C10"])?;
    let mut o = Outcome::new(run.rec.static_write_depth2 > 0);
    if run.rec.static_frames > 0 {
        o.labels.push("static-frame");
    }
    if run.rec.static_write_attempts > 0 {
        o.labels.push("write-attempt-in-static");
    }
    if run.rec.static_write_depth2 > 0 {
        o.labels.push("write-attempt-at-static-depth>=2");
    }
    Ok(o)
}

fn static_cfg() -> WorldCfg {
    let mut cfg = WorldCfg::default();
    cfg.invalid_pct = 0;
    cfg.include_osaka = true;
    cfg.n_contracts = 3..=5;
    cfg.prog.callees = (pool::IDX_CONTRACT0..pool::IDX_CONTRACT0 + 5).collect();
    cfg.prog.static_bias = true;
    cfg.prog.call_weight = 22;
    cfg
}

pub fn c10(ctx: &mut Ctx) {
    let n = ctx.tier.pick(150_000, 3_000_000);
    let cfg = static_cfg();
    ctx.run_cases(
        "static-monitor",
        "world generator biased to STATICCALL chains among 3-5 generated contracts (writes: SSTORE/TSTORE/LOG/CREATE/CREATE2/SELFDESTRUCT/CALL with value); the inspector snapshots the journaled state at every static call and compares it at the matching call_end (modulo warm/cold and touch), and requires every write instruction executed under is_static to end in an error; non-trivial = a write attempt executed while >= 2 static frames are open",
        || world_case(&cfg),
        n,
        c10_case,
    );
    ctx.expect_labels("static-monitor", &["static-frame", "write-attempt-in-static", "write-attempt-at-static-depth>=2"]);
    ctx.run_cases(
        "static-eof",
        "OSAKA: a legacy root STATICCALLs (or an EOF root EXTSTATICCALLs) a generated valid EOF contract A, which EXTCALL/EXTDELEGATECALL/EXTSTATICCALLs a second generated EOF contract B, a storing legacy contract, itself, EOAs and precompiles; both contain SSTORE/TSTORE/LOG/EOFCREATE/value-bearing EXTCALL templates; same monitor: state snapshot at every static call == state at its end, every write executed under is_static fails; non-trivial = a write attempt while >= 2 static frames are open",
        crate::eofcheck::static_eof_strategy,
        ctx.tier.pick(60_000, 1_500_000),
        crate::eofcheck::c10_eof_case,
    );
    ctx.expect_labels("static-eof", &["static-frame", "write-attempt-in-static", "write-attempt-at-static-depth>=2", "ran:EXTDELEGATECALL", "ran:EXTCALL", "ran:EXTSTATICCALL"]);
}

pub fn c11b_case(case: &WorldCase) -> CaseResult {
    let run = monitored(case, RecCfg { mem: true, safety: true, ..Default::default() }, &["C11"])?;
    Ok(Outcome::new(run.rec.mem_nested_growth).label_if(run.rec.max_depth >= 1, "nested-call").label_if(run.rec.mem_nested_growth, "child-grows-after-parent-grew"))
}

pub fn c11b(ctx: &mut Ctx) {
    let n = ctx.tier.pick(150_000, 3_000_000);
    let mut cfg = WorldCfg::default();
    cfg.invalid_pct = 0;
    cfg.include_osaka = true;
    cfg.prog.callees = (pool::IDX_CONTRACT0..pool::IDX_CONTRACT0 + 4).collect();
    ctx.run_cases(
        "memory-monitor",
        "world generator (memory ops + nested calls with return windows inside/partly beyond/beyond parent memory); inspector checks: child frame starts with empty memory, memory length word-aligned and non-decreasing inside a frame, parent memory after a call equals its snapshot at the CALL except exactly the window [out_off, out_off+min(out_len, returndata)), which equals the return data, MLOAD/MSTORE/MSTORE8 charge 3 + quadratic expansion (u128); non-trivial = a frame at depth >= 2 grew its memory",
        || world_case(&cfg),
        n,
        c11b_case,
    );
    ctx.expect_labels("memory-monitor", &["nested-call", "child-grows-after-parent-grew"]);
}

// C25: arbitrary bytes as code + generated programs, every spec
#[derive(Clone, Debug, Hash, Serialize, Deserialize)]
pub struct RawCodeCase {
    pub spec: u8,
    pub codes: Vec<Vec<u8>>,
    pub calldata: Vec<u8>,
    pub gas: u32,
    pub value: u8,
}

fn raw_world(c: &RawCodeCase) -> WorldCase {
    let mut accounts = vec![AccountSpec { addr: 0, balance: vgen::world::eth(1000), nonce: 0, code: Code::None, storage: vec![] }];
    for (i, code) in c.codes.iter().enumerate().take(3) {
        let mut code = code.clone();
        if code.first() == Some(&0xef) {
            code[0] = 0xee;
        }
        accounts.push(AccountSpec { addr: pool::IDX_CONTRACT0 + i as u8, balance: r::U256::from(1000), nonce: 1, code: Code::Raw(code), storage: vec![(0, r::U256::one())] });
    }
    WorldCase {
        spec: c.spec,
        accounts,
        block: vgen::world::BlockSpec { number: 300, timestamp: 1_700_000_000, gas_limit: 30_000_000, base_fee: r::U256::from(7), difficulty: r::U256::from(1), prevrandao: 1, excess_blob_gas: 0, coinbase: pool::IDX_COINBASE },
        tx: vgen::world::TxSpec {
            ty: r::TxType::Legacy,
            caller: 0,
            to: Some(pool::IDX_CONTRACT0),
            to_extra: None,
            value: r::U256::from(c.value as u64),
            data: vgen::world::DataSpec::Bytes(c.calldata.clone()),
            gas: vgen::world::GasSel::Fixed(30_000 + c.gas as u64),
            price: vgen::world::PriceSel::BaseFeePlus(1),
            priority: None,
            nonce: vgen::world::NonceSel::Correct,
            chain: vgen::world::ChainSel::Correct,
            access_list: vec![],
            access_extra: vec![],
            blobs: vec![],
            blob_fee_delta: 0,
            auths: vec![],
            balance: vgen::world::BalanceSel::AsIs,
        },
    }
}

fn c25_check(run: &Run) -> CaseResult {
    let steps = run.rec.steps;
    // termination bound: every instruction costs >= 1 gas except a handful of free ones per frame
    Ok(Outcome::new(steps >= 5)
        .label_if(run.rec.ops[0x60..=0x7f].iter().any(|c| *c > 0), "PUSH")
        .label_if(run.rec.ops[0x3e] > 0, "RETURNDATACOPY")
        .label_if(run.rec.ops[0x56] + run.rec.ops[0x57] > 0, "JUMP")
        .label_if(run.rec.max_depth >= 1, "nested-call")
        .label_if(matches!(run.res, Ok(ref rs) if rs.result.is_halt()), "halt"))
}

pub fn c25_raw_case(c: &RawCodeCase) -> CaseResult {
    let run = monitored(&raw_world(c), RecCfg { safety: true, mem: true, ..Default::default() }, &["C25", "C11|memory-not-word-aligned"])?;
    ensure!(run.res.is_ok(), "C25|valid-tx-rejected", "transaction unexpectedly rejected: {:?}", run.res.as_ref().err());
    c25_check(&run)
}

pub fn c25_world_case(case: &WorldCase) -> CaseResult {
    let run = monitored(case, RecCfg { safety: true, ..Default::default() }, &["C25", "C11|memory-not-word-aligned"])?;
    c25_check(&run)
}

fn raw_code() -> impl Strategy<Value = Vec<u8>> {
    let hot = prop_oneof![
        6 => any::<u8>(),
        3 => 0x60u8..=0x7f,
        3 => prop::sample::select(vec![0x5bu8, 0x56, 0x57, 0x5a, 0x80, 0x81, 0x90, 0x51, 0x52, 0x53, 0x37, 0x39, 0x3e, 0x3d, 0xf1, 0xf4, 0xfa, 0xf0, 0xf5, 0xf3, 0xfd, 0x5e, 0x20, 0xa0]),
        2 => prop::sample::select(vec![0u8, 1, 2, 0x20, 0x40, 0xff]),
    ];
    // stack pre-loaded with small words, then mostly defined opcodes: reaches deep executions
    let defined = prop_oneof![
        10 => prop::sample::select((0u8..=0xff).filter(|o| matches!(o, 0x01..=0x0b | 0x10..=0x1d | 0x20 | 0x30..=0x48 | 0x50..=0x5b | 0x5f | 0x80..=0xa4 | 0xf1 | 0xf2 | 0xf4 | 0xfa | 0x3d | 0x3e)).collect::<Vec<u8>>()),
        3 => (0u8..=0x60).prop_map(|v| v), // raw bytes that follow a PUSH1 (see below) or small opcodes
        1 => any::<u8>(),
    ];
    let deep = (4usize..14, prop::collection::vec((defined, any::<u8>()), 0..100)).prop_map(|(pre, body)| {
        let mut v = vec![];
        for i in 0..pre {
            v.extend_from_slice(&[0x60, (i as u8) * 7 % 97]);
        }
        for (op, imm) in body {
            v.push(op);
            if imm % 5 == 0 {
                v.extend_from_slice(&[0x60, imm % 70]);
            }
        }
        v
    });
    prop_oneof![
        4 => prop::collection::vec(hot.clone(), 0..120),
        6 => deep,
        1 => prop::collection::vec(any::<u8>(), 0..600),
        1 => (prop::collection::vec(hot, 0..60), 0x60u8..=0x7f, 0usize..33).prop_map(|(mut v, p, k)| { v.push(p); v.extend(std::iter::repeat(0x5b).take(k.min((p - 0x5f) as usize))); v }),
    ]
}

pub fn c25(ctx: &mut Ctx) {
    let n = ctx.tier.pick(200_000, 5_000_000);
    ctx.run_cases(
        "raw-bytes",
        "arbitrary/opcode-biased byte strings (incl. truncated trailing PUSH) as legacy code of up to 3 mutually callable contracts, arbitrary calldata, gas <= 2^24, every SpecId incl. OSAKA, run in a full Evm with debug assertions + overflow checks; the inspector checks at every step: instruction pointer inside the code buffer, stack <= 1024, memory word-aligned; any panic is a violation; non-trivial = >= 5 instructions executed",
        || (0u8..20, prop::collection::vec(raw_code(), 1..=3), prop::collection::vec(any::<u8>(), 0..70), prop_oneof![0u32..100_000, 0u32..(1 << 24)], 0u8..3).prop_map(|(spec, codes, calldata, gas, value)| RawCodeCase { spec, codes, calldata, gas, value }),
        n,
        c25_raw_case,
    );
    let mut cfg = WorldCfg::default();
    cfg.include_osaka = true;
    let n2 = ctx.tier.pick(100_000, 2_000_000);
    ctx.run_cases("generated-programs", "world generator programs under the same step monitor (all specs incl. OSAKA)", || world_case(&cfg), n2, c25_world_case);
    ctx.run_cases(
        "eof-containers",
        "OSAKA: generated valid EOF containers (RJUMPV with arbitrary 256-bit case operands, CALLF/RETF/JUMPF, DATA*, EXCHANGE, EXT*CALL, EOFCREATE / RETURNCONTRACT) run as called code and as create transactions under the same step monitor (instruction pointer inside the code section, stack <= 1024), debug assertions and overflow checks; a panic or a non-unwinding abort is a violation; non-trivial = an EXT*CALL or EOFCREATE was executed",
        crate::eofcheck::built_strategy,
        ctx.tier.pick(40_000, 800_000),
        crate::eofcheck::c25_eof_case,
    );
    ctx.expect_labels("eof-containers", &["ran:RJUMPV", "ran:CALLF", "ran:JUMPF", "ran:DATACOPY"]);
    ctx.expect_labels("raw-bytes", &["PUSH", "RETURNDATACOPY", "JUMP", "nested-call", "halt"]);
    ctx.assumptions.push("mutated / shipped EOF containers are additionally executed under the same monitor in C26".into());
}

// ------------------------------------------------------------------------------------------
// C28 observing inspectors do not change execution
// ------------------------------------------------------------------------------------------

fn state_proj(rs: &ResultAndState) -> Vec<(Address, String)> {
    let mut v: Vec<(Address, String)> = rs
        .state
        .iter()
        .map(|(a, acc)| {
            let mut slots: Vec<_> = acc.storage.iter().map(|(k, s)| (*k, s.original_value, s.present_value, s.is_cold)).collect();
            slots.sort();
            (*a, format!("{:?} {:?} {:?}", acc.info, acc.status, slots))
        })
        .collect();
    v.sort();
    v
}

pub fn c28_case(case: &WorldCase) -> CaseResult {
    let spec = spec_id(case.spec);
    let (pre, block, tx) = case.build();
    let base = run_plain(spec, &pre, &block, &tx);
    let env = || Box::new(make_env(spec, &block, &tx));
    macro_rules! with {
        ($insp:expr) => {{
            let mut evm = Evm::builder().with_db(ModelDB::new(pre.clone())).with_spec_id(spec).with_env(env()).with_external_context($insp).append_handler_register(inspector_handle_register).build();
            evm.transact().map_err(|e| format!("{e:?}"))
        }};
    }
    let runs: Vec<(&str, Result<ResultAndState, String>)> = vec![
        ("NoOpInspector", with!(NoOpInspector)),
        ("GasInspector", with!(GasInspector::default())),
        ("TracerEip3155", with!(TracerEip3155::new(Box::new(std::io::sink())))),
        ("TracerEip3155+memory", with!(TracerEip3155::new(Box::new(std::io::sink())).with_memory())),
    ];
    for (name, r) in &runs {
        match (&base, r) {
            (Err(a), Err(b)) => ensure!(a == b, format!("C28|{name}|error-differs"), "without inspector: {a}; with {name}: {b}"),
            (Ok(a), Ok(b)) => {
                ensure!(a.result == b.result, format!("C28|{name}|result-differs"), "result without inspector {:?} vs with {name} {:?}", a.result, b.result);
                let (pa_, pb) = (state_proj(a), state_proj(b));
                if pa_ != pb {
                    let d = pa_.iter().zip(pb.iter()).find(|(x, y)| x != y);
                    return Err(vec![Failure::new(format!("C28|{name}|state-differs"), format!("state differs with {name}: {:?}", d))]);
                }
            }
            (a, b) => return Err(vec![Failure::new(format!("C28|{name}|acceptance-differs"), format!("without inspector ok={}, with {name} ok={}", a.is_ok(), b.is_ok()))]),
        }
    }
    let nt = match &base {
        Ok(rs) => rs.state.len() > 3,
        _ => false,
    };
    Ok(Outcome::new(nt).label_if(base.is_ok(), "executed"))
}

pub fn c28(ctx: &mut Ctx) {
    let n = ctx.tier.pick(60_000, 1_500_000);
    let mut cfg = WorldCfg::default();
    cfg.include_osaka = true;
    cfg.invalid_pct = 3;
    ctx.run_cases(
        "observers",
        "world generator incl. OSAKA; each transaction is executed without inspector and with NoOpInspector, GasInspector, TracerEip3155 (sink writer, without and with memory): identical ExecutionResult (gas, output, logs) and identical EvmState projection (info, status flags, slot original/present/cold); non-trivial = more than 3 accounts in the output state (a nested call or create happened)",
        || world_case(&cfg),
        n,
        c28_case,
    );
    ctx.run_cases(
        "observers-eof",
        "OSAKA: generated valid EOF containers (EXT*CALL, EOFCREATE incl. early-rejected ones, RETURNCONTRACT, create transactions with EOF initcode) executed without inspector, with the recording inspector and with GasInspector: identical ExecutionResult and identical balances / nonces / storage of the output state; non-trivial = an EXT*CALL or EOFCREATE was executed",
        crate::eofcheck::built_strategy,
        ctx.tier.pick(20_000, 400_000),
        crate::eofcheck::c28_eof_case,
    );
}

// ------------------------------------------------------------------------------------------
// C29 hooks balanced / C30 selfdestruct notification (event-log analysis)
// ------------------------------------------------------------------------------------------

fn low160(w: U256) -> Address {
    Address::from_slice(&w.to_be_bytes::<32>()[12..])
}

/// Checks ordering rules over the recorded event log.
fn analyse_events(run: &Run, check_logs: bool, check_sd: bool) -> Vec<Failure> {
    let mut fails = vec![];
    if run.rec.truncated {
        return fails;
    }
    let ev = &run.rec.events;
    let cancun = era(run.spec) >= Era::Cancun;
    let mut i = 0;
    while i < ev.len() {
        match &ev[i] {
            Ev::StepEnd { op, result, last_log } if (0xa0..=0xa4).contains(op) => {
                if *result == InstructionResult::Continue && check_logs {
                    match ev.get(i + 1) {
                        Some(Ev::Log { log }) => {
                            if Some(log) != last_log.as_ref() {
                                fails.push(Failure::new("C29|log-callback-wrong-log", format!("log callback carried {log:?}, the journal's last log is {last_log:?}")));
                            }
                            i += 1;
                        }
                        other => fails.push(Failure::new("C29|log-callback-missing", format!("a completed LOG{} was followed by {:?} instead of a log notification", op - 0xa0, other.map(short_ev)))),
                    }
                }
            }
            Ev::Log { .. } if check_logs => fails.push(Failure::new("C29|log-callback-spurious", "log notification without a completed LOG instruction right before it")),
            Ev::Step { op: 0xff, addr, top, balance, .. } if check_sd => {
                // find the matching step_end (next event unless a panic cut it short)
                if let Some(Ev::StepEnd { op: 0xff, result, .. }) = ev.get(i + 1) {
                    let completed = *result == InstructionResult::SelfDestruct;
                    let next = ev.get(i + 2);
                    if completed {
                        let target = top.first().map(|t| low160(*t)).unwrap_or_default();
                        let created_here = run.rec.created.contains(addr) || created_before(ev, i, addr);
                        let nothing_leaves = cancun && target == *addr && !created_here;
                        match next {
                            Some(Ev::Selfdestruct { contract, target: t, value }) => {
                                if contract != addr || *t != target {
                                    fails.push(Failure::new("C30|notification-wrong-parties", format!("SELFDESTRUCT of {addr} to {target} was reported as ({contract}, {t}, {value})")));
                                } else if !nothing_leaves && value != balance {
                                    fails.push(Failure::new("C30|notification-wrong-value", format!("SELFDESTRUCT of {addr} (balance {balance}) to {target} reported value {value}")));
                                }
                                i += 2;
                            }
                            other => {
                                let sig = if nothing_leaves { "C30|notification-missing|cancun-self-target" } else { "C30|notification-missing" };
                                fails.push(Failure::new(sig, format!("completed SELFDESTRUCT of {addr} to {target} (balance {balance}) was followed by {:?} instead of a selfdestruct notification", other.map(short_ev))));
                                i += 1;
                            }
                        }
                    } else {
                        if let Some(Ev::Selfdestruct { contract, target, value }) = next {
                            fails.push(Failure::new("C30|notification-spurious|failed-selfdestruct", format!("SELFDESTRUCT that ended with {result:?} was reported as selfdestruct({contract}, {target}, {value})")));
                            i += 2;
                        } else {
                            i += 1;
                        }
                    }
                }
            }
            Ev::Selfdestruct { contract, target, value } if check_sd => fails.push(Failure::new("C30|notification-spurious", format!("selfdestruct({contract}, {target}, {value}) reported without a completed SELFDESTRUCT right before it"))),
            _ => {}
        }
        i += 1;
    }
    fails
}

fn created_before(ev: &[Ev], upto: usize, addr: &Address) -> bool {
    // the executing account is being created by an enclosing create frame: its constructor is running, or code
    // running on its behalf (DELEGATECALL / CALLCODE from the constructor executes at the same address).
    // A frame merely *nested inside* a constructor (the constructor CALLs an older contract) is not.
    let mut open: Vec<usize> = vec![];
    for (i, e) in ev[..upto].iter().enumerate() {
        match e {
            Ev::Create { .. } | Ev::EofCreate { .. } | Ev::Call { .. } => open.push(i),
            Ev::CreateEnd { .. } | Ev::EofCreateEnd { .. } | Ev::CallEnd { .. } => {
                open.pop();
            }
            _ => {}
        }
    }
    for start in open {
        if !matches!(ev[start], Ev::Create { .. } | Ev::EofCreate { .. }) {
            continue;
        }
        // the matching end notification carries the address under construction
        let mut depth = 0i32;
        for e in &ev[start..] {
            match e {
                Ev::Create { .. } | Ev::EofCreate { .. } | Ev::Call { .. } => depth += 1,
                Ev::CallEnd { .. } => depth -= 1,
                Ev::CreateEnd { address, .. } | Ev::EofCreateEnd { address, .. } => {
                    depth -= 1;
                    if depth == 0 {
                        if address.as_ref() == Some(addr) {
                            return true;
                        }
                        break;
                    }
                }
                _ => {}
            }
            if depth == 0 {
                break;
            }
        }
    }
    false
}

fn short_ev(e: &Ev) -> String {
    match e {
        Ev::Call { inputs, .. } => format!("Call(to {})", inputs.target_address),
        Ev::CallEnd { result, .. } => format!("CallEnd({result:?})"),
        Ev::Create { .. } => "Create".into(),
        Ev::CreateEnd { result, .. } => format!("CreateEnd({result:?})"),
        Ev::Step { op, .. } => format!("Step({op:#x})"),
        Ev::StepEnd { op, result, .. } => format!("StepEnd({op:#x},{result:?})"),
        Ev::Log { .. } => "Log".into(),
        Ev::Selfdestruct { contract, target, value } => format!("Selfdestruct({contract},{target},{value})"),
        other => format!("{other:?}").chars().take(60).collect(),
    }
}

#[derive(Clone, Debug, Hash, Serialize, Deserialize)]
pub struct HookCase {
    pub world: WorldCase,
    pub overrides: Vec<u8>,
}

pub fn c29_case(c: &HookCase) -> CaseResult {
    let cfg = RecCfg { override_calls: c.overrides.iter().map(|x| *x as u32).collect(), ..Default::default() };
    let run = run_case(&c.world, cfg);
    let mut fails = monitor_fails(&run.rec, &["C29"]);
    fails.extend(analyse_events(&run, true, false));
    if !fails.is_empty() {
        return Err(fails);
    }
    let early = run.rec.events.iter().any(|e| matches!(e, Ev::CallEnd { had_interp: false, .. } | Ev::CreateEnd { had_interp: false, .. }));
    Ok(Outcome::new(early && run.rec.steps > 0)
        .label_if(run.rec.overridden > 0, "inspector-override")
        .label_if(early, "call-without-frame")
        .label_if(run.rec.events.iter().any(|e| matches!(e, Ev::Log { .. })), "log")
        .label_if(run.rec.events.iter().any(|e| matches!(e, Ev::CreateEnd { .. })), "create"))
}

pub fn c29(ctx: &mut Ctx) {
    let n = ctx.tier.pick(150_000, 3_000_000);
    let mut cfg = WorldCfg::default();
    cfg.include_osaka = true;
    cfg.invalid_pct = 2;
    ctx.run_cases(
        "hooks",
        "world generator (call graphs incl. precompiles, value-transfer failures, early rejections) with a scripted inspector that short-circuits the k-th call/create notification for generated k; the recorder replays notifications on a stack: every call/create/eofcreate start is closed by exactly one end of the same kind with equal inputs (LIFO), nothing stays open, step/step_end alternate within a frame, initialize_interp once per frame, one log notification (carrying the journal's log) right after each completed LOGn; non-trivial = a call/create that ended without an interpreter frame (precompile, empty code, early rejection, override)",
        || (world_case(&cfg), prop::collection::vec(0u8..12, 0..3)).prop_map(|(world, overrides)| HookCase { world, overrides }),
        n,
        c29_case,
    );
    ctx.expect_labels("hooks", &["inspector-override", "call-without-frame", "log", "create"]);
    ctx.run_cases(
        "eof-hooks",
        "OSAKA: generated valid EOF containers (EXT*CALL to EOF / legacy / empty / precompile targets incl. rejected ones, EOFCREATE with endowments 0 / 1 / more than the balance so that some are rejected before a frame exists, RETURNCONTRACT, create transactions with EOF initcode) under the recording inspector: every call / create / eofcreate start is closed by exactly one end of the same kind with equal inputs in LIFO order, step/step_end alternate, nothing stays open; a panic inside the inspector handler register is a violation; non-trivial = an EXT*CALL or EOFCREATE was executed",
        crate::eofcheck::built_strategy,
        ctx.tier.pick(40_000, 800_000),
        crate::eofcheck::c29_eof_case,
    );
    ctx.expect_labels("eof-hooks", &["ran:EOFCREATE", "ran:EXTCALL", "ran:RETURNCONTRACT"]);
}

pub fn c30_case(case: &WorldCase) -> CaseResult {
    let run = run_case(case, RecCfg::default());
    let fails = analyse_events(&run, false, true);
    if !fails.is_empty() {
        return Err(fails);
    }
    let ev = &run.rec.events;
    let mut preceded = false;
    let mut completed = false;
    for (i, e) in ev.iter().enumerate() {
        if let Ev::Step { op: 0xff, .. } = e {
            if let Some(Ev::StepEnd { result: InstructionResult::SelfDestruct, .. }) = ev.get(i + 1) {
                completed = true;
                // a value-bearing call completed earlier in the same frame => a journal entry precedes it
                if ev[..i].iter().rev().take_while(|x| !matches!(x, Ev::InitInterp { .. })).any(|x| matches!(x, Ev::CallEnd { inputs, .. } if inputs.transfers_value())) {
                    preceded = true;
                }
            }
        }
    }
    Ok(Outcome::new(preceded).label_if(completed, "selfdestruct-completed").label_if(preceded, "journal-entry-before-selfdestruct").label_if(run.rec.ops[0xff] > 0 && !completed, "selfdestruct-failed"))
}

/// Directed generator: contracts that (optionally after a value-bearing call) self-destruct.
fn sd_world() -> impl Strategy<Value = WorldCase> {
    let mut cfg = WorldCfg::default();
    cfg.invalid_pct = 0;
    cfg.include_osaka = false;
    let targets = prop_oneof![3 => Just(Arg::Addr(pool::IDX_CONTRACT0)), 2 => Just(Arg::Addr(pool::IDX_CONTRACT0 + 1)), 2 => Just(Arg::Addr(pool::IDX_NONE0)), 1 => Just(Arg::Addr(0)), 1 => Just(Arg::Addr(pool::IDX_CONTRACT0 + 2))];
    (world_case(&cfg), targets, prop::collection::vec(any::<u8>(), 4), prop_oneof![Just(0u64), Just(1), Just(500)], 0u8..4)
        .prop_map(|(mut w, target, r, val, shape)| {
            // contract 0: [value call to contract 1]? ; [static self-call]? ; SELFDESTRUCT(target)
            let mut body = vec![];
            if r[0] % 2 == 0 {
                body.push(Stmt::Call { kind: 0xf1, gas: Arg::N(30_000), to: Arg::Addr(pool::IDX_CONTRACT0 + 1), value: Arg::N(val), in_off: Arg::N(0), in_len: Arg::N(0), out_off: Arg::N(0), out_len: Arg::N(0), status: Sink::Pop, rdsize: None, rdcopy: None });
            }
            if r[1] % 4 == 0 {
                body.push(Stmt::Op { op: 0x55, args: vec![Arg::Key(1), Arg::N(7)], sink: Sink::Pop });
            }
            let end = match shape {
                0 => Term::SelfDestruct(target.clone()),
                1 => Term::SelfDestruct(Arg::Addr(pool::IDX_CONTRACT0)),
                2 => Term::SelfDestruct(target.clone()),
                _ => Term::SelfDestruct(Arg::AddrDirty(pool::IDX_CONTRACT0 + 1)),
            };
            if shape == 2 {
                // failing SELFDESTRUCT: empty stack (underflow) after the call
                body.push(Stmt::Raw(vec![0xff]));
            }
            let c0 = Program { body, end };
            // contract 2 statically calls / plainly calls contract 0
            let caller_prog = Program {
                body: vec![Stmt::Call { kind: if r[2] % 3 == 0 { 0xfa } else { 0xf1 }, gas: Arg::GasAll, to: Arg::Addr(pool::IDX_CONTRACT0), value: Arg::N(0), in_off: Arg::N(0), in_len: Arg::N(0), out_off: Arg::N(0), out_len: Arg::N(0), status: Sink::Sstore(0), rdsize: None, rdcopy: None }],
                end: Term::Stop,
            };
            w.accounts.retain(|a| !(pool::IDX_CONTRACT0..pool::IDX_CONTRACT0 + 3).contains(&a.addr));
            w.accounts.push(AccountSpec { addr: pool::IDX_CONTRACT0, balance: r::U256::from(if r[3] % 3 == 0 { 0u64 } else { 1_000_000 }), nonce: 1, code: Code::Prog(c0), storage: vec![] });
            w.accounts.push(AccountSpec { addr: pool::IDX_CONTRACT0 + 1, balance: r::U256::from(5u64), nonce: 1, code: Code::Prog(Program { body: vec![], end: Term::Stop }), storage: vec![] });
            w.accounts.push(AccountSpec { addr: pool::IDX_CONTRACT0 + 2, balance: r::U256::from(5u64), nonce: 1, code: Code::Prog(caller_prog), storage: vec![] });
            w.tx.to = Some(if r[2] % 2 == 0 { pool::IDX_CONTRACT0 } else { pool::IDX_CONTRACT0 + 2 });
            w.tx.ty = r::TxType::Legacy;
            w.tx.gas = vgen::world::GasSel::Fixed(400_000);
            w.tx.value = r::U256::zero();
            w.tx.balance = vgen::world::BalanceSel::AsIs;
            w
        })
}

pub fn c30(ctx: &mut Ctx) {
    let n = ctx.tier.pick(80_000, 2_000_000);
    ctx.run_cases(
        "selfdestruct-directed",
        "directed programs: [value-bearing call]? [SSTORE]? then SELFDESTRUCT to self/other/fresh/sender (also with dirty upper address bits), with and without balance, called directly, through CALL or through STATICCALL, or failing with stack underflow, all specs; expectation from the inspector's own observation at the instruction (executing address, beneficiary = top of stack, balance): exactly one notification right after each completed SELFDESTRUCT with those parties and that value, none otherwise; non-trivial = a value-bearing call completed in the same frame before the SELFDESTRUCT (an unrelated journal entry precedes it)",
        sd_world,
        n,
        c30_case,
    );
    let mut cfg = WorldCfg::default();
    cfg.include_osaka = true;
    cfg.invalid_pct = 0;
    let n2 = ctx.tier.pick(100_000, 2_000_000);
    ctx.run_cases("selfdestruct-generated", "world generator programs under the same expectation", || world_case(&cfg), n2, c30_case);
    ctx.expect_labels("selfdestruct-directed", &["selfdestruct-completed", "journal-entry-before-selfdestruct", "selfdestruct-failed"]);
}

// ------------------------------------------------------------------------------------------
// C07 depth
// ------------------------------------------------------------------------------------------

pub fn c07_world_case(case: &WorldCase) -> CaseResult {
    let run = monitored(case, RecCfg::default(), &["C07"])?;
    let failing = run.rec.events.iter().any(|e| matches!(e, Ev::CallEnd { result, .. } | Ev::CreateEnd { result, .. } if !result.is_ok()));
    ensure!(true, "", "");
    Ok(Outcome::new(failing && run.rec.max_depth >= 1).label_if(failing, "failing-call-or-create"))
}

#[derive(Clone, Debug, Hash, Serialize, Deserialize)]
pub struct DepthCase {
    pub spec: u8,
    /// sibling prefix: (kind, outcome) codes
    pub prefix: Vec<(u8, u8)>,
}

const KINDS: [u8; 6] = [0xf1, 0xf2, 0xf4, 0xfa, 0xf0, 0xf5];

/// Outcomes: 0 ok, 1 revert, 2 invalid opcode, 3 out of gas (tiny gas), 4 insufficient balance,
/// 5 precompile error, 6 precompile oog, 7 static violation, 8 value overflow into the whale,
/// 9 create collision, 10 initcode returns 0xEF, 11 oversized initcode, 12 code too large,
/// 13 create endowment overflows the (pre-funded) target address
const N_OUTCOMES: u8 = 14;

fn helper(i: u8) -> u8 {
    pool::IDX_CONTRACT0 + 1 + i
}

fn depth_world(c: &DepthCase) -> WorldCase {
    use vgen::prog::Init;
    let spec = c.spec;
    let pre150 = spec < 4;
    let call = |kind: u8, gas: Arg, to: Arg, value: Arg| Stmt::Call { kind, gas, to, value, in_off: Arg::N(0), in_len: Arg::N(0), out_off: Arg::N(0), out_len: Arg::N(0), status: Sink::Pop, rdsize: None, rdcopy: None };
    let mut body = vec![];
    for (k, outcome) in &c.prefix {
        let mut kind = KINDS[*k as usize % KINDS.len()];
        // opcodes not yet available in this spec would halt the probing frame itself
        if (kind == 0xf4 && spec < 2) || (kind == 0xfa && spec < 6) {
            kind = 0xf1;
        }
        if kind == 0xf5 && (spec < 7 || outcome % N_OUTCOMES == 13) {
            kind = 0xf0;
        }
        let is_create = kind == 0xf0 || kind == 0xf5;
        let g = |n: u64| Arg::N(n);
        let st = if is_create {
            let (init, value) = match outcome % N_OUTCOMES {
                0 => (Init::ReturnBytes(vec![0x00]), Arg::N(0)),
                1 => (Init::Revert, Arg::N(0)),
                2 | 3 => (Init::Invalid, Arg::N(0)),
                4 | 8 => (Init::ReturnBytes(vec![0x00]), Arg::W(r::U256::MAX)),
                9 => (Init::ReturnBytes(vec![0x01]), Arg::N(0)), // repeated below => collision for CREATE2
                10 => (Init::ReturnBytes(vec![0xef, 0x00]), Arg::N(0)),
                11 => (Init::Big(49153), Arg::N(0)),
                12 => (Init::ReturnZeros(24577), Arg::N(0)),
                // 13: the first three CREATE addresses of the prefix contract hold 2^256-1 wei (see below)
                _ => (Init::Empty, Arg::N(1)),
            };
            let s = Stmt::Create { create2: kind == 0xf5, value, salt: Arg::N(7), init: init.clone(), status: Sink::Pop };
            if outcome % N_OUTCOMES == 9 {
                body.push(s.clone());
            }
            s
        } else {
            match outcome % N_OUTCOMES {
                0 => call(kind, g(50_000), Arg::Addr(helper(0)), Arg::N(0)),
                1 => call(kind, g(50_000), Arg::Addr(helper(1)), Arg::N(0)),
                2 => call(kind, g(50_000), Arg::Addr(helper(2)), Arg::N(0)),
                3 => call(kind, g(if pre150 { 100 } else { 3 }), Arg::Addr(helper(3)), Arg::N(0)),
                4 => call(kind, g(50_000), Arg::Addr(helper(0)), Arg::W(r::U256::MAX)),
                5 => call(kind, g(100_000), Arg::Addr(pool::IDX_PRECOMPILE0 + 8), Arg::N(0)), // blake2f with empty input: error (Istanbul+), empty account before
                6 => call(kind, g(10), Arg::Addr(pool::IDX_PRECOMPILE0), Arg::N(0)),           // ecrecover with 10 gas
                7 => call(if spec >= 6 { 0xfa } else { kind }, g(50_000), Arg::Addr(pool::IDX_EMPTY0), Arg::N(0)), // callee SSTOREs
                8 => call(kind, g(50_000), Arg::Addr(pool::IDX_WHALE), Arg::N(100_000)),
                _ => call(kind, g(50_000), Arg::Addr(pool::IDX_NONE0), Arg::N(1)),
            }
        };
        body.push(st);
    }
    // the sibling prefix runs in its own frame with a fixed gas allowance (a failing CREATE burns
    // all gas it was given, which must not starve the probe); a depth leak there is permanent
    // and therefore still visible to the probe that follows
    let prefix_prog = Program { body: std::mem::take(&mut body), end: Term::Stop };
    body.push(call(0xf1, Arg::N(6_000_000), Arg::Addr(pool::IDX_EMPTY0 + 1), Arg::N(0)));
    // probe call: returns deepest level reached in memory[32..64]; store it
    body.push(Stmt::Raw({
        let mut a = vgen::prog::Asm::default();
        a.push_n(1);
        a.push_n(0);
        a.op(0x52); // mem[0] = 1
        a.push_n(32); // out len
        a.push_n(32); // out off
        a.push_n(32); // in len
        a.push_n(0); // in off
        a.push_n(0); // value
        a.push_u256(pool::addr_word(&pool::addr(pool::IDX_CONTRACT0 + 5)));
        probe_gas(&mut a, pre150);
        a.op(0xf1);
        a.op(0x50);
        a.push_n(32);
        a.op(0x51);
        a.push_n(0);
        a.op(0x55); // sstore(0, deepest)
        a.code
    }));
    let top = Program { body, end: Term::Stop };
    // the probe: d = calldataload(0); mem[0] = d+1; ok = call(self, in=mem[0..32], out=mem[32..64]); return ok ? mem[32..64] : d
    let probe = {
        let mut a = vgen::prog::Asm::default();
        a.push_n(0);
        a.op(0x35); // d
        a.op(0x80); // d d
        a.push_n(1);
        a.op(0x01); // d+1 d
        a.push_n(0);
        a.op(0x52); // mem[0]=d+1 ; stack: d
        a.push_n(32);
        a.push_n(32);
        a.push_n(32);
        a.push_n(0);
        a.push_n(0);
        a.op(0x30); // ADDRESS
        probe_gas(&mut a, pre150);
        a.op(0xf1); // ok d
        // if ok jump to L
        let l_pos_fixup = a.code.len();
        a.code.extend_from_slice(&[0x61, 0, 0, 0x57]); // PUSH2 L JUMPI
        // not ok: return d
        a.push_n(0);
        a.op(0x52); // mem[0] = d
        a.push_n(32);
        a.push_n(0);
        a.op(0xf3);
        let l = a.code.len();
        a.code[l_pos_fixup + 1] = (l >> 8) as u8;
        a.code[l_pos_fixup + 2] = l as u8;
        a.op(0x5b);
        a.push_n(32);
        a.push_n(32);
        a.op(0xf3);
        a.code
    };
    let acct = |addr: u8, code: Code, balance: u64| AccountSpec { addr, balance: r::U256::from(balance), nonce: 1, code, storage: vec![] };
    let prog = |body: Vec<Stmt>, end: Term| Code::Prog(Program { body, end });
    let mut accounts = vec![
        AccountSpec { addr: 0, balance: r::U256::from(10u64).pow(r::U256::from(30)), nonce: 0, code: Code::None, storage: vec![] },
        acct(pool::IDX_CONTRACT0, Code::Prog(top), 1_000_000),
        acct(helper(0), prog(vec![], Term::Stop), 0),
        acct(helper(1), prog(vec![], Term::Revert(Arg::N(0), Arg::N(0))), 0),
        acct(helper(2), prog(vec![], Term::Invalid), 0),
        acct(helper(3), Code::Raw(vec![0x5b, 0x60, 0x00, 0x56]), 0),
        acct(pool::IDX_CONTRACT0 + 5, Code::Raw(probe), 0),
    ];
    // helper(4) = IDX_CONTRACT0+5 would clash with the probe: the SSTORE-ing callee lives at the "empty" slot
    accounts.push(AccountSpec { addr: pool::IDX_EMPTY0, balance: r::U256::one(), nonce: 1, code: prog(vec![Stmt::Op { op: 0x55, args: vec![Arg::Key(1), Arg::N(1)], sink: Sink::Pop }], Term::Stop), storage: vec![] });
    accounts.push(AccountSpec { addr: pool::IDX_WHALE, balance: r::U256::MAX - r::U256::from(10u64), nonce: 0, code: Code::None, storage: vec![] });
    accounts.push(AccountSpec { addr: pool::IDX_EMPTY0 + 1, balance: r::U256::from(1_000_000u64), nonce: 1, code: Code::Prog(prefix_prog), storage: vec![] });
    if c.prefix.iter().any(|(k, o)| o % N_OUTCOMES == 13 && matches!(KINDS[*k as usize % KINDS.len()], 0xf0 | 0xf5)) {
        // endowment overflow: the addresses the prefix contract's first CREATEs map to are already as rich as possible
        for i in 63u8..=65 {
            accounts.push(AccountSpec { addr: i, balance: r::U256::MAX, nonce: 0, code: Code::None, storage: vec![] });
        }
    }
    WorldCase {
        spec,
        accounts,
        block: vgen::world::BlockSpec { number: 300, timestamp: 1_700_000_000, gas_limit: 1u64 << 40, base_fee: r::U256::from(7), difficulty: r::U256::from(1), prevrandao: 1, excess_blob_gas: 0, coinbase: pool::IDX_COINBASE },
        tx: vgen::world::TxSpec {
            ty: r::TxType::Legacy,
            caller: 0,
            to: Some(pool::IDX_CONTRACT0),
            to_extra: None,
            value: r::U256::zero(),
            data: vgen::world::DataSpec::Bytes(vec![]),
            gas: vgen::world::GasSel::Fixed(1u64 << 40),
            price: vgen::world::PriceSel::BaseFeePlus(0),
            priority: None,
            nonce: vgen::world::NonceSel::Correct,
            chain: vgen::world::ChainSel::Correct,
            access_list: vec![],
            access_extra: vec![],
            blobs: vec![],
            blob_fee_delta: 0,
            auths: vec![],
            balance: vgen::world::BalanceSel::AsIs,
        },
    }
}

fn probe_gas(a: &mut vgen::prog::Asm, pre150: bool) {
    if pre150 {
        // before EIP-150 the requested gas must be available: pass gas - 3000
        a.push_n(3000);
        a.op(0x5a);
        a.op(0x03);
    } else {
        a.op(0x5a);
    }
}

pub fn c07_depth_case(c: &DepthCase) -> CaseResult {
    let w = depth_world(c);
    let run = run_case(&w, RecCfg::default());
    let f = monitor_fails(&run.rec, &["C07"]);
    if !f.is_empty() {
        return Err(f);
    }
    let rs = match &run.res {
        Ok(rs) => rs,
        Err(e) => return Err(vec![Failure::new("C07|harness|probe-tx-rejected", format!("probe transaction rejected: {e}"))]),
    };
    ensure!(rs.result.is_success(), "C07|harness|probe-tx-failed", "probe transaction did not succeed: {:?}", rs.result);
    let top = ra(&pool::addr(pool::IDX_CONTRACT0));
    let deepest = rs.state.get(&top).and_then(|a| a.storage.get(&U256::ZERO)).map(|s| s.present_value).unwrap_or_default();
    ensure!(
        deepest == U256::from(1024),
        "C07|reachable-depth",
        "after prefix {:?} the probe reached {deepest} nested levels below the transaction frame instead of 1024 [spec {:?}]",
        c.prefix,
        run.spec
    );
    // the reference agrees (specs <= Prague)
    if let Some(fork) = w.fork() {
        let (pre, block, tx) = w.build();
        if let r::TxOutcome::Executed(x) = r::execute(fork, &block, &pre, &tx, &RevmPrecompiles, &mut r::NoTracer) {
            let want = x.post.get(&pool::addr(pool::IDX_CONTRACT0)).and_then(|a| a.storage.get(&r::U256::zero())).copied().unwrap_or_default();
            ensure!(want == r::U256::from(1024), "C07|harness|reference-depth", "reference EVM reached {want} levels");
        }
    }
    let failing = c.prefix.iter().any(|(_, o)| o % N_OUTCOMES != 0);
    let mut o = Outcome::new(failing);
    for (k, oc) in &c.prefix {
        let _ = k;
        o.labels.push(match oc % N_OUTCOMES {
            0 => "prefix:ok",
            1 => "prefix:revert",
            2 => "prefix:invalid",
            3 => "prefix:oog",
            4 => "prefix:insufficient-balance",
            5 => "prefix:precompile-error",
            6 => "prefix:precompile-oog",
            7 => "prefix:static-violation",
            8 => "prefix:value-overflow",
            9 => "prefix:collision",
            10 => "prefix:0xEF-code",
            11 => "prefix:initcode-too-large",
            12 => "prefix:code-too-large",
            _ => "prefix:create-endowment-overflow",
        });
    }
    o.labels.dedup();
    Ok(o)
}

pub fn c07(ctx: &mut Ctx) {
    let n = ctx.tier.pick(3_000, 100_000);
    ctx.run_cases(
        "depth-probe",
        "directed: a sequence of 0-6 sibling CALL/CALLCODE/DELEGATECALL/STATICCALL/CREATE/CREATE2 with forced outcomes (ok, revert, invalid opcode, out of gas, insufficient balance, precompile error/OOG, static violation, value overflow into a 2^256-10 whale, CREATE2 collision, 0xEF code, oversized initcode, oversized code, CREATE endowment overflowing a pre-funded 2^256-1 target) followed by a self-recursive probe that returns the deepest level reached; oracle: exactly 1024 levels whatever the prefix (constant; reference EVM agrees), and journal depth at every *_end equals the depth at the matching start; non-trivial = prefix with a failing or early-rejected sibling; every spec FRONTIER..OSAKA",
        || (0u8..20, prop::collection::vec((0u8..6, 0u8..N_OUTCOMES), 0..6)).prop_map(|(spec, prefix)| DepthCase { spec, prefix }),
        n,
        c07_depth_case,
    );
    let mut cfg = WorldCfg::default();
    cfg.include_osaka = true;
    cfg.invalid_pct = 0;
    let n2 = ctx.tier.pick(150_000, 3_000_000);
    ctx.run_cases(
        "depth-monitor",
        "world generator (all specs incl. OSAKA): journal depth at every call/create end notification equals the depth at its start; non-trivial = a failing call/create occurred",
        || world_case(&cfg),
        n2,
        c07_world_case,
    );
    ctx.run_cases(
        "eof-call-kinds",
        "generated valid EOF containers (C26's builder) executed under OSAKA: EXTCALL / EXTDELEGATECALL / EXTSTATICCALL to EOF, legacy, empty and precompile targets (incl. the rejected EXTDELEGATECALL to a non-EOF target), EOFCREATE incl. failing ones; oracle: journal depth at every end notification equals the depth at its start and is balanced at the end; non-trivial = an EXT*CALL or EOFCREATE was executed",
        crate::eofcheck::built_strategy,
        ctx.tier.pick(30_000, 600_000),
        crate::eofcheck::c07_eof_case,
    );
    ctx.expect_labels("eof-call-kinds", &["ran:EXTCALL", "ran:EXTDELEGATECALL", "ran:EXTSTATICCALL", "ran:EOFCREATE"]);
    ctx.expect_labels(
        "depth-probe",
        &["prefix:ok", "prefix:revert", "prefix:invalid", "prefix:oog", "prefix:insufficient-balance", "prefix:precompile-error", "prefix:precompile-oog", "prefix:static-violation", "prefix:value-overflow", "prefix:collision", "prefix:0xEF-code", "prefix:initcode-too-large", "prefix:code-too-large", "prefix:create-endowment-overflow"],
    );
    ctx.assumptions.push("the probe transaction uses gas limit 2^40 (needed to keep >= 1 call's worth of gas at depth 1024 under the 63/64 rule); EOF call kinds are covered by the depth monitor (part eof-call-kinds), not by the 1024-level probe".into());
    let _ = GenCfg::default();
}
