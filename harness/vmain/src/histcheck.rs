//! History / configuration checks: C02 (validity + no effect), C05(b) precompile availability,
//! C21 (creation collision), C22 (reward switch), C31 (Evm reuse), C34 (cold/warm accounting).
use crate::common::{era, Era};
use crate::evmrun::*;
use crate::txcheck::{evaluate, out_of_domain, trace_divergence};
use refevm as r;
use revm::db::{CacheDB, DatabaseCommit, State, WrapDatabaseRef};
use revm::primitives::{Address, Bytes, ExecutionResult, HandlerCfg, SpecId, KECCAK_EMPTY, U256};
use revm::{Database, Evm, Handler};
use serde::{Deserialize, Serialize};
use vcore::proptest::prelude::*;
use vcore::{ensure, CaseResult, Ctx, Failure, Outcome};
use vgen::pool;
use vgen::prog::{Arg, Init, Program, Sink, Stmt, Term};
use vgen::world::{self, world_case, AccountSpec, BlockSpec, Code, TxSpec, WorldCase, WorldCfg};

/// Answers of a database to reads of every pool address / key (reads, not internal maps).
pub fn reads<DB: Database>(db: &mut DB) -> Vec<String>
where
    DB::Error: std::fmt::Debug,
{
    let mut out = vec![];
    for i in 0..63u8 {
        let a = ra(&pool::addr(i));
        let info = db.basic(a).expect("db read");
        match info {
            None => out.push(format!("{i}: none")),
            Some(info) => {
                let code = match &info.code {
                    Some(c) => c.original_bytes().to_vec(),
                    None if info.code_hash == KECCAK_EMPTY => vec![],
                    None => db.code_by_hash(info.code_hash).expect("db read").original_bytes().to_vec(),
                };
                let mut s = format!("{i}: bal {} nonce {} codehash {} code {}", info.balance, info.nonce, info.code_hash, hex::encode(&code));
                for k in 0..7u8 {
                    let v = db.storage(a, ru(pool::key(k))).expect("db read");
                    if !v.is_zero() {
                        s.push_str(&format!(" [{k}]={v}"));
                    }
                }
                out.push(s);
            }
        }
    }
    out
}

pub fn has_storage_only_account(w: &r::World) -> bool {
    w.values().any(|a| a.code.is_empty() && a.nonce == 0 && !a.storage.is_empty())
}

pub fn first_diff(a: &[String], b: &[String]) -> String {
    for (x, y) in a.iter().zip(b.iter()) {
        if x != y {
            return format!("`{x}` vs `{y}`");
        }
    }
    format!("lengths {} vs {}", a.len(), b.len())
}

// ------------------------------------------------------------------------------------------
// C02
// ------------------------------------------------------------------------------------------

fn boundary(t: &TxSpec) -> bool {
    use world::*;
    matches!(t.gas, GasSel::Intrinsic(d) | GasSel::Floor(d) if (-1..=1).contains(&d))
        || matches!(t.gas, GasSel::BlockLimit(_))
        || matches!(t.price, PriceSel::BaseFeePlus(d) if (-1..=1).contains(&d))
        || matches!(t.nonce, NonceSel::Delta(_))
        || matches!(t.balance, BalanceSel::MaxCost(_))
        || (t.ty == r::TxType::Eip4844 && (t.blob_fee_delta <= 0 || matches!(t.blobs.len(), 0 | 6 | 7 | 9 | 10)))
        || matches!(t.chain, ChainSel::Wrong | ChainSel::Zero)
}

pub fn c02a_case(case: &WorldCase) -> CaseResult {
    let ev = evaluate(case);
    let Some(_fork) = ev.fork else { return Ok(Outcome::trivial()) };
    if let Some(l) = out_of_domain(&ev) {
        return Ok(Outcome::trivial().label(l));
    }
    let reference = ev.reference.as_ref().unwrap();
    let mut o = Outcome::new(boundary(&case.tx));
    match (reference, &ev.revm) {
        (r::TxOutcome::Rejected(why), Ok(rs)) => {
            let rule = why.split(" not available").next().unwrap_or(why);
            let rule = if rule.starts_with("transaction type") { "transaction type not available in fork" } else { rule };
            return Err(vec![Failure::new(
                format!("C02|revm-accepts-invalid|{rule}"),
                format!("the specification rejects this transaction ({why}) but revm executed it: {:?} [spec {:?}, type {:?}, to {:?}]", rs.result, ev.spec, ev.tx.tx_type, ev.tx.to.map(hex::encode)),
            )]);
        }
        (r::TxOutcome::Executed(_), Err(e)) => {
            let variant: String = e.chars().take_while(|c| c.is_alphanumeric() || *c == '(').collect();
            return Err(vec![Failure::new(format!("C02|revm-rejects-valid|{variant}"), format!("the specification accepts this transaction but revm rejected it with {e} [spec {:?}, type {:?}]", ev.spec, ev.tx.tx_type))]);
        }
        (r::TxOutcome::Rejected(why), Err(_)) => {
            o.labels.push("rejected");
            o.labels.push(match why.as_str() {
                "chain id mismatch" => "rule:chain-id",
                "intrinsic gas too low" => "rule:intrinsic-or-floor",
                "initcode size exceeded" => "rule:initcode-size",
                "gas limit exceeds block gas limit" => "rule:block-gas-limit",
                "priority fee greater than max fee" => "rule:priority>max",
                "max fee per gas less than block base fee" => "rule:fee-cap<basefee",
                "blob transaction cannot create" => "rule:blob-create",
                "blob transaction without blobs" => "rule:no-blobs",
                "too many blobs" => "rule:too-many-blobs",
                "invalid blob versioned hash" => "rule:blob-version",
                "max fee per blob gas too low" => "rule:blob-fee-cap",
                "set-code transaction cannot create" => "rule:7702-create",
                "empty authorization list" => "rule:empty-auth-list",
                "nonce mismatch" => "rule:nonce",
                "insufficient funds for gas * price + value" => "rule:balance",
                "sender is not an EOA" => "rule:sender-code",
                _ => "rule:type-or-fields",
            });
        }
        (r::TxOutcome::Executed(_), Ok(_)) => o.labels.push("accepted"),
    }
    Ok(o)
}

#[derive(Clone, Debug, Hash, Serialize, Deserialize)]
pub struct RejCase {
    pub world: WorldCase,
    pub rej: TxSpec,
    pub t2: TxSpec,
    pub layer: u8,
    /// how the rejected transaction is submitted: 0 transact, 1 preverify_transaction, 2 transact_commit
    #[serde(default)]
    pub via: u8,
    /// T2 is replaced by a call (from another sender) to a contract that touches every address the rejected
    /// transaction named with warm/cold-priced instructions, so that any leaked journal entry changes its gas
    #[serde(default)]
    pub probe: bool,
}

enum HOp {
    Commit(r::Tx),
    Try(r::Tx),
    Preverify(r::Tx),
    PreverifyThenTransact(r::Tx),
    Spec(SpecId),
}

/// One long-lived Evm over `db`.  Returns one line per op and the database.
fn run_one_evm<DB: Database + DatabaseCommit>(db: DB, spec: SpecId, block: &r::Block, ops: &[HOp], mut probe_after_reject: Option<&mut dyn FnMut(&mut DB) -> Vec<String>>) -> (Vec<String>, DB, Vec<Vec<String>>)
where
    DB::Error: std::fmt::Debug,
{
    let mut cur = spec;
    let mut env = revm::primitives::Env::default();
    env.cfg.chain_id = block.chain_id;
    env.block = block_env(spec, block);
    let mut evm = Evm::builder().with_db(db).with_spec_id(spec).with_env(Box::new(env)).build();
    let mut out = vec![];
    let mut probes = vec![];
    for op in ops {
        match op {
            HOp::Spec(s) => {
                cur = *s;
                evm.modify_spec_id(*s);
                *evm.block_mut() = block_env(*s, block);
                out.push(format!("spec {s:?}"));
            }
            HOp::Commit(t) => {
                *evm.tx_mut() = tx_env(t);
                out.push(format!("{:?}", evm.transact_commit()));
            }
            HOp::Try(t) => {
                *evm.tx_mut() = tx_env(t);
                let r = evm.transact();
                let rejected = r.is_err();
                out.push(format!("{:?}", r.map(|rs| rs.result)));
                if rejected {
                    if let Some(p) = probe_after_reject.as_mut() {
                        probes.push(p(evm.db_mut()));
                    }
                }
            }
            HOp::Preverify(t) => {
                *evm.tx_mut() = tx_env(t);
                out.push(format!("{:?}", evm.preverify_transaction()));
            }
            HOp::PreverifyThenTransact(t) => {
                *evm.tx_mut() = tx_env(t);
                match evm.preverify_transaction() {
                    Ok(()) => match evm.transact_preverified() {
                        Ok(rs) => {
                            evm.db_mut().commit(rs.state);
                            out.push(format!("{:?}", rs.result));
                        }
                        Err(e) => out.push(format!("Err({e:?})")),
                    },
                    Err(e) => out.push(format!("Err({e:?})")),
                }
            }
        }
    }
    let _ = cur;
    let (db, _) = evm.into_db_and_env_with_handler_cfg();
    (out, db, probes)
}

/// A fresh Evm for every op over the database as committed so far.
fn run_fresh_evms<DB: Database + DatabaseCommit>(mut db: DB, spec: SpecId, block: &r::Block, ops: &[HOp]) -> (Vec<String>, DB)
where
    DB::Error: std::fmt::Debug,
{
    let mut cur = spec;
    let mut out = vec![];
    for op in ops {
        let mk = |db: DB, t: &r::Tx| {
            let mut env = make_env(cur, block, t);
            env.cfg.chain_id = block.chain_id;
            Evm::builder().with_db(db).with_spec_id(cur).with_env(Box::new(env)).build()
        };
        match op {
            HOp::Spec(s) => {
                cur = *s;
                out.push(format!("spec {s:?}"));
            }
            HOp::Commit(t) => {
                let mut evm = mk(db, t);
                out.push(format!("{:?}", evm.transact_commit()));
                db = evm.into_db_and_env_with_handler_cfg().0;
            }
            HOp::Try(t) => {
                let mut evm = mk(db, t);
                out.push(format!("{:?}", evm.transact().map(|rs| rs.result)));
                db = evm.into_db_and_env_with_handler_cfg().0;
            }
            HOp::Preverify(t) => {
                let mut evm = mk(db, t);
                out.push(format!("{:?}", evm.preverify_transaction()));
                db = evm.into_db_and_env_with_handler_cfg().0;
            }
            HOp::PreverifyThenTransact(t) => {
                let mut evm = mk(db, t);
                // a fresh Evm: plain transact_commit is the reference behaviour
                match evm.transact_commit() {
                    Ok(r) => out.push(format!("{r:?}")),
                    Err(e) => out.push(format!("Err({e:?})")),
                }
                db = evm.into_db_and_env_with_handler_cfg().0;
            }
        }
    }
    (out, db)
}

fn state_db(world: &r::World, spec: SpecId, bundle: bool) -> State<ModelDB> {
    let b = State::builder().with_database(ModelDB::new(world.clone()));
    let mut s = if bundle { b.with_bundle_update().build() } else { b.build() };
    s.set_state_clear_flag(state_clear(spec));
    s
}

pub fn c02b_case(c: &RejCase) -> CaseResult {
    let probe_slot = pool::IDX_CONTRACT0 + 5;
    let mut c = c.clone();
    if c.probe {
        // BALANCE / EXTCODESIZE / EXTCODEHASH of the four EOAs, the coinbase, the rejected transaction's target and
        // access-list addresses; SLOAD of a few own slots; then STOP
        let mut code = vec![];
        let mut addrs: Vec<u8> = (0..pool::N_EOA).collect();
        addrs.push(pool::IDX_COINBASE);
        addrs.extend(c.rej.to.iter().copied());
        addrs.extend(c.rej.access_list.iter().map(|(a, _)| *a));
        addrs.extend(c.rej.auths.iter().filter_map(|a| a.authority));
        for a in addrs {
            for op in [0x31u8, 0x3b, 0x3f] {
                code.push(0x73);
                code.extend_from_slice(&pool::addr(a));
                code.push(op);
                code.push(0x50);
            }
        }
        for k in 0..3u8 {
            code.extend_from_slice(&[0x60, k, 0x54, 0x50]);
        }
        code.push(0x00);
        c.world.accounts.retain(|a| a.addr != probe_slot);
        c.world.accounts.push(AccountSpec { addr: probe_slot, balance: r::U256::zero(), nonce: 1, code: Code::Raw(code), storage: vec![] });
        c.t2 = TxSpec::call((c.rej.caller + 1) % pool::N_EOA, Some(probe_slot), 1_000_000);
    }
    let c = &c;
    let spec = spec_id(c.world.spec);
    let Some(fork) = c.world.fork() else { return Ok(Outcome::trivial()) };
    let (pre, block, t1) = c.world.build();
    // world after T1 (plain fresh run) to build the following transactions
    let mut w1 = pre.clone();
    if let Ok(rs) = run_plain(spec, &pre, &block, &t1) {
        apply_state(&mut w1, &rs.state, state_clear(spec));
    }
    let rej = c.rej.build(fork, &block, &w1);
    let t2 = c.t2.build(fork, &block, &w1);
    if r::validate(fork, &block, &w1, &rej).is_ok() {
        return Ok(Outcome::trivial().label("middle-tx-valid"));
    }
    if c.layer % 3 != 0 && has_storage_only_account(&pre) {
        // documented precondition of the block-state database (AccountStatus: an account without
        // code and nonce is fully in memory): see DESIGN.md C15
        return Ok(Outcome::trivial().label("excluded:storage-only-account-under-State"));
    }
    let rejected = match c.via % 3 {
        0 => HOp::Try(rej.clone()),
        1 => HOp::Preverify(rej.clone()),
        _ => HOp::Commit(rej.clone()),
    };
    let with = [HOp::Commit(t1.clone()), rejected, HOp::Commit(t2.clone())];
    let without = [HOp::Commit(t1.clone()), HOp::Commit(t2.clone())];
    macro_rules! go {
        ($mk:expr, $name:expr) => {{
            let mut before: Vec<String> = vec![];
            let (a, mut dba, probes) = {
                let mut probe = |db: &mut _| reads(db);
                run_one_evm($mk, spec, &block, &with, Some(&mut probe))
            };
            // reads right before the rejected tx = reads of a database that only saw T1
            let (_, mut db1, _) = run_one_evm($mk, spec, &block, &without[..1], None);
            before.extend(reads(&mut db1));
            let (b, mut dbb, _) = run_one_evm($mk, spec, &block, &without, None);
            ensure!(a[1].starts_with("Err("), format!("C02|revm-accepts-invalid|history|{}", $name), "rejected-by-specification transaction was executed: {}", a[1]);
            if let Some(p) = probes.first() {
                ensure!(*p == before, format!("C02|rejected-tx-changed-database|{}", $name), "database reads changed by a rejected transaction: {}", first_diff(p, &before));
            }
            ensure!(a[2] == b[1], format!("C02|rejected-tx-changed-later-result|{}", $name), "transaction after a rejected one: {} -- without the rejected one: {}", a[2], b[1]);
            let (ra_, rb) = (reads(&mut dba), reads(&mut dbb));
            ensure!(ra_ == rb, format!("C02|rejected-tx-changed-final-state|{}", $name), "final reads differ: {}", first_diff(&ra_, &rb));
        }};
    }
    match c.layer % 3 {
        0 => go!(CacheDB::new(ModelDB::new(pre.clone())), "CacheDB"),
        1 => go!(state_db(&pre, spec, true), "State"),
        _ => go!(state_db(&pre, spec, false), "State-no-bundle"),
    }
    Ok(Outcome::new(true)
        .label(match c.layer % 3 {
            0 => "layer:CacheDB",
            1 => "layer:State+bundle",
            _ => "layer:State",
        })
        .label_if(c.probe, "probe-transaction-follows")
        .label(match c.via % 3 {
            0 => "via:transact",
            1 => "via:preverify_transaction",
            _ => "via:transact_commit",
        }))
}

pub fn c02(ctx: &mut Ctx) {
    let n = ctx.tier.pick(300_000, 5_000_000);
    let mut cfg = WorldCfg::default();
    cfg.invalid_pct = 55;
    ctx.run_cases(
        "accept-iff-valid",
        "world generator with the validity dial at ~50% invalid, one or more rules perturbed at their boundary (chain id, nonce +-1, gas limit vs block limit / intrinsic / Prague floor -1/=, fee cap vs base fee, priority > max, balance = max cost -1/=/+1 incl. 256-bit overflow, sender with code / delegation, initcode size, access list before Berlin, blob fields/count/version/fee cap, create blob tx, authorization list before Prague / empty / on create), specs FRONTIER..PRAGUE; oracle: the reference's independent validate(); revm must return Err exactly when it rejects; non-trivial = a boundary selector was used",
        || world_case(&cfg),
        n,
        c02a_case,
    );
    ctx.expect_labels(
        "accept-iff-valid",
        &["accepted", "rejected", "rule:chain-id", "rule:intrinsic-or-floor", "rule:initcode-size", "rule:block-gas-limit", "rule:priority>max", "rule:fee-cap<basefee", "rule:blob-create", "rule:no-blobs", "rule:too-many-blobs", "rule:blob-version", "rule:blob-fee-cap", "rule:empty-auth-list", "rule:nonce", "rule:balance", "rule:sender-code", "rule:type-or-fields"],
    );
    let n2 = ctx.tier.pick(30_000, 1_000_000);
    let mut base = WorldCfg::default();
    base.invalid_pct = 0;
    let mut bad = WorldCfg::default();
    bad.invalid_pct = 90;
    ctx.run_cases(
        "rejection-has-no-effect",
        "histories [T1, R, T2] on one Evm over CacheDB<ModelDB> / State<ModelDB> (with and without bundle) versus [T1, T2]: R (rejected by the reference's validate, submitted through transact, preverify_transaction or transact_commit) must return Err, database reads of every pool address/slot right after R equal those before it, T2's result and the final reads are identical to the history without R; non-trivial = every evaluated history whose middle transaction is invalid",
        || (world_case(&base), world::tx_spec(&bad), world::tx_spec(&base), 0u8..3, 0u8..3, prop::bool::weighted(0.4)).prop_map(|(world, rej, t2, layer, via, probe)| RejCase { world, rej, t2, layer, via, probe }),
        n2,
        c02b_case,
    );
    ctx.expect_labels("rejection-has-no-effect", &["layer:CacheDB", "layer:State+bundle", "layer:State", "via:transact", "via:preverify_transaction", "via:transact_commit"]);
    ctx.assumptions.push("revm's TxEnv carries no transaction type: a 1559-shaped transaction before London and a 2930 transaction with an empty access list before Berlin are not representable and are generated as legacy".into());
    ctx.assumptions.push("sender nonce 2^64-1 is outside the domain (unreachable by EIP-2681)".into());
}

// ------------------------------------------------------------------------------------------
// C31 reuse
// ------------------------------------------------------------------------------------------

#[derive(Clone, Debug, Hash, Serialize, Deserialize)]
pub enum ReuseOp {
    Commit(TxSpec),
    Try(TxSpec),
    Preverify(TxSpec),
    PreverifyThenTransact(TxSpec),
    Spec(u8),
    /// transact_commit of a transaction sent straight to a precompile (sender, precompile selector) with an input
    /// whose price depends on the fork (modexp, BN254, BLAKE2F, KZG, BLS): a handler that keeps precompiles of an
    /// earlier spec shows up in gas_used
    Precompile(u8, u8),
}

/// TxSpec of `ReuseOp::Precompile`.
fn precompile_tx(sender: u8, sel: u8) -> TxSpec {
    let (addr, data): (u8, Vec<u8>) = match sel % 8 {
        0 | 1 => {
            // modexp: base_len 1, exp_len 32, mod_len 32
            let mut v = vec![0u8; 96];
            v[31] = 1;
            v[63] = 32;
            v[95] = 32;
            v.push(3);
            v.extend_from_slice(&[0xff; 32]);
            v.extend_from_slice(&[0xfe; 32]);
            (5, v)
        }
        2 => (6, vec![0u8; 128]),
        3 => (7, vec![0u8; 96]),
        4 => (8, vec![]),
        5 => {
            let mut v = vec![0u8; 213];
            v[3] = 12;
            v[212] = 1;
            (9, v)
        }
        6 => (0x0b, vec![0u8; 256]),
        _ => (1, vec![0x11; 128]),
    };
    let mut t = TxSpec::call(sender % pool::N_EOA, Some(pool::IDX_PRECOMPILE0 + addr - 1), 400_000);
    t.data = world::DataSpec::Bytes(data);
    t
}

#[derive(Clone, Debug, Hash, Serialize, Deserialize)]
pub struct ReuseCase {
    pub world: WorldCase,
    pub ops: Vec<ReuseOp>,
}

pub fn c31_case(c: &ReuseCase) -> CaseResult {
    let spec0 = spec_id(c.world.spec);
    let (pre, block, t1) = c.world.build();
    // build transactions against the evolving plain world (fresh-Evm semantics)
    let mut w = pre.clone();
    let mut cur = c.world.spec;
    let mut ops = vec![HOp::Commit(t1.clone())];
    if let Ok(rs) = run_plain(spec0, &w, &block, &t1) {
        apply_state(&mut w, &rs.state, state_clear(spec0));
    }
    let mut after_failure = false;
    let mut sensitive_after_failure = false;
    for op in &c.ops {
        let fork = world::fork_of(cur).unwrap_or(r::Fork::Prague);
        let sp = spec_id(cur);
        match op {
            ReuseOp::Spec(s) => {
                cur = *s;
                ops.push(HOp::Spec(spec_id(*s)));
            }
            ReuseOp::Commit(_) | ReuseOp::PreverifyThenTransact(_) | ReuseOp::Precompile(..) => {
                let owned;
                let t = match op {
                    ReuseOp::Commit(t) | ReuseOp::PreverifyThenTransact(t) => t,
                    ReuseOp::Precompile(a, b) => {
                        owned = precompile_tx(*a, *b);
                        &owned
                    }
                    _ => unreachable!(),
                };
                let tx = t.build(fork, &block, &w);
                match run_plain(sp, &w, &block, &tx) {
                    Ok(rs) => {
                        if after_failure {
                            sensitive_after_failure = true;
                        }
                        if !rs.result.is_success() {
                            after_failure = true;
                        }
                        apply_state(&mut w, &rs.state, state_clear(sp));
                    }
                    Err(_) => after_failure = true,
                }
                ops.push(if matches!(op, ReuseOp::Commit(_) | ReuseOp::Precompile(..)) { HOp::Commit(tx) } else { HOp::PreverifyThenTransact(tx) });
            }
            ReuseOp::Try(t) => {
                let tx = t.build(fork, &block, &w);
                after_failure = true;
                ops.push(HOp::Try(tx));
            }
            ReuseOp::Preverify(t) => ops.push(HOp::Preverify(t.build(fork, &block, &w))),
        }
    }
    let (a, mut dba, _) = run_one_evm(CacheDB::new(ModelDB::new(pre.clone())), spec0, &block, &ops, None);
    let (b, mut dbb) = run_fresh_evms(CacheDB::new(ModelDB::new(pre.clone())), spec0, &block, &ops);
    for (i, (x, y)) in a.iter().zip(b.iter()).enumerate() {
        ensure!(x == y, "C31|result-differs", "op {i}: long-lived Evm returned {x} but a fresh Evm returns {y}");
    }
    let (ra_, rb) = (reads(&mut dba), reads(&mut dbb));
    ensure!(ra_ == rb, "C31|final-state-differs", "final reads differ: {}", first_diff(&ra_, &rb));
    Ok(Outcome::new(sensitive_after_failure).label_if(c.ops.iter().any(|o| matches!(o, ReuseOp::Spec(_))), "spec-change").label_if(c.ops.iter().any(|o| matches!(o, ReuseOp::Preverify(_) | ReuseOp::PreverifyThenTransact(_))), "preverify").label_if(after_failure, "failing-predecessor").label_if(c.ops.iter().any(|o| matches!(o, ReuseOp::Precompile(..))), "precompile-transaction"))
}

pub fn c31(ctx: &mut Ctx) {
    let n = ctx.tier.pick(40_000, 1_000_000);
    let mut cfg = WorldCfg::default();
    cfg.invalid_pct = 10;
    cfg.include_osaka = true;
    let mut bad = WorldCfg::default();
    bad.invalid_pct = 60;
    ctx.run_cases(
        "reuse",
        "histories of 2-7 operations (transact_commit, transact without commit, preverify_transaction, preverify+transact_preverified, modify_spec_id) with valid/invalid/reverting/halting transactions using TSTORE/TLOAD, warm-sensitive gas, logs, and transactions sent straight to precompiles whose price depends on the fork (modexp, BN254, BLAKE2F, BLS); run A: one long-lived Evm over CacheDB<ModelDB>, run B: a fresh Evm per operation over the database as committed so far; equal result sequences and equal final reads; non-trivial = an executed transaction follows a rejected/failed one",
        || {
            let op = prop_oneof![
                5 => world::tx_spec(&cfg).prop_map(ReuseOp::Commit),
                2 => world::tx_spec(&bad).prop_map(ReuseOp::Commit),
                2 => world::tx_spec(&cfg).prop_map(ReuseOp::Try),
                1 => world::tx_spec(&bad).prop_map(ReuseOp::Preverify),
                2 => world::tx_spec(&cfg).prop_map(ReuseOp::PreverifyThenTransact),
                2 => (0u8..20).prop_map(ReuseOp::Spec),
                2 => (0u8..4, 0u8..8).prop_map(|(a, b)| ReuseOp::Precompile(a, b)),
            ];
            (world_case(&cfg), prop::collection::vec(op, 1..6)).prop_map(|(world, ops)| ReuseCase { world, ops })
        },
        n,
        c31_case,
    );
    ctx.expect_labels("reuse", &["spec-change", "preverify", "failing-predecessor", "precompile-transaction"]);
}

// ------------------------------------------------------------------------------------------
// C22 reward switch
// ------------------------------------------------------------------------------------------

#[derive(Clone, Debug, Hash, Serialize, Deserialize)]
pub enum Reconf {
    WithSpecId(u8),
    ModifySpecId(u8),
    AppendNoop,
    AppendInspector,
    Pop,
    ModifyBuild,
    CreateGeneric,
    CfgFlag,
}

#[derive(Clone, Debug, Hash, Serialize, Deserialize)]
pub struct RewardCase {
    pub world: WorldCase,
    pub steps: Vec<Reconf>,
    /// how "no reward" is configured: 0 = Handler::mainnet_with_spec(spec,false), 1 = cfg.disable_beneficiary_reward
    pub via_cfg: bool,
}

fn noop_register<EXT, DB: Database>(_h: &mut revm::handler::register::EvmHandler<'_, EXT, DB>) {}

fn run_reward(case: &RewardCase, rewards: bool) -> (Result<revm::primitives::ResultAndState, String>, SpecId) {
    let (pre, block, tx) = case.world.build();
    let spec0 = spec_id(case.world.spec);
    let mut handler: Handler<'_, revm::Context<revm::inspectors::NoOpInspector, ModelDB>, revm::inspectors::NoOpInspector, ModelDB> = Handler::mainnet_with_spec(spec0, rewards || case.via_cfg);
    let _ = HandlerCfg::new(spec0);
    let mut env = make_env(spec0, &block, &tx);
    if case.via_cfg && !rewards {
        env.cfg.disable_beneficiary_reward = true;
    }
    let mut cur = spec0;
    // handler-level steps first (they act on the Handler value itself)
    let mut evm = {
        for s in &case.steps {
            match s {
                Reconf::ModifySpecId(i) => {
                    cur = spec_id(*i);
                    handler.modify_spec_id(cur);
                }
                Reconf::AppendNoop => handler.append_handler_register_plain(noop_register),
                Reconf::AppendInspector => handler.append_handler_register_plain(revm::inspector_handle_register),
                Reconf::Pop => {
                    handler.pop_handle_register();
                }
                Reconf::CreateGeneric => {
                    handler = revm::primitives::spec_to_generic!(cur, handler.create_handle_generic::<SPEC>());
                    handler.cfg.spec_id = cur;
                }
                _ => {}
            }
        }
        Evm::builder().with_db(ModelDB::new(pre.clone())).with_external_context(revm::inspectors::NoOpInspector).with_env(Box::new(env)).with_handler(handler).build()
    };
    // builder-level steps
    for s in &case.steps {
        match s {
            Reconf::WithSpecId(i) => {
                cur = spec_id(*i);
                evm = evm.modify().with_spec_id(cur).build();
            }
            Reconf::ModifyBuild => evm = evm.modify().build(),
            _ => {}
        }
    }
    // the environment must describe the final spec
    *evm.block_mut() = block_env(cur, &block);
    (evm.transact().map_err(|e| format!("{e:?}")), cur)
}

pub fn c22_case(case: &RewardCase) -> CaseResult {
    let (on, spec_on) = run_reward(case, true);
    let (off, spec_off) = run_reward(case, false);
    ensure!(spec_on == spec_off, "C22|harness", "spec mismatch");
    let (pre, block, tx) = case.world.build();
    let coinbase = ra(&block.coinbase);
    let (on, off) = match (on, off) {
        (Ok(a), Ok(b)) => (a, b),
        (Err(a), Err(b)) => {
            ensure!(a == b, "C22|rejection-differs", "rewards on: {a}; rewards off: {b}");
            return Ok(Outcome::trivial().label("rejected"));
        }
        (a, b) => return Err(vec![Failure::new("C22|acceptance-differs", format!("rewards on accepted={}, rewards off accepted={}", a.is_ok(), b.is_ok()))]),
    };
    ensure!(on.result == off.result, "C22|result-differs", "result with rewards {:?}, without {:?}", on.result, off.result);
    let kind = if case.via_cfg { "cfg.disable_beneficiary_reward" } else { "Handler::mainnet_with_spec(_, false)" };
    let rebuilds: Vec<&str> = case
        .steps
        .iter()
        .filter_map(|s| match s {
            Reconf::WithSpecId(_) => Some("with_spec_id"),
            Reconf::ModifySpecId(_) => Some("modify_spec_id"),
            Reconf::Pop => Some("pop_handle_register"),
            Reconf::CreateGeneric => Some("create_handle_generic"),
            Reconf::ModifyBuild => Some("modify().build()"),
            Reconf::AppendNoop | Reconf::AppendInspector => Some("append_handler_register"),
            Reconf::CfgFlag => None,
        })
        .collect();
    // coinbase must not receive anything when rewards are off
    let mut post_off = pre.clone();
    apply_state(&mut post_off, &off.state, state_clear(spec_off));
    let mut post_on = pre.clone();
    apply_state(&mut post_on, &on.state, state_clear(spec_on));
    let bal = |w: &r::World, a: &r::Address| w.get(a).map(|x| x.balance).unwrap_or_default();
    let sender_is_cb = tx.caller == block.coinbase;
    let gas_used = off.result.gas_used();
    let base = if era(spec_off) >= Era::London { block.base_fee } else { r::U256::zero() };
    let eff = match tx.max_priority_fee {
        Some(p) => std::cmp::min(tx.gas_price, base.saturating_add(p)),
        None => tx.gas_price,
    };
    let reward = eff.saturating_sub(base).saturating_mul(r::U256::from(gas_used));
    // the reward credit saturates at 2^256-1 (no defined overflow behaviour): only compare when
    // the enabled run could credit the full reward
    let credit_fits = bal(&pre, &block.coinbase).checked_add(reward).is_some() && bal(&post_on, &block.coinbase) != r::U256::MAX;
    if !sender_is_cb && credit_fits {
        let got = bal(&post_off, &block.coinbase);
        let want = bal(&post_on, &block.coinbase).saturating_sub(reward);
        let step_sig = if rebuilds.is_empty() { "no-reconfiguration".to_string() } else { rebuilds.join("+") };
        // root cause key: how it was configured + which kind of rebuilding step was involved
        let sig_kind = if case.via_cfg { "cfg-flag-ignored".to_string() } else { format!("lost-after|{}", rebuilds.iter().find(|r| matches!(**r, "with_spec_id" | "modify_spec_id" | "pop_handle_register" | "create_handle_generic")).copied().unwrap_or("none")) };
        ensure!(
            got == want,
            format!("C22|beneficiary-paid-although-disabled|{sig_kind}"),
            "configured via {kind}, reconfiguration [{step_sig}]: coinbase balance {got} after the transaction, expected {want} (reward {reward} must not be paid) [spec {spec_off:?}]"
        );
    }
    // every other account identical
    for a in post_on.keys().chain(post_off.keys()) {
        if *a == block.coinbase {
            continue;
        }
        ensure!(post_on.get(a) == post_off.get(a), "C22|other-account-differs", "account {} differs between rewards on/off", hex::encode(a));
    }
    let _ = coinbase;
    let has_rebuild = case.steps.iter().any(|s| matches!(s, Reconf::WithSpecId(_) | Reconf::ModifySpecId(_) | Reconf::Pop | Reconf::CreateGeneric | Reconf::ModifyBuild));
    Ok(Outcome::new(has_rebuild && !reward.is_zero()).label_if(has_rebuild, "rebuilding-step").label_if(!reward.is_zero(), "priority-fee>0").label(if case.via_cfg { "via-cfg-flag" } else { "via-handler" }))
}

pub fn c22(ctx: &mut Ctx) {
    let n = ctx.tier.pick(30_000, 1_000_000);
    let mut cfg = WorldCfg::default();
    cfg.invalid_pct = 2;
    ctx.run_cases(
        "reward-switch",
        "a handler built without beneficiary reward (Handler::mainnet_with_spec(spec,false), or cfg.disable_beneficiary_reward with feature optional_beneficiary_reward), then a random reconfiguration sequence from {with_spec_id, modify_spec_id, append_handler_register (no-op / inspector), pop_handle_register, create_handle_generic, modify().build()}, then a world transaction; oracle: differential against the same sequence with rewards enabled: coinbase receives nothing, result and every other account identical; non-trivial = sequence with a rebuilding step and a transaction with non-zero priority fee",
        || {
            let step = prop_oneof![
                2 => (0u8..20).prop_map(Reconf::WithSpecId),
                2 => (0u8..20).prop_map(Reconf::ModifySpecId),
                2 => Just(Reconf::AppendNoop),
                1 => Just(Reconf::AppendInspector),
                2 => Just(Reconf::Pop),
                2 => Just(Reconf::ModifyBuild),
                1 => Just(Reconf::CreateGeneric),
            ];
            (world_case(&cfg), prop::collection::vec(step, 0..4), prop::bool::weighted(0.2)).prop_map(|(world, steps, via_cfg)| RewardCase { world, steps, via_cfg })
        },
        n,
        c22_case,
    );
    ctx.expect_labels("reward-switch", &["rebuilding-step", "priority-fee>0", "via-cfg-flag", "via-handler"]);
    ctx.assumptions.push("the Optimism handler's vaults are covered by C33's binary".into());
}

// ------------------------------------------------------------------------------------------
// C21 creation collision / C05(b) precompile availability (directed, exhaustive small products)
// ------------------------------------------------------------------------------------------

#[derive(Clone, Debug, Hash, Serialize, Deserialize)]
pub struct CollisionCase {
    pub spec: u8,
    /// bit0 code, bit1 nonce, bit2 storage, bit3 zero balance (else 3 wei)
    pub target: u8,
    /// 0 create tx, 1 CREATE, 2 CREATE2
    pub kind: u8,
    /// 0 ModelDB, 1 State, 2 CacheDB, 3 CacheDB + insert_account_storage, 4 WrapDatabaseRef, 5 State with bundle
    pub layer: u8,
    pub value: u8,
}

fn collision_world(c: &CollisionCase) -> (WorldCase, r::Address) {
    let init = Init::ReturnBytes(vec![0x60, 0x01, 0x60, 0x00, 0x55, 0x00]);
    let initcode = vgen::prog::assemble_init(&init);
    let creator_idx = pool::IDX_CONTRACT0;
    let creator = pool::addr(creator_idx);
    let sender = pool::addr(0);
    let target = match c.kind % 3 {
        0 => r::create_address(sender, 0),
        1 => r::create_address(creator, 1),
        _ => r::create2_address(creator, r::U256::from(9), &initcode),
    };
    let body = vec![Stmt::Create { create2: c.kind % 3 == 2, value: Arg::N(c.value as u64), salt: Arg::N(9), init: init.clone(), status: Sink::Sstore(0) }, Stmt::Op { op: 0x55, args: vec![Arg::Key(1), Arg::N(7)], sink: Sink::Pop }];
    let mut accounts = vec![
        AccountSpec { addr: 0, balance: world::eth(1000), nonce: 0, code: Code::None, storage: vec![] },
        AccountSpec { addr: creator_idx, balance: r::U256::from(1000u64), nonce: 1, code: Code::Prog(Program { body, end: Term::Stop }), storage: vec![(0, r::U256::from(0xeeu64))] },
    ];
    let mut w = WorldCase { spec: c.spec, accounts: vec![], block: BlockSpec::plain(), tx: TxSpec::call(0, if c.kind % 3 == 0 { None } else { Some(creator_idx) }, 3_000_000) };
    if c.kind % 3 == 0 {
        w.tx.data = world::DataSpec::Init(init);
        w.tx.value = r::U256::from(c.value as u64);
    }
    w.accounts.append(&mut accounts);
    (w, target)
}

pub fn run_layered(layer: u8, spec: SpecId, pre: &r::World, target: &r::Address, env: revm::primitives::Env) -> Result<revm::primitives::ResultAndState, String> {
    macro_rules! go {
        ($db:expr) => {{
            let mut evm = Evm::builder().with_db($db).with_spec_id(spec).with_env(Box::new(env)).build();
            evm.transact().map_err(|e| format!("{e:?}"))
        }};
    }
    match layer % 8 {
        0 => go!(ModelDB::new(pre.clone())),
        1 => go!(state_db(pre, spec, false)),
        2 => go!(CacheDB::new(ModelDB::new(pre.clone()))),
        3 => {
            // the target's storage lives only in the cache layer
            let mut base = pre.clone();
            let st = base.get_mut(target).map(|a| std::mem::take(&mut a.storage)).unwrap_or_default();
            let mut db = CacheDB::new(ModelDB::new(base));
            for (k, v) in st {
                db.insert_account_storage(ra(target), ru(k), ru(v)).unwrap();
            }
            go!(db)
        }
        4 => go!(WrapDatabaseRef(ModelDB::new(pre.clone()))),
        5 => go!(state_db(pre, spec, true)),
        6 => {
            // the storage was put into the cache for an address the underlying data does not know at all
            // (only possible for a target that is nothing but storage)
            let mut base = pre.clone();
            let t = base.get(target).cloned();
            let only_storage = t.as_ref().map(|a| a.code.is_empty() && a.nonce == 0 && a.balance.is_zero() && !a.storage.is_empty()).unwrap_or(false);
            let st = if only_storage { base.remove(target).map(|a| a.storage).unwrap_or_default() } else { base.get_mut(target).map(|a| std::mem::take(&mut a.storage)).unwrap_or_default() };
            let mut db = CacheDB::new(ModelDB::new(base));
            for (k, v) in st {
                db.insert_account_storage(ra(target), ru(k), ru(v)).unwrap();
            }
            go!(db)
        }
        _ => {
            // the whole storage was replaced through the cache
            let mut base = pre.clone();
            let st = base.get_mut(target).map(|a| std::mem::take(&mut a.storage)).unwrap_or_default();
            let mut db = CacheDB::new(ModelDB::new(base));
            if !st.is_empty() {
                db.replace_account_storage(ra(target), st.into_iter().map(|(k, v)| (ru(k), ru(v))).collect()).unwrap();
            }
            go!(db)
        }
    }
}

pub fn c21_case(c: &CollisionCase) -> CaseResult {
    let (w, target) = collision_world(c);
    let spec = spec_id(c.spec);
    let (mut pre, block, tx) = w.build();
    let (has_code, has_nonce, has_storage) = (c.target & 1 != 0, c.target & 2 != 0, c.target & 4 != 0);
    if c.target != 0 {
        let acc = r::Account {
            // bit3: the target is unfunded (the collision rule must not depend on the balance)
            balance: r::U256::from(if c.target & 8 != 0 && c.target != 8 { 0u64 } else { 3 }),
            nonce: if has_nonce { 1 } else { 0 },
            code: if has_code { vec![0x00] } else { vec![] },
            storage: if has_storage { [(r::U256::from(5u64), r::U256::from(6u64))].into_iter().collect() } else { Default::default() },
        };
        pre.insert(target, acc);
    }
    let before = pre.get(&target).cloned();
    let collision = has_code || has_nonce || has_storage;
    let layer_name = ["ModelDB", "State", "CacheDB", "CacheDB+insert_account_storage", "WrapDatabaseRef", "State+bundle", "CacheDB+insert_account_storage(unknown address)", "CacheDB+replace_account_storage"][c.layer as usize % 8];
    let env = make_env(spec, &block, &tx);
    let rs = run_layered(c.layer, spec, &pre, &target, env).map_err(|e| vec![Failure::new("C21|harness|rejected", e)])?;
    let mut post = pre.clone();
    apply_state(&mut post, &rs.state, state_clear(spec));
    let what = if has_storage && !has_code && !has_nonce { "storage-only" } else { "code/nonce" };
    let sig = |clause: &str| format!("C21|{clause}|{what}|{layer_name}");
    let ctxs = format!("[kind {} target(code {has_code}, nonce {has_nonce}, storage {has_storage}) layer {layer_name} spec {spec:?}]", ["create tx", "CREATE", "CREATE2"][c.kind as usize % 3]);
    let after = post.get(&target);
    if collision {
        // nothing changes at the target; no value moved in
        ensure!(after == before.as_ref(), sig("collision-missed-target-changed"), "creation onto an occupied address changed it: before {before:?} after {after:?} {ctxs}");
        if c.kind % 3 == 0 {
            ensure!(matches!(rs.result, ExecutionResult::Halt { .. }), sig("collision-missed"), "create transaction onto an occupied address ended with {:?} {ctxs}", rs.result);
            ensure!(rs.result.gas_used() == tx.gas_limit, sig("collision-gas"), "collision must consume all gas: used {} of {} {ctxs}", rs.result.gas_used(), tx.gas_limit);
        } else {
            let creator = post.get(&pool::addr(pool::IDX_CONTRACT0)).unwrap();
            let pushed = creator.storage.get(&r::U256::zero()).copied().unwrap_or_default();
            ensure!(pushed.is_zero(), sig("collision-missed"), "CREATE onto an occupied address pushed {pushed:#x} instead of 0 {ctxs}");
            ensure!(creator.nonce == 2, sig("creator-nonce"), "creator nonce {} after a colliding create, expected 2 {ctxs}", creator.nonce);
            ensure!(creator.storage.get(&r::U256::one()) == Some(&r::U256::from(7u64)), sig("creator-continues"), "creator frame did not continue after the failed create {ctxs}");
        }
    } else {
        let deployed = after.map(|a| a.code.clone()).unwrap_or_default();
        ensure!(deployed == vec![0x60, 0x01, 0x60, 0x00, 0x55, 0x00], "C21|creation-on-free-address-failed", "creation on a free address did not deploy: {:?} {ctxs}", rs.result);
    }
    Ok(Outcome::new(what == "storage-only").label(if collision { "collision" } else { "free" }))
}

pub fn c21(ctx: &mut Ctx) {
    let mut cases = vec![];
    for spec in [0u8, 5, 8, 11, 12, 16, 17, 18] {
        for target in 0..16u8 {
            // target 8 = an account that holds only a balance (a free address)
            for kind in 0..3u8 {
                if kind == 2 && spec < 7 {
                    continue;
                }
                // before EIP-150 a failing CREATE burns all gas of the creator frame: the
                // transaction halts and nothing of the creator's bookkeeping is observable
                if kind != 0 && spec < 4 {
                    continue;
                }
                for layer in 0..8u8 {
                    for value in [0u8, 1] {
                        cases.push(CollisionCase { spec, target, kind, layer, value });
                    }
                }
            }
        }
    }
    ctx.run_exhaustive(
        "collision-grid",
        "exhaustive product: target pre-state {code?, nonce?, storage?, funded?} x {create tx, CREATE, CREATE2} x database layer {ModelDB, State, State+bundle, CacheDB, CacheDB with the storage inserted into the cache (for a known and for an unknown address), CacheDB after replace_account_storage, WrapDatabaseRef} x endowment {0,1} x specs {FRONTIER, SPURIOUS_DRAGON, PETERSBURG, BERLIN, LONDON, SHANGHAI, CANCUN, PRAGUE}; target addresses predicted by own RLP/keccak; oracle: collision <=> code or nonce or storage; on collision the target is untouched, CREATE* pushes 0 / the create tx halts with all gas, creator nonce bumped; non-trivial = storage-only collision",
        cases,
        c21_case,
    );
    let mut eof_cases = vec![];
    for target in 0..16u8 {
        for kind in 0..2u8 {
            for layer in 0..8u8 {
                for value in [0u8, 1] {
                    eof_cases.push(crate::eofcheck::EofCollisionCase { target, kind, layer, value });
                }
            }
        }
    }
    ctx.run_exhaustive(
        "eof-collision-grid",
        "OSAKA, exhaustive product: target pre-state {code?, nonce?, storage?}^3 x {EOF create transaction, EOFCREATE from an EOF factory} x the six database layers x endowment {0,1}; the EOFCREATE address is taken from a first run on a free address, the create-transaction address from own RLP/keccak; same oracle as the legacy grid",
        eof_cases,
        crate::eofcheck::c21_eof_case,
    );
}

#[derive(Clone, Debug, Hash, Serialize, Deserialize)]
pub struct PrecompileAvail {
    pub spec: u8,
    pub address: u16,
}

fn valid_input(addr: u16) -> Vec<u8> {
    match addr {
        1 => {
            // a real signature made with k256 (key = 1..1)
            use k256::ecdsa::SigningKey;
            let sk = SigningKey::from_slice(&[7u8; 32]).unwrap();
            let msg = [0x11u8; 32];
            let (sig, recid) = sk.sign_prehash_recoverable(&msg).unwrap();
            let mut v = msg.to_vec();
            v.extend_from_slice(&[0u8; 31]);
            v.push(27 + recid.to_byte());
            v.extend_from_slice(&sig.to_bytes());
            v
        }
        2 | 3 | 4 => vec![0x42; 32],
        5 => {
            let mut v = vec![0u8; 96];
            v[31] = 1;
            v[63] = 1;
            v[95] = 1;
            v.extend_from_slice(&[3, 2, 5]);
            v
        }
        6 => vec![0u8; 128],
        7 => vec![0u8; 96],
        8 => vec![],
        9 => {
            let mut v = vec![0u8; 213];
            v[3] = 1; // one round
            v[212] = 1;
            v
        }
        10 => {
            let mut commitment = vec![0u8; 48];
            commitment[0] = 0xc0;
            let vh = revm_precompile::kzg_point_evaluation::kzg_to_versioned_hash(&commitment);
            let mut v = vh.to_vec();
            v.extend_from_slice(&[0u8; 64]); // z = 0, y = 0
            v.extend_from_slice(&commitment);
            v.extend_from_slice(&commitment); // proof = infinity
            v
        }
        0x0b => vec![0u8; 256],
        0x0c => vec![0u8; 160],
        0x0d => vec![0u8; 512],
        0x0e => vec![0u8; 288],
        0x0f => vec![0u8; 384],
        0x10 => vec![0u8; 64],
        0x11 => vec![0u8; 128],
        _ => vec![0x42; 32],
    }
}

/// Own activation table (spec index in MAINNET_SPECS order).
fn precompile_since(addr: u16) -> Option<u8> {
    match addr {
        1..=4 => Some(0),
        5..=8 => Some(6),
        9 => Some(9),
        10 => Some(17),
        0x0b..=0x11 => Some(18),
        _ => None,
    }
}

pub fn c05b_case(c: &PrecompileAvail) -> CaseResult {
    let spec = spec_id(c.spec);
    let input = valid_input(c.address);
    let n = input.len() as u64;
    // contract: mem[0x400..0x420] = sentinel; calldatacopy(0,0,n); ok = call(gas, addr, 0, 0, n, 0x400, 32); sstore(0, ok+1); sstore(1, mload(0x400))
    let mut a = vgen::prog::Asm::default();
    let sentinel = r::U256::from_big_endian(&[0xee; 32]);
    a.push_u256(sentinel);
    a.push_n(0x400);
    a.op(0x52);
    a.push_n(n);
    a.push_n(0);
    a.push_n(0);
    a.op(0x37);
    a.push_n(32);
    a.push_n(0x400);
    a.push_n(n);
    a.push_n(0);
    a.push_n(0);
    a.push_n(c.address as u64);
    a.push_n(2_000_000);
    a.op(0xf1);
    a.push_n(1);
    a.op(0x01);
    a.push_n(0);
    a.op(0x55);
    a.push_n(0x400);
    a.op(0x51);
    a.push_n(1);
    a.op(0x55);
    a.op(0x00);
    let w = WorldCase {
        spec: c.spec,
        accounts: vec![
            AccountSpec { addr: 0, balance: world::eth(1000), nonce: 0, code: Code::None, storage: vec![] },
            AccountSpec { addr: pool::IDX_CONTRACT0, balance: r::U256::zero(), nonce: 1, code: Code::Raw(a.code), storage: vec![] },
        ],
        block: BlockSpec::plain(),
        tx: { let mut t = TxSpec::call(0, Some(pool::IDX_CONTRACT0), 5_000_000); t.data = world::DataSpec::Bytes(input.clone()); t },
    };
    let (pre, block, tx) = w.build();
    let rs = run_plain(spec, &pre, &block, &tx).map_err(|e| vec![Failure::new("C05|harness|rejected", e)])?;
    ensure!(rs.result.is_success(), "C05|harness|probe-failed", "probe transaction failed: {:?}", rs.result);
    let acc = rs.state.get(&ra(&pool::addr(pool::IDX_CONTRACT0))).unwrap();
    let ok = acc.storage.get(&U256::ZERO).map(|s| s.present_value).unwrap_or_default();
    let word = acc.storage.get(&U256::from(1)).map(|s| s.present_value).unwrap_or_default();
    let overwritten = word != ru(sentinel);
    let want_active = precompile_since(c.address).map(|s| c.spec >= s && c.spec != 255).unwrap_or(false);
    ensure!(ok == U256::from(2), format!("C05|precompile|call-failed|{:#x}", c.address), "CALL to {:#x} in {spec:?} with a valid input returned failure (own table: active={want_active})", c.address);
    ensure!(
        overwritten == want_active,
        if want_active { format!("C05|precompile|inactive-but-should-exist|{:#x}", c.address) } else { format!("C05|precompile|active-too-early|{:#x}", c.address) },
        "address {:#x} in {spec:?}: own table says precompile={want_active}, observed output written={overwritten}",
        c.address
    );
    // an inactive address behaves as an empty account: the call costs only the call itself
    Ok(Outcome::nontrivial().label(if want_active { "active" } else { "inactive" }))
}

pub fn c05_precompiles(ctx: &mut Ctx) {
    let mut cases = vec![];
    for spec in 0..20u8 {
        for address in (1u16..=0x11).chain([0x12, 0x100]) {
            cases.push(PrecompileAvail { spec, address });
        }
    }
    ctx.run_exhaustive(
        "precompile-x-spec",
        "exhaustive: addresses 0x01..0x12 and 0x100 x 20 SpecIds, each CALLed from a contract inside a real transaction with a valid input for that precompile over a sentinel-filled return window; oracle = own activation table (0x01-04 Frontier, 0x05-08 Byzantium, 0x09 Istanbul, 0x0a Cancun, 0x0b-0x11 Prague, others never): active <=> the call succeeds and writes output; inactive <=> succeeds as an empty account and leaves the window untouched",
        cases,
        c05b_case,
    );
}

// ------------------------------------------------------------------------------------------
// C34 cold / warm accounting
// ------------------------------------------------------------------------------------------

pub fn c34_case(case: &WorldCase) -> CaseResult {
    let ev = evaluate(case);
    let Some(fork) = ev.fork else { return Ok(Outcome::trivial()) };
    if let Some(l) = out_of_domain(&ev) {
        return Ok(Outcome::trivial().label(l));
    }
    if total_supply(&ev.pre).bits() > 256 {
        return Ok(Outcome::trivial().label("excluded:supply>2^256"));
    }
    let (r::TxOutcome::Executed(rx), Ok(rs)) = (ev.reference.as_ref().unwrap(), &ev.revm) else { return Ok(Outcome::trivial().label("rejected")) };
    let gas = rs.result.gas_used();
    if gas != rx.gas_used {
        let div = trace_divergence(ev.spec, fork, &ev.pre, &ev.block, &ev.tx);
        let sig = if div.contains("op,gas") || div.contains("diverge") { "C34|gas_used" } else { "C34|gas_used" };
        return Err(vec![Failure::new(sig, format!("gas_used: revm {gas} vs reference {} [spec {:?}] {div}", rx.gas_used, ev.spec))]);
    }
    let s = &ev.stats;
    let accesses = s.ops[0x54] + s.ops[0x55] + s.ops[0x31] + s.ops[0x3b] + s.ops[0x3c] + s.ops[0x3f] + s.ops[0xf1] + s.ops[0xf2] + s.ops[0xf4] + s.ops[0xfa] + s.ops[0xff];
    let reverted_frames = rx.status != r::Status::Success || s.max_depth >= 1;
    Ok(Outcome::new(accesses >= 2 && reverted_frames).label_if(!ev.tx.access_list.is_empty(), "access-list").label_if(s.ops[0xf5] >= 2, "repeated-CREATE2").label_if(!ev.tx.authorization_list.is_empty(), "7702"))
}

/// Directed: access-list pre-warmed slots of a CREATE2 target whose first creation reverts.
fn create2_prewarm_world() -> impl Strategy<Value = WorldCase> {
    (11u8..19, 0u8..7, prop::bool::ANY, 0u8..3, 0u8..3).prop_map(|(spec, key, sstore, first_end, n_extra)| {
        let mut ctor = vec![];
        if sstore {
            ctor.push(Stmt::Op { op: 0x55, args: vec![Arg::Key(key), Arg::N(5)], sink: Sink::Pop });
        } else {
            ctor.push(Stmt::Op { op: 0x54, args: vec![Arg::Key(key)], sink: Sink::Pop });
        }
        for i in 0..n_extra {
            ctor.push(Stmt::Op { op: 0x54, args: vec![Arg::Key((key + 1 + i) % 7)], sink: Sink::Pop });
        }
        // the constructor reverts (or halts) on every attempt
        let init = match first_end {
            0 => Init::Deploy { ctor: { let mut c = ctor.clone(); c.push(Stmt::Term(Term::Revert(Arg::N(0), Arg::N(0)))); c }, runtime: Box::new(Program { body: vec![], end: Term::Stop }) },
            1 => Init::Deploy { ctor: { let mut c = ctor.clone(); c.push(Stmt::Term(Term::Invalid)); c }, runtime: Box::new(Program { body: vec![], end: Term::Stop }) },
            _ => Init::Deploy { ctor: { let mut c = ctor.clone(); c.push(Stmt::Term(Term::Revert(Arg::N(0), Arg::N(32)))); c }, runtime: Box::new(Program { body: vec![], end: Term::Stop }) },
        };
        let initcode = vgen::prog::assemble_init(&init);
        let creator = pool::addr(pool::IDX_CONTRACT0);
        let target = r::create2_address(creator, r::U256::from(3u64), &initcode);
        let mk = || Stmt::Create { create2: true, value: Arg::N(0), salt: Arg::N(3), init: init.clone(), status: Sink::Pop };
        // gas-limited wrapper calls so that an INVALID constructor does not eat everything
        let body = vec![mk(), mk(), Stmt::Op { op: 0x31, args: vec![Arg::A(target)], sink: Sink::Pop }];
        let mut tx = TxSpec::call(0, Some(pool::IDX_CONTRACT0), 3_000_000);
        tx.ty = r::TxType::Eip2930;
        tx.access_extra = vec![(target, vec![key, (key + 1) % 7])];
        WorldCase {
            spec,
            accounts: vec![
                AccountSpec { addr: 0, balance: world::eth(1000), nonce: 0, code: Code::None, storage: vec![] },
                AccountSpec { addr: pool::IDX_CONTRACT0, balance: r::U256::from(10u64), nonce: 1, code: Code::Prog(Program { body, end: Term::Stop }), storage: vec![] },
            ],
            block: BlockSpec::plain(),
            tx,
        }
    })
}

fn access_cfg() -> WorldCfg {
    let mut cfg = WorldCfg::default();
    cfg.invalid_pct = 0;
    cfg.n_contracts = 2..=4;
    cfg.prog.call_weight = 14;
    cfg
}

pub fn c34(ctx: &mut Ctx) {
    let n = ctx.tier.pick(150_000, 3_000_000);
    let cfg = access_cfg();
    ctx.run_cases(
        "access-differential",
        "world generator restricted to BERLIN..PRAGUE-relevant behaviour (all specs are drawn; cold/warm matters from Berlin) with call-heavy programs (nested frames that revert/halt), access lists over pool addresses/keys incl. derived CREATE targets, 7702 authorities and delegations; oracle: exact gas_used equality with the reference EVM, whose access sets are plain snapshot-copied sets; non-trivial = >= 2 state accesses and a nested or failing frame",
        || world_case(&cfg).prop_map(|mut w| { if w.spec < 11 { w.spec = 11 + w.spec % 8; } w }),
        n,
        c34_case,
    );
    let n2 = ctx.tier.pick(20_000, 500_000);
    ctx.run_cases(
        "create2-prewarmed-slots",
        "directed: the transaction's access list pre-warms storage slots of a CREATE2 target; the contract runs the same CREATE2 twice with a constructor that touches those slots and then reverts/halts, then reads the target's balance; oracle: gas_used equals the reference (pre-warmed slots stay warm after the reverted creation)",
        create2_prewarm_world,
        n2,
        c34_case,
    );
    ctx.expect_labels("access-differential", &["access-list", "7702"]);
    ctx.expect_labels("create2-prewarmed-slots", &["repeated-CREATE2", "access-list"]);
}

#[allow(dead_code)]
fn _unused(_: Bytes, _: Address, _: WrapDatabaseRef<ModelDB>) {}
