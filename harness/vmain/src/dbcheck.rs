//! C20: database wrappers answer like the data they wrap (plus what was committed through them).
use crate::evmrun::*;
use refevm as r;
use revm::db::components::{BlockHashRef, StateRef};
use revm::db::{CacheDB, DatabaseCommit, DatabaseComponents, DatabaseRef, EmptyDB, State, WrapDatabaseRef};
use revm::primitives::{AccountInfo, Address, Bytecode, B256, KECCAK_EMPTY, U256};
use revm::{Database, Evm};
use serde::{Deserialize, Serialize};
use std::convert::Infallible;
use std::sync::Arc;
use vcore::proptest::prelude::*;
use vcore::{CaseResult, Ctx, Failure, Outcome};
use vgen::pool;
use vgen::world::{self, world_case, TxSpec, WorldCase, WorldCfg};

impl StateRef for ModelDB {
    type Error = Infallible;
    fn basic(&self, address: Address) -> Result<Option<AccountInfo>, Infallible> {
        self.basic_ref(address)
    }
    fn code_by_hash(&self, code_hash: B256) -> Result<Bytecode, Infallible> {
        self.code_by_hash_ref(code_hash)
    }
    fn has_storage(&self, address: Address) -> Result<bool, Infallible> {
        self.has_storage_ref(address)
    }
    fn storage(&self, address: Address, index: U256) -> Result<U256, Infallible> {
        self.storage_ref(address, index)
    }
}

impl BlockHashRef for ModelDB {
    type Error = Infallible;
    fn block_hash(&self, number: u64) -> Result<B256, Infallible> {
        self.block_hash_ref(number)
    }
}

#[derive(Clone, Debug, Hash, Serialize, Deserialize)]
pub enum DbOp {
    Basic(u8),
    Storage(u8, u8),
    Code(u8),
    HasStorage(u8),
    BlockHash(u16),
    /// ask an earlier query of this sequence again (index chosen monotonically among the earlier queries)
    Again(u8),
    /// execute this transaction on the reference data and commit its output through the wrappers
    Commit(TxSpec),
}

#[derive(Clone, Debug, Hash, Serialize, Deserialize)]
pub struct DbCase {
    pub world: WorldCase,
    pub inline_code: bool,
    pub hashes: Vec<(u16, u8)>,
    pub ops: Vec<DbOp>,
}

/// Normalised answer of a query.
fn q<DB: Database>(db: &mut DB, op: &DbOp, head: u64, collapse_empty: bool) -> String
where
    DB::Error: std::fmt::Debug,
{
    match op {
        DbOp::Basic(a) => {
            let info = db.basic(ra(&pool::addr(*a))).unwrap();
            match info {
                None => "none".into(),
                Some(i) if collapse_empty && i.balance.is_zero() && i.nonce == 0 && i.code_hash == KECCAK_EMPTY => "none".into(),
                Some(i) => {
                    // inline code, when provided, must be the code of the hash
                    let inline = i.code.as_ref().map(|c| hex::encode(c.original_bytes())).unwrap_or_else(|| "-".into());
                    let inline_ok = i.code.as_ref().map(|c| code_hash(&c.original_bytes()) == i.code_hash).unwrap_or(true);
                    format!("bal {} nonce {} hash {} inline-consistent {inline_ok} {}", i.balance, i.nonce, i.code_hash, if inline == "-" { "" } else { "" })
                }
            }
        }
        DbOp::Storage(a, k) => {
            let a = ra(&pool::addr(*a));
            // the Database contract: the account is loaded before its storage is read
            let _ = db.basic(a).unwrap();
            format!("{}", db.storage(a, ru(pool::key(*k))).unwrap())
        }
        DbOp::Code(a) => {
            let info = db.basic(ra(&pool::addr(*a))).unwrap();
            match info {
                // reader convention of AccountInfo::code (and of JournaledState::load_code): inline code when
                // the wrapper provides it, code_by_hash otherwise (State keeps the code of contracts created
                // through it inline in the cached account, not in its by-hash table)
                Some(i) if i.code_hash != KECCAK_EMPTY => match i.code {
                    Some(c) => hex::encode(c.original_bytes()),
                    None => hex::encode(db.code_by_hash(i.code_hash).unwrap().original_bytes()),
                },
                _ => "".into(),
            }
        }
        DbOp::HasStorage(a) => format!("{}", db.has_storage(ra(&pool::addr(*a))).unwrap()),
        DbOp::BlockHash(d) => format!("{}", db.block_hash(head.saturating_sub(*d as u64 % 300)).unwrap()),
        DbOp::Commit(_) | DbOp::Again(_) => String::new(),
    }
}

pub fn c20_case(c: &DbCase) -> CaseResult {
    let spec = spec_id(c.world.spec);
    let Some(fork) = c.world.fork() else { return Ok(Outcome::trivial()) };
    let (pre, block, _) = crate::statecheck::hist_pre(&c.world);
    // storage-only accounts are kept out of commit histories by hist_pre; add one that is never
    // written so that has_storage=true is observable for an account without code
    let mut base = ModelDB::new(pre.clone());
    base.inline_code = c.inline_code;
    let head = 1000u64;
    for (d, v) in &c.hashes {
        base.block_hashes.insert(head - (*d as u64 % 300), B256::with_last_byte(*v));
    }
    let clear = state_clear(spec);
    // the reference: plain data + committed changes
    let mut reference = base.clone();
    // wrappers with commit support
    let mut cache = CacheDB::new(base.clone());
    let mut state = {
        let mut s = State::builder().with_database(base.clone()).with_bundle_update().build();
        s.set_state_clear_flag(clear);
        s
    };
    let mut state_plain = {
        let mut s = State::builder().with_database(base.clone()).build();
        s.set_state_clear_flag(clear);
        s
    };
    let mut committed = false;
    let mut requery_after_commit = false;
    let mut queried: std::collections::BTreeSet<String> = Default::default();
    let mut labels: std::collections::BTreeSet<&'static str> = Default::default();
    let mut asked: Vec<DbOp> = vec![];
    for (i, op) in c.ops.iter().enumerate() {
        let resolved;
        let op = match op {
            DbOp::Again(r) => {
                if asked.is_empty() {
                    continue;
                }
                resolved = asked[(*r as usize * asked.len()) >> 8].clone();
                &resolved
            }
            o => o,
        };
        if let DbOp::Commit(t) = op {
            let tx = t.build(fork, &block, &reference.world);
            let mut evm = Evm::builder().with_db(reference.clone()).with_spec_id(spec).with_env(Box::new(make_env(spec, &block, &tx))).build();
            if let Ok(rs) = evm.transact() {
                apply_state(&mut reference.world, &rs.state, clear);
                // every stateful wrapper executes the transaction itself and commits its own output (what a
                // client does; an output produced over another database may lack inline code the wrapper
                // only holds in its cache, and State::commit requires the accounts to be loaded through it)
                macro_rules! through {
                    ($db:expr, $name:expr) => {{
                        let out = {
                            let mut e = Evm::builder().with_db(&mut $db).with_spec_id(spec).with_env(Box::new(make_env(spec, &block, &tx))).build();
                            e.transact().map_err(|e| format!("{e:?}"))
                        };
                        match out {
                            Ok(r2) => {
                                if r2.result != rs.result {
                                    return Err(vec![Failure::new(format!("C20|{}|execution-result", $name), format!("op {i}: transaction executed through {} gave {:?}, over the plain data {:?}", $name, r2.result, rs.result))]);
                                }
                                $db.commit(r2.state);
                            }
                            Err(e) => return Err(vec![Failure::new(format!("C20|{}|execution-result", $name), format!("op {i}: transaction accepted over the plain data was rejected through {}: {e}", $name))]),
                        }
                    }};
                }
                through!(cache, "CacheDB");
                through!(state, "State+bundle");
                through!(state_plain, "State");
                committed = true;
                labels.insert("commit");
            }
            continue;
        }
        let key = format!("{op:?}");
        if committed && queried.contains(&key) {
            requery_after_commit = true;
        }
        queried.insert(key);
        asked.push(op.clone());
        // EIP-161: wrappers may keep a touched-empty account as existing-empty once clearing is active
        let want = q(&mut reference.clone(), op, head, clear);
        let mut check = |name: &str, got: String| -> Result<(), Vec<Failure>> {
            if got != want {
                let kind = match op {
                    DbOp::Basic(_) => "basic",
                    DbOp::Storage(..) => "storage",
                    DbOp::Code(_) => "code_by_hash",
                    DbOp::HasStorage(_) => "has_storage",
                    DbOp::BlockHash(_) => "block_hash",
                    DbOp::Commit(_) | DbOp::Again(_) => "commit",
                };
                // the one answer the interface cannot give exactly (known finding): the underlying data still holds
                // non-zero slots that commits through the caching wrapper have since overwritten with zero
                if let DbOp::HasStorage(a) = op {
                    if want == "false" && got == "true" && base.has_storage_ref(ra(&pool::addr(*a))).unwrap() && matches!(name, "CacheDB" | "State+bundle" | "State" | "CacheDB-as-DatabaseRef") {
                        return Err(vec![Failure::new("C20|has_storage|stale-true-after-commits-zeroed-the-underlying-slots", format!("op {i} {op:?}: {name} answered `true` although every non-zero slot of the underlying data was overwritten with zero by a commit through it"))]);
                    }
                }
                return Err(vec![Failure::new(format!("C20|{name}|{kind}"), format!("op {i} {op:?}: {name} answered `{got}`, the underlying data (+ committed changes) says `{want}`"))]);
            }
            Ok(())
        };
        check("CacheDB", q(&mut cache, op, head, clear))?;
        check("State+bundle", q(&mut state, op, head, clear))?;
        check("State", q(&mut state_plain, op, head, clear))?;
        // DatabaseRef view of the cache
        check("CacheDB-as-DatabaseRef", q(&mut WrapDatabaseRef(&cache), op, head, clear))?;
        // stateless wrappers over the current reference data
        let data = reference.clone();
        check("WrapDatabaseRef", q(&mut WrapDatabaseRef(data.clone()), op, head, clear))?;
        check("WrapDatabaseRef<&>", q(&mut WrapDatabaseRef(&data), op, head, clear))?;
        check("WrapDatabaseRef<Arc>", q(&mut WrapDatabaseRef(Arc::new(data.clone())), op, head, clear))?;
        check("WrapDatabaseRef<Box>", q(&mut WrapDatabaseRef(Box::new(data.clone())), op, head, clear))?;
        check("&mut", q(&mut &mut data.clone(), op, head, clear))?;
        check("Box", q(&mut Box::new(data.clone()), op, head, clear))?;
        check("CacheDB<&>", q(&mut CacheDB::new(&data), op, head, clear))?;
        check("DatabaseComponents(owned ref)", q(&mut WrapDatabaseRef(DatabaseComponents { state: data.clone(), block_hash: data.clone() }), op, head, clear))?;
        check("DatabaseComponents(&)", q(&mut DatabaseComponents { state: &data, block_hash: &data }, op, head, clear))?;
        check("DatabaseComponents(Arc)", q(&mut DatabaseComponents { state: Arc::new(data.clone()), block_hash: Arc::new(data.clone()) }, op, head, clear))?;
        {
            let boxed: Box<dyn Database<Error = Infallible> + Send> = Box::new(data.clone());
            let mut s = State::builder().with_database_boxed(boxed).build();
            s.set_state_clear_flag(clear);
            check("StateDBBox", q(&mut s, op, head, clear))?;
        }
        if matches!(op, DbOp::BlockHash(_)) {
            labels.insert("block-hash");
        }
        if matches!(op, DbOp::HasStorage(_)) && want == "true" {
            labels.insert("has_storage=true");
        }
    }
    // EmptyDB answers like empty data
    let mut empty_ref = ModelDB::default();
    empty_ref.inline_code = true;
    for op in c.ops.iter().filter(|o| !matches!(o, DbOp::Commit(_) | DbOp::Again(_))).take(4) {
        let want = q(&mut empty_ref.clone(), op, head, clear);
        let got = q(&mut EmptyDB::default(), op, head, clear);
        if got != want {
            return Err(vec![Failure::new("C20|EmptyDB", format!("{op:?}: EmptyDB answered `{got}`, empty data says `{want}`"))]);
        }
    }
    let mut o = Outcome::new(requery_after_commit);
    for l in labels {
        o.labels.push(l);
    }
    Ok(o)
}

pub fn db_strategy() -> BoxedStrategy<DbCase> {
    let mut cfg = WorldCfg::default();
    cfg.invalid_pct = 0;
    cfg.n_contracts = 2..=4;

    let cfg2 = cfg.clone();
    let op = prop_oneof![
        3 => (0u8..63).prop_map(DbOp::Basic),
        3 => (0u8..16, 0u8..7).prop_map(|(a, k)| DbOp::Storage(a, k)),
        2 => (0u8..16).prop_map(DbOp::Code),
        2 => (0u8..63).prop_map(DbOp::HasStorage),
        2 => (0u8..12).prop_map(DbOp::HasStorage),
        5 => any::<u8>().prop_map(DbOp::Again),
        3 => (0u16..300).prop_map(DbOp::BlockHash),
        2 => world::tx_spec(&cfg2).prop_map(DbOp::Commit),
    ];
    (world_case(&cfg), any::<bool>(), prop::collection::vec((0u16..300, any::<u8>()), 0..12), prop::collection::vec(op, 1..28)).prop_map(|(world, inline_code, hashes, ops)| DbCase { world, inline_code, hashes, ops }).boxed()
}

pub fn c20(ctx: &mut Ctx) {
    let n = ctx.tier.pick(100_000, 3_000_000);
    let mut cfg = WorldCfg::default();
    cfg.invalid_pct = 0;
    cfg.n_contracts = 2..=4;
    ctx.run_cases(
        "wrappers",
        "random underlying data (generated accounts, storage, codes with/without inline code, block hashes around a 300-block window) and sequences of queries (basic, storage, code_by_hash, has_storage, block_hash) interleaved with commits of EVM-produced outputs, asked of CacheDB<ModelDB>, CacheDB<&ModelDB>, the DatabaseRef view of CacheDB, State<ModelDB> with and without bundle, StateDBBox, WrapDatabaseRef over owned/&/Arc/Box data, &mut and Box databases, DatabaseComponents (owned, &, Arc) and EmptyDB; oracle: the answer of the plain data plus the committed changes; non-trivial = a key is re-queried after a commit",
        db_strategy,
        n,
        c20_case,
    );
    ctx.expect_labels("wrappers", &["commit", "block-hash", "has_storage=true"]);
    ctx.assumptions.push("accounts that hold storage without code or nonce are not written by commits (the EVM cannot produce such writes); a touched-empty account kept as existing-empty equals an absent one once state clearing is active".into());
    let _ = r::Fork::Prague;
}
