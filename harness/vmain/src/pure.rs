//! Checks over pure functions and small value types: C13 (Gas), C14 (gas formulas),
//! C27 (Bytecode), C32 (blob fee functions).
use crate::common::*;
use num_bigint::{BigInt, BigUint};
use num_traits::{ToPrimitive, Zero};
use revm::interpreter::gas::{self as g};
use revm::interpreter::{AccountLoad, Eip7702CodeLoad, Gas, SStoreResult, SelfDestructResult, StateLoad};
use revm::primitives::{AccessListItem, Address, Bytecode, Bytes, Eip7702Bytecode, SpecId, B256, KECCAK_EMPTY, U256};
use serde::{Deserialize, Serialize};
use sha3::{Digest, Keccak256};
use vcore::proptest::prelude::*;
use vcore::{ensure, fail, guarded, CaseResult, Ctx, Outcome};

// ------------------------------------------------------------------------------------------
// C13  gas meter
// ------------------------------------------------------------------------------------------

#[derive(Clone, Debug, Hash, Serialize, Deserialize)]
pub enum GasOp {
    /// charge `c`
    RecordCost(u64),
    /// charge remaining + delta (delta may be negative): lands on the boundary
    RecordCostNear(i8),
    /// give back `frac/65535` of what is currently spent (children never return more than they got)
    EraseCost(u16),
    RecordRefund(i64),
    SpendAll,
    SetSpent(u64),
    SetRefund(i64),
    SetFinalRefund(bool),
}

fn gas_op() -> impl Strategy<Value = GasOp> {
    prop_oneof![
        4 => u64_any().prop_map(GasOp::RecordCost),
        4 => (-3i8..=3).prop_map(GasOp::RecordCostNear),
        3 => any::<u16>().prop_map(GasOp::EraseCost),
        3 => (-(1i64 << 40)..(1i64 << 40)).prop_map(GasOp::RecordRefund),
        1 => Just(GasOp::SpendAll),
        1 => u64_any().prop_map(GasOp::SetSpent),
        1 => (0i64..(1i64 << 41)).prop_map(GasOp::SetRefund),
        2 => any::<bool>().prop_map(GasOp::SetFinalRefund),
    ]
}

fn c13_case(case: &(u64, bool, Vec<GasOp>)) -> CaseResult {
    let (limit, start_spent, ops) = case;
    let mut gas = if *start_spent { Gas::new_spent(*limit) } else { Gas::new(*limit) };
    // model
    let m_limit = *limit as i128;
    let mut m_rem: i128 = if *start_spent { 0 } else { m_limit };
    let mut m_ref: i128 = 0;
    let (mut failed, mut succeeded, mut capped) = (false, false, false);
    for (i, op) in ops.iter().enumerate() {
        match op {
            GasOp::RecordCost(_) | GasOp::RecordCostNear(_) => {
                let c: u64 = match op {
                    GasOp::RecordCost(c) => *c,
                    GasOp::RecordCostNear(d) => {
                        let t = m_rem + *d as i128;
                        if t < 0 || t > u64::MAX as i128 {
                            continue;
                        }
                        t as u64
                    }
                    _ => unreachable!(),
                };
                let ok = gas.record_cost(c);
                let want = (c as i128) <= m_rem;
                ensure!(ok == want, "C13|record_cost|verdict", "step {i}: record_cost({c}) with remaining {m_rem} returned {ok}");
                if want {
                    m_rem -= c as i128;
                    succeeded |= c > 0;
                } else {
                    failed = true;
                }
            }
            GasOp::EraseCost(frac) => {
                let spent = m_limit - m_rem;
                let r = (spent * (*frac as i128) / 65535) as u64;
                gas.erase_cost(r);
                m_rem += r as i128;
            }
            GasOp::RecordRefund(x) => {
                gas.record_refund(*x);
                m_ref += *x as i128;
            }
            GasOp::SpendAll => {
                gas.spend_all();
                m_rem = 0;
            }
            GasOp::SetSpent(s) => {
                gas.set_spent(*s);
                m_rem = (m_limit - *s as i128).max(0);
            }
            GasOp::SetRefund(x) => {
                gas.set_refund(*x);
                m_ref = *x as i128;
            }
            GasOp::SetFinalRefund(london) => {
                if m_ref < 0 {
                    continue; // a negative counter never reaches the end of a transaction
                }
                gas.set_final_refund(*london);
                let q = if *london { 5 } else { 2 };
                let cap = (m_limit - m_rem) / q;
                if m_ref > cap {
                    capped = true;
                }
                m_ref = m_ref.min(cap);
            }
        }
        ensure!(gas.limit() as i128 == m_limit, "C13|limit", "step {i} {op:?}: limit changed to {}", gas.limit());
        ensure!(gas.remaining() as i128 == m_rem, "C13|remaining", "step {i} {op:?}: remaining {} expected {m_rem}", gas.remaining());
        ensure!(gas.remaining() <= gas.limit(), "C13|remaining>limit", "step {i} {op:?}: remaining {} > limit {}", gas.remaining(), gas.limit());
        ensure!(gas.spent() as i128 == m_limit - m_rem, "C13|spent", "step {i} {op:?}: spent {} expected {}", gas.spent(), m_limit - m_rem);
        ensure!(gas.refunded() as i128 == m_ref, "C13|refunded", "step {i} {op:?}: refunded {} expected {m_ref}", gas.refunded());
        ensure!(
            gas.remaining_63_of_64_parts() as i128 == m_rem - m_rem / 64,
            "C13|63/64",
            "step {i}: remaining_63_of_64_parts {} expected {}",
            gas.remaining_63_of_64_parts(),
            m_rem - m_rem / 64
        );
        if m_ref >= 0 {
            let want = ((m_limit - m_rem) - m_ref).max(0);
            ensure!(gas.spent_sub_refunded() as i128 == want, "C13|spent_sub_refunded", "step {i}: spent_sub_refunded {} expected {want}", gas.spent_sub_refunded());
        }
    }
    Ok(Outcome::new(failed && succeeded).label_if(failed, "failed-charge").label_if(capped, "refund-capped"))
}

pub fn c13(ctx: &mut Ctx) {
    let n = ctx.tier.pick(200_000, 20_000_000);
    let strat = || (u64_any(), prop::bool::weighted(0.1), prop::collection::vec(gas_op(), 1..40));
    ctx.run_cases(
        "gas-meter",
        "random op sequences on interpreter::Gas vs an i128 model, compared after every op; non-trivial = sequence with both a failed and a successful non-zero charge; distinct by (limit, ops)",
        strat,
        n,
        c13_case,
    );
    ctx.expect_labels("gas-meter", &["failed-charge", "refund-capped"]);
    ctx.assumptions.push("erase_cost never returns more than what was spent; set_final_refund is only called with a non-negative refund counter (frame accounting preconditions)".into());
}

// ------------------------------------------------------------------------------------------
// C14  dynamic gas formulas
// ------------------------------------------------------------------------------------------

#[derive(Clone, Debug, Hash, Serialize, Deserialize)]
pub enum GasFn {
    NumWords(u64),
    MemoryGas(u64),
    VeryLowCopy(u64),
    Keccak(u64),
    Log(u8, u64),
    Exp(u8, U256),
    Create2(u64),
    Initcode(u64),
    ExtCodeCopy(u8, u64, bool),
    Sload(u8, bool),
    WarmCold(bool, Option<bool>),
    Call { spec: u8, value: bool, is_empty: bool, cold: bool, delegate: Option<bool> },
    Selfdestruct { spec: u8, had_value: bool, target_exists: bool, previously_destroyed: bool, cold: bool },
    Sstore { spec: u8, orig: u8, present: u8, new: u8, gas: u64, cold: bool },
    TxGas { spec: u8, zeros: u32, nonzeros: u32, create: bool, al: Vec<u8>, auths: u16 },
}

fn ub(x: u64) -> BigUint {
    BigUint::from(x)
}
fn words(len: u64) -> BigUint {
    (ub(len) + ub(31)) / ub(32)
}
fn fits(b: &BigUint) -> Option<u64> {
    b.to_u64()
}

fn slot_val(code: u8) -> U256 {
    match code % 4 {
        0 => U256::ZERO,
        1 => U256::from(1),
        2 => U256::from(2),
        _ => U256::MAX,
    }
}

/// EIP-2200 / EIP-2929 / EIP-3529 SSTORE gas and refund, transcribed from the EIP texts.
fn sstore_spec(e: Era, o: U256, p: U256, n: U256, gas_left: u64, cold: bool) -> (Option<u64>, i64) {
    if e < Era::Istanbul {
        let cost = if p.is_zero() && !n.is_zero() { 20000 } else { 5000 };
        let refund = if !p.is_zero() && n.is_zero() { 15000 } else { 0 };
        return (Some(cost), refund);
    }
    let (sload, reset, clears): (i64, i64, i64) = if e >= Era::London {
        (100, 2900, 4800)
    } else if e >= Era::Berlin {
        (100, 2900, 15000)
    } else {
        (800, 5000, 15000)
    };
    let set = 20000i64;
    let mut cost;
    let mut refund = 0i64;
    if p == n {
        cost = sload;
    } else if o == p {
        if o.is_zero() {
            cost = set;
        } else {
            cost = reset;
            if n.is_zero() {
                refund += clears;
            }
        }
    } else {
        cost = sload;
        if !o.is_zero() {
            if p.is_zero() {
                refund -= clears;
            } else if n.is_zero() {
                refund += clears;
            }
        }
        if o == n {
            if o.is_zero() {
                refund += set - sload;
            } else {
                refund += reset - sload;
            }
        }
    }
    if e >= Era::Berlin && cold {
        cost += 2100;
    }
    let cost = if gas_left <= 2300 { None } else { Some(cost as u64) };
    (cost, refund)
}

fn c14_case(c: &GasFn) -> CaseResult {
    macro_rules! same_opt {
        ($name:expr, $got:expr, $want:expr) => {{
            let got: Option<u64> = $got;
            let want: BigUint = $want;
            let w = fits(&want);
            ensure!(got == w, format!("C14|{}", $name), "{:?}: got {:?}, specification value {} (fits u64: {})", c, got, want, w.is_some());
        }};
    }
    match *c {
        GasFn::NumWords(len) => {
            let got = revm::interpreter::num_words(len);
            let want = words(len);
            let sig = if len > u64::MAX - 31 { "C14|num_words|len>2^64-32" } else { "C14|num_words" };
            ensure!(Some(got) == fits(&want), sig, "num_words({len}) = {got}, ceil(len/32) = {want}");
        }
        GasFn::MemoryGas(w) => {
            let want = ub(3) * ub(w) + (ub(w) * ub(w)) / ub(512);
            let want = fits(&want).unwrap_or(u64::MAX);
            let got = g::memory_gas(w);
            let sig = if w >= (1u64 << 32) { "C14|memory_gas|words>=2^32" } else { "C14|memory_gas" };
            ensure!(got == want, sig, "memory_gas({w}) = {got}, 3w+w^2/512 saturated = {want}");
        }
        GasFn::VeryLowCopy(len) => {
            if len > u64::MAX - 31 {
                // covered by the num_words clause
                return Ok(Outcome::trivial());
            }
            same_opt!("verylowcopy_cost", g::verylowcopy_cost(len), ub(3) + ub(3) * words(len))
        }
        GasFn::Keccak(len) => {
            if len > u64::MAX - 31 {
                return Ok(Outcome::trivial());
            }
            same_opt!("keccak256_cost", g::keccak256_cost(len), ub(30) + ub(6) * words(len))
        }
        GasFn::Log(n, len) => {
            let n = n % 5;
            same_opt!("log_cost", g::log_cost(n, len), ub(375) + ub(8) * ub(len) + ub(375) * ub(n as u64))
        }
        GasFn::Exp(s, p) => {
            let spec = spec_of(s);
            let bytes = (big(p).bits() + 7) / 8;
            let per = if era(spec) >= Era::Spurious { 50u64 } else { 10 };
            same_opt!("exp_cost", g::exp_cost(spec, p), ub(10) + ub(per) * ub(bytes))
        }
        GasFn::Create2(len) => {
            if len > u64::MAX - 31 {
                return Ok(Outcome::trivial());
            }
            same_opt!("create2_cost", g::create2_cost(len), ub(32000) + ub(6) * words(len))
        }
        GasFn::Initcode(len) => {
            if len > u64::MAX - 31 {
                return Ok(Outcome::trivial());
            }
            let got = guarded(|| g::initcode_cost(len)).ok();
            same_opt!("initcode_cost", got, ub(2) * words(len))
        }
        GasFn::ExtCodeCopy(s, len, cold) => {
            if len > u64::MAX - 31 {
                return Ok(Outcome::trivial());
            }
            let spec = spec_of(s);
            let e = era(spec);
            let base = if e >= Era::Berlin {
                if cold {
                    2600
                } else {
                    100
                }
            } else if e >= Era::Tangerine {
                700
            } else {
                20
            };
            same_opt!("extcodecopy_cost", g::extcodecopy_cost(spec, len, cold), ub(base) + ub(3) * words(len))
        }
        GasFn::Sload(s, cold) => {
            let spec = spec_of(s);
            let e = era(spec);
            let want = if e >= Era::Berlin {
                if cold {
                    2100
                } else {
                    100
                }
            } else if e >= Era::Istanbul {
                800
            } else if e >= Era::Tangerine {
                200
            } else {
                50
            };
            let got = g::sload_cost(spec, cold);
            ensure!(got == want, "C14|sload_cost", "{c:?}: got {got}, want {want}");
        }
        GasFn::WarmCold(cold, delegate) => {
            let acc = |c: bool| if c { 2600u64 } else { 100 };
            ensure!(g::warm_cold_cost(cold) == acc(cold), "C14|warm_cold_cost", "{c:?}");
            let load = Eip7702CodeLoad { state_load: StateLoad::new((), cold), is_delegate_account_cold: delegate };
            let want = acc(cold) + delegate.map(acc).unwrap_or(0);
            let got = g::warm_cold_cost_with_delegation(load);
            ensure!(got == want, "C14|warm_cold_cost_with_delegation", "{c:?}: got {got}, want {want}");
        }
        GasFn::Call { spec, value, is_empty, cold, delegate } => {
            let spec = spec_of(spec);
            let e = era(spec);
            let acc = |c: bool| if c { 2600u64 } else { 100 };
            let mut want = if e >= Era::Berlin {
                acc(cold) + delegate.map(acc).unwrap_or(0)
            } else if e >= Era::Tangerine {
                700
            } else {
                40
            };
            if value {
                want += 9000;
            }
            if is_empty && (e < Era::Spurious || value) {
                want += 25000;
            }
            let al = AccountLoad { load: Eip7702CodeLoad { state_load: StateLoad::new((), cold), is_delegate_account_cold: delegate }, is_empty };
            let got = g::call_cost(spec, value, al);
            ensure!(got == want, "C14|call_cost", "{c:?}: got {got}, want {want}");
        }
        GasFn::Selfdestruct { spec, had_value, target_exists, previously_destroyed, cold } => {
            let spec = spec_of(spec);
            let e = era(spec);
            let mut want = 0u64;
            if e >= Era::Tangerine {
                want += 5000;
                let topup = if e >= Era::Spurious { had_value && !target_exists } else { !target_exists };
                if topup {
                    want += 25000;
                }
            }
            if e >= Era::Berlin && cold {
                want += 2600;
            }
            let res = StateLoad::new(SelfDestructResult { had_value, target_exists, previously_destroyed }, cold);
            let got = g::selfdestruct_cost(spec, res);
            ensure!(got == want, "C14|selfdestruct_cost", "{c:?}: got {got}, want {want}");
        }
        GasFn::Sstore { spec, orig, present, new, gas, cold } => {
            let spec = spec_of(spec);
            let (o, p, n) = (slot_val(orig), slot_val(present), slot_val(new));
            let vals = SStoreResult { original_value: o, present_value: p, new_value: n };
            let (want_cost, want_refund) = sstore_spec(era(spec), o, p, n, gas, cold);
            let got_cost = g::sstore_cost(spec, &vals, gas, cold);
            ensure!(got_cost == want_cost, "C14|sstore_cost", "{c:?}: got {got_cost:?}, want {want_cost:?}");
            let got_refund = g::sstore_refund(spec, &vals);
            ensure!(got_refund == want_refund, "C14|sstore_refund", "{c:?}: got {got_refund}, want {want_refund}");
        }
        GasFn::TxGas { spec, zeros, nonzeros, create, ref al, auths } => {
            let spec = spec_of(spec);
            let e = era(spec);
            let mut data = vec![0u8; zeros as usize];
            data.extend((0..nonzeros).map(|i| (i % 255) as u8 + 1));
            // interleave deterministically so zero/non-zero runs are mixed
            if data.len() > 2 {
                let n = data.len();
                for i in (0..n / 2).step_by(3) {
                    data.swap(i, n - 1 - i);
                }
            }
            let access: Vec<AccessListItem> = al
                .iter()
                .enumerate()
                .map(|(i, k)| AccessListItem { address: Address::with_last_byte(i as u8), storage_keys: (0..*k).map(|j| B256::with_last_byte(j)).collect() })
                .collect();
            let keys: u64 = al.iter().map(|k| *k as u64).sum();
            let nz_cost = if e >= Era::Istanbul { 16 } else { 68 };
            let mut want = 21000u64 + zeros as u64 * 4 + nonzeros as u64 * nz_cost;
            if create && e >= Era::Homestead {
                want += 32000;
            }
            if e >= Era::Berlin {
                want += 2400 * al.len() as u64 + 1900 * keys;
            }
            if create && e >= Era::Shanghai {
                want += 2 * ((data.len() as u64 + 31) / 32);
            }
            let mut floor = 0;
            if e >= Era::Prague {
                want += 25000 * auths as u64;
                floor = 21000 + 10 * (zeros as u64 + 4 * nonzeros as u64);
            }
            let got = g::calculate_initial_tx_gas(spec, &data, create, &access, auths as u64);
            ensure!(got.initial_gas == want, "C14|intrinsic_gas", "{c:?}: intrinsic got {}, want {want}", got.initial_gas);
            ensure!(got.floor_gas == floor, "C14|floor_gas", "{c:?}: floor got {}, want {floor}", got.floor_gas);
        }
    }
    Ok(Outcome::nontrivial())
}

fn gas_fn() -> impl Strategy<Value = GasFn> {
    let sp = spec_idx();
    prop_oneof![
        2 => u64_any().prop_map(GasFn::NumWords),
        2 => u64_any().prop_map(GasFn::MemoryGas),
        1 => u64_any().prop_map(GasFn::VeryLowCopy),
        1 => u64_any().prop_map(GasFn::Keccak),
        2 => (0u8..5, u64_any()).prop_map(|(n, l)| GasFn::Log(n, l)),
        2 => (sp.clone(), word()).prop_map(|(s, p)| GasFn::Exp(s, p)),
        1 => u64_any().prop_map(GasFn::Create2),
        1 => u64_any().prop_map(GasFn::Initcode),
        2 => (sp.clone(), u64_any(), any::<bool>()).prop_map(|(s, l, c)| GasFn::ExtCodeCopy(s, l, c)),
        4 => (sp.clone(), 0u32..3000, 0u32..3000, any::<bool>(), prop::collection::vec(0u8..5, 0..5), 0u16..6)
            .prop_map(|(spec, zeros, nonzeros, create, al, auths)| GasFn::TxGas { spec, zeros, nonzeros, create, al, auths }),
    ]
}

pub fn c14(ctx: &mut Ctx) {
    // exhaustive finite parts
    let mut ex: Vec<GasFn> = vec![];
    for s in 0..MAINNET_SPECS.len() as u8 {
        for cold in [false, true] {
            ex.push(GasFn::Sload(s, cold));
            for d in [None, Some(false), Some(true)] {
                if s == 0 {
                    ex.push(GasFn::WarmCold(cold, d));
                }
                for value in [false, true] {
                    for is_empty in [false, true] {
                        ex.push(GasFn::Call { spec: s, value, is_empty, cold, delegate: d });
                    }
                }
            }
            for bits in 0..8u8 {
                ex.push(GasFn::Selfdestruct { spec: s, had_value: bits & 1 != 0, target_exists: bits & 2 != 0, previously_destroyed: bits & 4 != 0, cold });
            }
            for o in 0..4u8 {
                for p in 0..4u8 {
                    for n in 0..4u8 {
                        for gas in [0u64, 2299, 2300, 2301, 1_000_000, u64::MAX] {
                            ex.push(GasFn::Sstore { spec: s, orig: o, present: p, new: n, gas, cold });
                        }
                    }
                }
            }
        }
    }
    ctx.run_exhaustive(
        "finite-tables",
        "exhaustive: sload/call/selfdestruct/sstore cost+refund over every flag combination, (original,present,new) in {0,1,2,MAX}^3, gas in {0,2299,2300,2301,1e6,MAX}, every mainnet SpecId; oracle = own transcription of EIP-150/160/161/1884/2200/2929/3529/7702",
        ex,
        c14_case,
    );
    let n = ctx.tier.pick(300_000, 30_000_000);
    ctx.run_cases(
        "formulas",
        "random arguments (edges + log-uniform over u64/U256) for num_words, memory_gas, copy, keccak, log, exp, create2, initcode, extcodecopy, intrinsic+floor gas; oracle = BigUint formulas, None <=> true value > u64::MAX; every evaluated case is non-trivial, distinct by argument tuple",
        gas_fn,
        n,
        c14_case,
    );
}

// ------------------------------------------------------------------------------------------
// C32  blob fee functions
// ------------------------------------------------------------------------------------------

#[derive(Clone, Debug, Hash, Serialize, Deserialize)]
pub enum BlobFn {
    Price { excess: u64, prague: bool },
    FakeExp { factor: u64, numerator: u64, denominator: u64 },
    Excess { excess: u64, used: u64, target: u64 },
}

/// EIP-4844 fake_exponential over unbounded integers.
fn fake_exp_big(factor: u64, numerator: u64, denominator: u64) -> BigUint {
    let (f, n, d) = (ub(factor), ub(numerator), ub(denominator));
    let mut i = 1u64;
    let mut output = BigUint::zero();
    let mut acc = &f * &d;
    while !acc.is_zero() {
        output += &acc;
        acc = (&acc * &n) / (&d * ub(i));
        i += 1;
    }
    output / d
}

fn c32_case(c: &BlobFn) -> CaseResult {
    let u128max = BigUint::from(u128::MAX);
    match *c {
        BlobFn::Price { .. } | BlobFn::FakeExp { .. } => {
            let (factor, numerator, denominator, name) = match *c {
                BlobFn::Price { excess, prague } => (1u64, excess, if prague { 5007716u64 } else { 3338477 }, "calc_blob_gasprice"),
                BlobFn::FakeExp { factor, numerator, denominator } => (factor, numerator, denominator, "fake_exponential"),
                _ => unreachable!(),
            };
            // true value; for ratios > 120 and factor >= 1 it provably exceeds 2^128 (e^120 > 2^173)
            let ratio = numerator / denominator;
            let truth: Option<BigUint> = if factor == 0 {
                Some(BigUint::zero())
            } else if ratio > 120 {
                None
            } else {
                let t = fake_exp_big(factor, numerator, denominator);
                if t > u128max {
                    None
                } else {
                    Some(t)
                }
            };
            let got = guarded(|| match *c {
                BlobFn::Price { excess, prague } => revm::primitives::calc_blob_gasprice(excess, prague),
                _ => revm::primitives::fake_exponential(factor, numerator, denominator),
            });
            match (&truth, &got) {
                (Some(t), Ok(v)) => {
                    ensure!(&BigUint::from(*v) == t, format!("C32|{name}|wrong-value"), "{c:?}: returned {v}, EIP-4844 value {t}");
                }
                (Some(t), Err((loc, msg))) => {
                    return fail(format!("C32|{name}|panics-although-result-fits-u128"), format!("{c:?}: panicked at {loc} ({msg}) but the EIP-4844 value {t} fits in 128 bits"));
                }
                (None, Ok(v)) => {
                    ensure!(*v == u128::MAX, format!("C32|{name}|silent-wrong-value"), "{c:?}: the true value exceeds 2^128-1 but {v} was returned");
                }
                (None, Err(_)) => {}
            }
            let nt = matches!(&truth, Some(t) if t > &BigUint::from(1u8));
            Ok(Outcome::new(nt).label_if(truth.is_none(), "exceeds-u128").label_if(nt, "fits-u128"))
        }
        BlobFn::Excess { excess, used, target } => {
            let sum = BigInt::from(excess) + BigInt::from(used) - BigInt::from(target);
            let want = if sum < BigInt::zero() { BigInt::zero() } else { sum };
            let got = guarded(|| revm::primitives::calc_excess_blob_gas(excess, used, target));
            match (want.to_u64(), got) {
                (Some(w), Ok(v)) => ensure!(v == w, "C32|calc_excess_blob_gas|wrong-value", "{c:?}: returned {v}, max(0,e+u-t) = {w}"),
                (Some(w), Err((loc, msg))) => {
                    return fail("C32|calc_excess_blob_gas|panics-although-result-fits", format!("{c:?}: panicked at {loc} ({msg}); max(0,e+u-t) = {w} fits u64"))
                }
                (None, Ok(v)) => ensure!(v == u64::MAX, "C32|calc_excess_blob_gas|silent-wrong-value", "{c:?}: result does not fit u64 but {v} was returned"),
                (None, Err(_)) => {}
            }
            Ok(Outcome::new(excess as u128 + used as u128 > target as u128).label_if(excess.checked_add(used).is_none(), "sum-exceeds-u64"))
        }
    }
}

fn blob_fn() -> impl Strategy<Value = BlobFn> {
    let excess = prop_oneof![
        3 => u64_any(),
        3 => 0u64..400_000_000,
        2 => (0u64..200).prop_map(|k| k * 131072 * 3),
    ];
    prop_oneof![
        4 => (excess, any::<bool>()).prop_map(|(excess, prague)| BlobFn::Price { excess, prague }),
        3 => (u64_any(), u64_any(), u64_any().prop_map(|d| d.max(1))).prop_map(|(factor, numerator, denominator)| BlobFn::FakeExp { factor, numerator, denominator }),
        // ratios in the interesting band 0..130
        3 => (1u64..1_000_000, 1u64..100_000_000, 0u64..130, any::<u32>()).prop_map(|(factor, denominator, ratio, r)| BlobFn::FakeExp {
            factor,
            numerator: denominator.saturating_mul(ratio).saturating_add(r as u64 % denominator),
            denominator
        }),
        3 => (u64_any(), u64_any(), u64_any()).prop_map(|(excess, used, target)| BlobFn::Excess { excess, used, target }),
    ]
}

pub fn c32(ctx: &mut Ctx) {
    let n = ctx.tier.pick(200_000, 10_000_000);
    ctx.run_cases(
        "blob-fee",
        "calc_blob_gasprice / fake_exponential / calc_excess_blob_gas vs the EIP-4844 definitions over BigUint; non-trivial = true price > 1 that fits u128, or e+u>t; distinct by argument tuple",
        blob_fn,
        n,
        c32_case,
    );
    ctx.expect_labels("blob-fee", &["fits-u128", "exceeds-u128", "sum-exceeds-u64"]);
    ctx.assumptions.push("when the true value does not fit the return type, a panic or the saturated maximum are both accepted as 'not silently wrapped'".into());
}

// ------------------------------------------------------------------------------------------
// C27  bytecode keeps bytes and hash
// ------------------------------------------------------------------------------------------

#[derive(Clone, Debug, Hash, Serialize, Deserialize)]
pub enum CodeCase {
    Legacy(Vec<u8>),
    /// prefix kind (0: ef00, 1: ef01, 2: ef0100) + body
    Prefixed(u8, Vec<u8>),
    Designator([u8; 20]),
}

fn keccak(b: &[u8]) -> [u8; 32] {
    Keccak256::digest(b).into()
}

fn check_legacy_views(tag: &str, bc: &Bytecode, raw: &[u8]) -> Result<(), Vec<vcore::Failure>> {
    ensure!(bc.original_bytes().as_ref() == raw, format!("C27|{tag}|original_bytes"), "original_bytes differ from input ({} bytes)", raw.len());
    ensure!(bc.original_byte_slice() == raw, format!("C27|{tag}|original_byte_slice"), "original_byte_slice differs from input");
    ensure!(bc.len() == raw.len(), format!("C27|{tag}|len"), "len {} != {}", bc.len(), raw.len());
    ensure!(bc.is_empty() == raw.is_empty(), format!("C27|{tag}|is_empty"), "is_empty mismatch");
    let want = if raw.is_empty() { KECCAK_EMPTY.0 } else { keccak(raw) };
    ensure!(bc.hash_slow().0 == want, format!("C27|{tag}|hash"), "hash_slow {} != keccak(original) {}", bc.hash_slow(), hex(&want));
    Ok(())
}

fn c27_case(c: &CodeCase) -> CaseResult {
    match c {
        CodeCase::Legacy(raw) => {
            let bc = Bytecode::new_legacy(Bytes::from(raw.clone()));
            check_legacy_views("new_legacy", &bc, raw)?;
            let an = revm::interpreter::analysis::to_analysed(bc.clone());
            check_legacy_views("to_analysed", &an, raw)?;
            let padded = an.bytes();
            ensure!(padded.len() > raw.len() || matches!(an, Bytecode::LegacyRaw(_)), "C27|to_analysed|padding", "analysed code is not padded");
            ensure!(&padded[..raw.len()] == raw.as_slice(), "C27|to_analysed|prefix", "analysis changed original bytes");
            ensure!(padded[raw.len()..].iter().all(|b| *b == 0), "C27|to_analysed|padding-nonzero", "padding contains non-zero bytes");
            // a real STOP must terminate execution: at least one padding byte, and room for a trailing PUSH32's data
            ensure!(an.bytes_slice().len() == padded.len(), "C27|bytes_slice", "bytes_slice/bytes disagree");
            // analysing twice is idempotent
            let an2 = revm::interpreter::analysis::to_analysed(an.clone());
            ensure!(an2 == an, "C27|to_analysed|idempotent", "second analysis changed the bytecode");
            if !(raw.len() >= 2 && raw[0] == 0xef && (raw[1] == 0x00 || raw[1] == 0x01)) {
                match Bytecode::new_raw_checked(Bytes::from(raw.clone())) {
                    Ok(b) => check_legacy_views("new_raw_checked", &b, raw)?,
                    Err(e) => return fail("C27|new_raw_checked|rejects-legacy", format!("legacy bytes rejected: {e:?}")),
                }
            }
            Ok(Outcome::new(raw.len() > 1).label_if(raw.last().map(|b| (0x60..=0x7f).contains(b)).unwrap_or(false), "trailing-push"))
        }
        CodeCase::Prefixed(kind, body) => {
            let mut raw = match kind % 3 {
                0 => vec![0xef, 0x00],
                1 => vec![0xef, 0x01],
                _ => vec![0xef, 0x01, 0x00],
            };
            raw.extend_from_slice(body);
            let res = guarded(|| Bytecode::new_raw_checked(Bytes::from(raw.clone())));
            let res = match res {
                Ok(r) => r,
                Err((loc, msg)) => return fail("C27|new_raw_checked|panic", format!("panic at {loc}: {msg} on {}", hex(&raw))),
            };
            let mut nt = false;
            match res {
                Ok(bc @ Bytecode::Eip7702(_)) => {
                    ensure!(raw.len() == 23 && raw[..3] == [0xef, 0x01, 0x00], "C27|eip7702|accepts-malformed", "accepted malformed designator {}", hex(&raw));
                    check_legacy_views("eip7702", &bc, &raw)?;
                    if let Bytecode::Eip7702(d) = &bc {
                        ensure!(d.address().as_slice() == &raw[3..], "C27|eip7702|address", "decoded address differs");
                        ensure!(d.raw().as_ref() == raw.as_slice(), "C27|eip7702|raw", "raw differs");
                    }
                    nt = true;
                }
                Ok(bc @ Bytecode::Eof(_)) => {
                    ensure!(raw[..2] == [0xef, 0x00], "C27|eof|prefix", "non-EOF prefix decoded as EOF");
                    check_legacy_views("eof", &bc, &raw)?;
                    nt = true;
                }
                Ok(other) => return fail("C27|new_raw_checked|prefixed-as-legacy", format!("{} decoded as {other:?}", hex(&raw))),
                Err(_) => {
                    ensure!(!(raw.len() == 23 && raw[..3] == [0xef, 0x01, 0x00]), "C27|eip7702|rejects-wellformed", "well-formed designator rejected");
                }
            }
            Ok(Outcome::new(nt))
        }
        CodeCase::Designator(a) => {
            let addr = Address::from(*a);
            let d = Eip7702Bytecode::new(addr);
            let mut want = vec![0xef, 0x01, 0x00];
            want.extend_from_slice(a);
            ensure!(d.raw().as_ref() == want.as_slice(), "C27|Eip7702Bytecode::new|raw", "raw {} != ef0100||address", hex(d.raw()));
            ensure!(d.address() == addr, "C27|Eip7702Bytecode::new|address", "address differs");
            let back = Eip7702Bytecode::new_raw(Bytes::from(want.clone()));
            match back {
                Ok(b) => {
                    ensure!(b.address() == addr, "C27|Eip7702Bytecode::new_raw|address", "round-trip address differs");
                    ensure!(b.raw().as_ref() == want.as_slice(), "C27|Eip7702Bytecode::new_raw|raw", "round-trip raw differs");
                }
                Err(e) => return fail("C27|Eip7702Bytecode::new_raw|rejects", format!("{e:?}")),
            }
            let bc = Bytecode::new_eip7702(addr);
            check_legacy_views("new_eip7702", &bc, &want)?;
            // malformed variants are errors
            for (i, bad) in [want[..22].to_vec(), [want.clone(), vec![0]].concat(), { let mut v = want.clone(); v[2] = 1; v }, { let mut v = want.clone(); v[1] = 2; v }].iter().enumerate() {
                let r = guarded(|| Eip7702Bytecode::new_raw(Bytes::from(bad.clone())));
                match r {
                    Ok(Ok(_)) => return fail("C27|Eip7702Bytecode::new_raw|accepts-malformed", format!("variant {i}: {} accepted", hex(bad))),
                    Ok(Err(_)) => {}
                    Err((loc, m)) => return fail("C27|Eip7702Bytecode::new_raw|panic", format!("variant {i}: panic at {loc}: {m}")),
                }
            }
            Ok(Outcome::nontrivial())
        }
    }
}

fn code_bytes(max: usize) -> impl Strategy<Value = Vec<u8>> {
    prop_oneof![
        3 => prop::collection::vec(any::<u8>(), 0..max),
        2 => prop::collection::vec(prop_oneof![Just(0x5bu8), Just(0x60), Just(0x7f), Just(0x00), Just(0x61), any::<u8>()], 0..max),
        1 => prop::collection::vec(any::<u8>(), 0..40),
        // tails that look like analysis padding or like a cut PUSH: 0..80 zero bytes / STOPs / a trailing PUSHn with 0..n data bytes
        3 => (prop::collection::vec(any::<u8>(), 0..40), 0usize..80, prop_oneof![4 => Just(0x00u8), 1 => Just(0x5b), 1 => any::<u8>()]).prop_map(|(mut v, n, fill)| { v.extend(std::iter::repeat(fill).take(n)); v }),
        1 => (prop::collection::vec(any::<u8>(), 0..40), 0x60u8..=0x7f, 0usize..34).prop_map(|(mut v, push, k)| { v.push(push); v.extend(std::iter::repeat(0u8).take(k)); v }),
    ]
}

pub fn c27(ctx: &mut Ctx) {
    let n = ctx.tier.pick(100_000, 5_000_000);
    let strat = || prop_oneof![
        5 => code_bytes(400).prop_map(CodeCase::Legacy),
        2 => (0u8..3, prop_oneof![prop::collection::vec(any::<u8>(), 0..60), prop::collection::vec(any::<u8>(), 20..=21)]).prop_map(|(k, b)| CodeCase::Prefixed(k, b)),
        2 => any::<[u8; 20]>().prop_map(CodeCase::Designator),
    ];
    ctx.run_cases(
        "bytecode",
        "random byte strings through new_legacy/new_raw_checked/to_analysed/new_eip7702; oracle: views equal the input, hash = sha3-crate keccak256 (or empty hash), padding only zeros, designator round-trip; non-trivial = code longer than one byte or a decoded EF-prefixed object",
        strat,
        n,
        c27_case,
    );
    ctx.expect_labels("bytecode", &["trailing-push"]);
    let _ = SpecId::LATEST;
}
