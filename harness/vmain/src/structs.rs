//! C12 (Stack) and the data-structure half of C11 (SharedMemory): stateful sequences vs models.
use crate::common::*;
use revm::interpreter::{InstructionResult, SharedMemory, Stack};
use revm::primitives::{B256, U256};
use serde::{Deserialize, Serialize};
use vcore::proptest::prelude::*;
use vcore::{ensure, CaseResult, Ctx, Outcome};

// ------------------------------------------------------------------------------------------
// C12
// ------------------------------------------------------------------------------------------

#[derive(Clone, Debug, Hash, Serialize, Deserialize)]
pub enum StackOp {
    Push(U256),
    PushB256([u8; 32]),
    Pop,
    Peek(u16),
    Set(u16, U256),
    Dup(u16),
    Swap(u16),
    Exchange(u16, u16),
    PushSlice(Vec<u8>),
    /// push_slice of `n` bytes derived from a counter (large slices without large cases)
    PushSliceLen(u32),
    /// fill with `n` counter words (moves quickly to the boundary)
    Fill(u16),
    /// pop `n`
    Drain(u16),
}

pub fn stack_op() -> impl Strategy<Value = StackOp> {
    let near = prop_oneof![Just(0u16), Just(1), Just(2), Just(15), Just(16), Just(17), Just(1022), Just(1023), Just(1024), Just(1025), 0u16..1100];
    prop_oneof![
        4 => word().prop_map(StackOp::Push),
        1 => any::<[u8; 32]>().prop_map(StackOp::PushB256),
        3 => Just(StackOp::Pop),
        2 => near.clone().prop_map(StackOp::Peek),
        2 => (near.clone(), word()).prop_map(|(i, v)| StackOp::Set(i, v)),
        3 => near.clone().prop_map(|n| StackOp::Dup(n.max(1))),
        3 => near.clone().prop_map(|n| StackOp::Swap(n.max(1))),
        3 => (0u16..40, 1u16..40).prop_map(|(n, m)| StackOp::Exchange(n, m)),
        1 => (near.clone(), near.clone()).prop_map(|(n, m)| StackOp::Exchange(n, m.max(1))),
        3 => prop::collection::vec(any::<u8>(), 0..100).prop_map(StackOp::PushSlice),
        2 => prop_oneof![0u32..70, 32_700u32..33_100, Just(32768), Just(32769), Just(32767), 0u32..40_000].prop_map(StackOp::PushSliceLen),
        3 => prop_oneof![Just(1020u16), Just(1023), Just(1024), 0u16..1100].prop_map(StackOp::Fill),
        2 => prop_oneof![Just(1u16), Just(1024), 0u16..1100].prop_map(StackOp::Drain),
    ]
}

fn be_words(slice: &[u8]) -> Vec<U256> {
    // every 32-byte chunk is one big-endian word; a final shorter chunk is the big-endian integer
    // of its bytes (what PUSHn of the remaining bytes pushes; see DESIGN.md C12 on "padding")
    slice.chunks(32).map(U256::from_be_slice).collect()
}

pub fn c12_case(ops: &Vec<StackOp>) -> CaseResult {
    let mut st = Stack::new();
    let mut model: Vec<U256> = Vec::new();
    let (mut over, mut under) = (false, false);
    let mut counter = 0u64;
    for (i, op) in ops.iter().enumerate() {
        let before = model.clone();
        let (got, want): (Result<Option<U256>, InstructionResult>, Result<Option<U256>, InstructionResult>) = match op {
            StackOp::Push(v) => (st.push(*v).map(|_| None), if model.len() >= 1024 { Err(InstructionResult::StackOverflow) } else { model.push(*v); Ok(None) }),
            StackOp::PushB256(b) => {
                let v = U256::from_be_bytes(*b);
                (st.push_b256(B256::from(*b)).map(|_| None), if model.len() >= 1024 { Err(InstructionResult::StackOverflow) } else { model.push(v); Ok(None) })
            }
            StackOp::Pop => (st.pop().map(Some), model.pop().map(Some).ok_or(InstructionResult::StackUnderflow)),
            StackOp::Peek(n) => {
                let n = *n as usize;
                (st.peek(n).map(Some), if n < model.len() { Ok(Some(model[model.len() - 1 - n])) } else { Err(InstructionResult::StackUnderflow) })
            }
            StackOp::Set(n, v) => {
                let n = *n as usize;
                let w = if n < model.len() {
                    let l = model.len();
                    model[l - 1 - n] = *v;
                    Ok(None)
                } else {
                    Err(InstructionResult::StackUnderflow)
                };
                (st.set(n, *v).map(|_| None), w)
            }
            StackOp::Dup(n) => {
                let n = *n as usize;
                let w = if model.len() < n {
                    Err(InstructionResult::StackUnderflow)
                } else if model.len() + 1 > 1024 {
                    Err(InstructionResult::StackOverflow)
                } else {
                    model.push(model[model.len() - n]);
                    Ok(None)
                };
                (st.dup(n).map(|_| None), w)
            }
            StackOp::Swap(n) => {
                let n = *n as usize;
                let w = if n >= model.len() {
                    Err(InstructionResult::StackUnderflow)
                } else {
                    let l = model.len();
                    model.swap(l - 1, l - 1 - n);
                    Ok(None)
                };
                (st.swap(n).map(|_| None), w)
            }
            StackOp::Exchange(n, m) => {
                let (n, m) = (*n as usize, *m as usize);
                let w = if n + m >= model.len() {
                    Err(InstructionResult::StackUnderflow)
                } else {
                    let l = model.len();
                    model.swap(l - 1 - n, l - 1 - n - m);
                    Ok(None)
                };
                (st.exchange(n, m).map(|_| None), w)
            }
            StackOp::PushSlice(_) | StackOp::PushSliceLen(_) => {
                let bytes: Vec<u8> = match op {
                    StackOp::PushSlice(b) => b.clone(),
                    StackOp::PushSliceLen(n) => (0..*n).map(|k| (k.wrapping_mul(2654435761) >> 13) as u8).collect(),
                    _ => unreachable!(),
                };
                let ws = be_words(&bytes);
                let w = if model.len() + ws.len() > 1024 {
                    Err(InstructionResult::StackOverflow)
                } else {
                    model.extend(ws);
                    Ok(None)
                };
                (st.push_slice(&bytes).map(|_| None), w)
            }
            StackOp::Fill(n) => {
                for _ in 0..*n {
                    counter += 1;
                    let v = U256::from(counter) << 100usize | U256::from(counter);
                    let g = st.push(v);
                    let w = if model.len() >= 1024 { Err(InstructionResult::StackOverflow) } else { model.push(v); Ok(()) };
                    ensure!(g == w, "C12|push|verdict", "step {i} fill: push returned {g:?}, model {w:?} at len {}", model.len());
                    if w.is_err() {
                        over = true;
                        break;
                    }
                }
                (Ok(None), Ok(None))
            }
            StackOp::Drain(n) => {
                for _ in 0..*n {
                    let g = st.pop();
                    let w = model.pop().ok_or(InstructionResult::StackUnderflow);
                    ensure!(g == w, "C12|pop|verdict", "step {i} drain: pop returned {g:?}, model {w:?}");
                    if w.is_err() {
                        under = true;
                        break;
                    }
                }
                (Ok(None), Ok(None))
            }
        };
        let name = match op {
            StackOp::Push(_) | StackOp::PushB256(_) => "push",
            StackOp::Pop => "pop",
            StackOp::Peek(_) => "peek",
            StackOp::Set(..) => "set",
            StackOp::Dup(_) => "dup",
            StackOp::Swap(_) => "swap",
            StackOp::Exchange(..) => "exchange",
            StackOp::PushSlice(_) | StackOp::PushSliceLen(_) => "push_slice",
            StackOp::Fill(_) => "push",
            StackOp::Drain(_) => "pop",
        };
        ensure!(got == want, format!("C12|{name}|verdict"), "step {i} {}: returned {got:?}, model says {want:?} (len before {})", short(op), before.len());
        match want {
            Err(InstructionResult::StackOverflow) => {
                over = true;
                ensure!(model == before, "C12|model", "model changed on error");
            }
            Err(_) => under = true,
            Ok(_) => {}
        }
        ensure!(st.len() == model.len(), format!("C12|{name}|len"), "step {i} {}: len {} expected {}", short(op), st.len(), model.len());
        ensure!(st.len() <= 1024, "C12|len>1024", "step {i}: stack length {}", st.len());
        if st.data().as_slice() != model.as_slice() {
            let pos = st.data().iter().zip(model.iter()).position(|(a, b)| a != b);
            let sig = if want.is_err() { format!("C12|{name}|changed-on-error") } else { format!("C12|{name}|contents") };
            return vcore::fail(sig, format!("step {i} {}: contents differ from the model at index {pos:?} (len {})", short(op), model.len()));
        }
    }
    Ok(Outcome::new(over && under).label_if(over, "overflow").label_if(under, "underflow"))
}

fn short(op: &StackOp) -> String {
    match op {
        StackOp::PushSlice(b) => format!("PushSlice(len {})", b.len()),
        o => format!("{o:?}"),
    }
}

pub fn c12(ctx: &mut Ctx) {
    let n = ctx.tier.pick(60_000, 5_000_000);
    ctx.run_cases(
        "stack-ops",
        "random op sequences (push/pop/peek/set/dup/swap/exchange/push_slice incl. lengths around 32768, fills to the 1024 boundary) on interpreter::Stack vs a Vec model, compared after every op; non-trivial = sequence with both an overflow and an underflow error; distinct by sequence",
        || prop::collection::vec(stack_op(), 1..40),
        n,
        c12_case,
    );
    ctx.expect_labels("stack-ops", &["overflow", "underflow"]);
    ctx.assumptions.push("dup(0) and exchange(_,0) are excluded: documented preconditions (assume!) of the API".into());
    ctx.assumptions.push("push_slice: a final partial chunk is pushed as the big-endian integer of its bytes (the repository's own unit test push_slice(&[42]) == 42 and PUSHn semantics)".into());
}

// ------------------------------------------------------------------------------------------
// C11 (a)  SharedMemory
// ------------------------------------------------------------------------------------------

#[derive(Clone, Debug, Hash, Serialize, Deserialize)]
pub enum MemOp {
    NewContext,
    FreeContext,
    /// grow by `n` words
    Grow(u8),
    Set(u16, Vec<u8>),
    SetByte(u16, u8),
    SetU256(u16, U256),
    /// (mem_off frac, len frac, data_off, data)
    SetData(u16, u16, u16, Vec<u8>),
    Copy(u16, u16, u16),
    ReadWord(u16),
}

fn mem_op() -> impl Strategy<Value = MemOp> {
    prop_oneof![
        3 => Just(MemOp::NewContext),
        3 => Just(MemOp::FreeContext),
        4 => (0u8..6).prop_map(MemOp::Grow),
        3 => (any::<u16>(), prop::collection::vec(1u8..=255, 0..80)).prop_map(|(o, d)| MemOp::Set(o, d)),
        2 => (any::<u16>(), 1u8..=255).prop_map(|(o, b)| MemOp::SetByte(o, b)),
        2 => (any::<u16>(), word()).prop_map(|(o, w)| MemOp::SetU256(o, w)),
        3 => (any::<u16>(), any::<u16>(), prop_oneof![0u16..100, Just(u16::MAX)], prop::collection::vec(1u8..=255, 0..80)).prop_map(|(a, b, c, d)| MemOp::SetData(a, b, c, d)),
        2 => (any::<u16>(), any::<u16>(), any::<u16>()).prop_map(|(a, b, c)| MemOp::Copy(a, b, c)),
        1 => any::<u16>().prop_map(MemOp::ReadWord),
    ]
}

fn frac(f: u16, n: usize) -> usize {
    // 0..=n
    ((f as usize) * (n + 1)) >> 16
}

fn c11a_case(ops: &Vec<MemOp>) -> CaseResult {
    let mut mem = SharedMemory::new();
    // model: root context + pushed contexts
    let mut model: Vec<Vec<u8>> = vec![vec![]];
    let mut max_depth = 0usize;
    let mut regrow_after_child_write = false;
    let mut child_wrote_beyond = vec![false];
    for (i, op) in ops.iter().enumerate() {
        let cur_len = model.last().unwrap().len();
        match op {
            MemOp::NewContext => {
                if model.len() > 40 {
                    continue;
                }
                mem.new_context();
                model.push(vec![]);
                child_wrote_beyond.push(false);
            }
            MemOp::FreeContext => {
                mem.free_context();
                if model.len() > 1 {
                    let child = model.pop().unwrap();
                    child_wrote_beyond.pop();
                    if child.iter().any(|b| *b != 0) {
                        *child_wrote_beyond.last_mut().unwrap() = true;
                    }
                }
            }
            MemOp::Grow(w) => {
                let new = cur_len + *w as usize * 32;
                mem.resize(new);
                if *w > 0 && *child_wrote_beyond.last().unwrap() {
                    regrow_after_child_write = true;
                }
                model.last_mut().unwrap().resize(new, 0);
            }
            MemOp::Set(o, d) => {
                if d.len() > cur_len {
                    continue;
                }
                let off = frac(*o, cur_len - d.len());
                mem.set(off, d);
                model.last_mut().unwrap()[off..off + d.len()].copy_from_slice(d);
            }
            MemOp::SetByte(o, b) => {
                if cur_len == 0 {
                    continue;
                }
                let off = frac(*o, cur_len - 1);
                mem.set_byte(off, *b);
                model.last_mut().unwrap()[off] = *b;
            }
            MemOp::SetU256(o, w) => {
                if cur_len < 32 {
                    continue;
                }
                let off = frac(*o, cur_len - 32);
                mem.set_u256(off, *w);
                model.last_mut().unwrap()[off..off + 32].copy_from_slice(&w.to_be_bytes::<32>());
                let back = mem.get_u256(off);
                ensure!(back == *w, "C11|set_u256/get_u256", "step {i}: wrote {w} read {back}");
            }
            MemOp::SetData(mo, lf, doff, data) => {
                let len = frac(*lf, cur_len);
                let moff = frac(*mo, cur_len - len);
                let doff = if *doff == u16::MAX { usize::MAX } else { *doff as usize };
                mem.set_data(moff, doff, len, data);
                let m = model.last_mut().unwrap();
                for k in 0..len {
                    m[moff + k] = doff.checked_add(k).and_then(|j| data.get(j)).copied().unwrap_or(0);
                }
            }
            MemOp::Copy(d, s, l) => {
                let len = frac(*l, cur_len);
                let dst = frac(*d, cur_len - len);
                let src = frac(*s, cur_len - len);
                mem.copy(dst, src, len);
                let m = model.last_mut().unwrap();
                let tmp = m[src..src + len].to_vec();
                m[dst..dst + len].copy_from_slice(&tmp);
            }
            MemOp::ReadWord(o) => {
                if cur_len < 32 {
                    continue;
                }
                let off = frac(*o, cur_len - 32);
                let got = mem.get_word(off);
                ensure!(got.as_slice() == &model.last().unwrap()[off..off + 32], "C11|get_word", "step {i}: get_word({off}) differs from the model");
                ensure!(mem.slice(off, 32) == &model.last().unwrap()[off..off + 32], "C11|slice", "step {i}: slice differs");
            }
        }
        max_depth = max_depth.max(model.len());
        let top = model.last().unwrap();
        ensure!(mem.len() == top.len(), "C11|shared-memory|len", "step {i} {}: len {} expected {}", mshort(op), mem.len(), top.len());
        ensure!(mem.is_empty() == top.is_empty(), "C11|shared-memory|is_empty", "step {i}");
        if mem.context_memory() != top.as_slice() {
            let pos = mem.context_memory().iter().zip(top.iter()).position(|(a, b)| a != b);
            return vcore::fail("C11|shared-memory|contents", format!("step {i} {}: context memory differs from the model at byte {pos:?} (len {}, depth {})", mshort(op), top.len(), model.len()));
        }
        let w = (top.len() as u64 + 31) / 32;
        ensure!(mem.current_expansion_cost() == 3 * w + w * w / 512, "C11|shared-memory|expansion-cost", "step {i}: current_expansion_cost {}", mem.current_expansion_cost());
    }
    Ok(Outcome::new(max_depth >= 3 && regrow_after_child_write).label_if(regrow_after_child_write, "regrow-over-child-bytes").label_if(max_depth >= 3, "nested>=2"))
}

fn mshort(op: &MemOp) -> String {
    match op {
        MemOp::Set(o, d) => format!("Set({o}, len {})", d.len()),
        MemOp::SetData(a, b, c, d) => format!("SetData({a},{b},{c}, data len {})", d.len()),
        o => format!("{o:?}"),
    }
}

pub fn c11a(ctx: &mut Ctx) {
    let n = ctx.tier.pick(60_000, 3_000_000);
    ctx.run_cases(
        "shared-memory",
        "random sequences of new_context/free_context/resize/set/set_byte/set_u256/set_data/copy/reads on SharedMemory vs a stack-of-Vec model, whole context compared after every op (writes use non-zero bytes so stale data is visible); non-trivial = >= 2 nested contexts and a context grown again after a deeper context wrote non-zero bytes there",
        || prop::collection::vec(mem_op(), 1..60),
        n,
        c11a_case,
    );
    ctx.expect_labels("shared-memory", &["regrow-over-child-bytes", "nested>=2"]);
}
