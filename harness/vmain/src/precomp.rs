//! C23: precompiles return the output and gas their EIPs define.
//!
//! Every oracle here is independent of revm-precompile and of its backends: `refcrypto` (own
//! SHA-256 / RIPEMD-160 / BLAKE2 F / modexp / secp256k1 recovery / BN254 and BLS12-381 affine
//! arithmetic over BigUint), own gas tables, and — for the pairings — bilinearity by construction
//! (a product of pairings of known multiples of the generators is 1 iff sum(a_i*b_i) = 0 mod order).
use crate::evmrun::*;
use num_bigint::BigUint;
use num_traits::{One, Zero};
use refcrypto::{bls12_381 as bls, bn254 as bn, secp256k1 as secp};
use refevm as r;
use revm::primitives::{Bytes, Env, ExecutionResult, PrecompileError, PrecompileErrors, SpecId};
use revm_precompile::{PrecompileSpecId, Precompiles};
use serde::{Deserialize, Serialize};
use vcore::proptest::prelude::*;
use vcore::{ensure, CaseResult, Ctx, Failure, Outcome};

// ------------------------------------------------------------------------------------------
// case type
// ------------------------------------------------------------------------------------------

/// Bytes that serialise as a hex string (compact replay files).
#[derive(Clone, Debug, Hash, PartialEq, Eq)]
pub struct Hx(pub Vec<u8>);
impl Serialize for Hx {
    fn serialize<S: serde::Serializer>(&self, s: S) -> Result<S::Ok, S::Error> {
        s.serialize_str(&hex::encode(&self.0))
    }
}
impl<'de> Deserialize<'de> for Hx {
    fn deserialize<D: serde::Deserializer<'de>>(d: D) -> Result<Self, D::Error> {
        let s = String::deserialize(d)?;
        hex::decode(&s).map(Hx).map_err(serde::de::Error::custom)
    }
}

#[derive(Clone, Debug, Hash, PartialEq, Eq, Serialize, Deserialize)]
pub enum GasSel {
    /// exactly the defined cost
    Exact,
    /// defined cost - 1 (must run out of gas)
    Minus1,
    Plus1,
    Large,
    Zero,
    Fixed(u64),
}

/// How a pairing input built from scalar pairs is perturbed.
#[derive(Clone, Debug, Hash, PartialEq, Eq, Serialize, Deserialize)]
pub enum PairTweak {
    None,
    /// drop the last `n` bytes
    Truncate(u8),
    /// append `n` zero bytes
    Extend(u8),
    /// replace the G2 point of pair 0 by a point of the twist outside the subgroup
    G2OffSubgroup,
    /// replace the G1 point of pair 0 by a point off the curve (BN254) / outside the subgroup (BLS)
    G1Bad,
    /// set one coordinate of pair 0 to the field modulus
    CoordEqualsModulus(u8),
    /// pair 0 has an infinity G1 / G2
    InfG1,
    InfG2,
}

#[derive(Clone, Debug, Hash, PartialEq, Eq, Serialize, Deserialize)]
pub enum KzgKind {
    /// constant polynomial c: commitment c*G1, any z, y = c, proof = infinity (independent G1 arithmetic)
    Constant { c: u64, z: Hx },
    /// random blob through the c-kzg prover API
    Blob { seed: u64, z: Hx },
}

#[derive(Clone, Debug, Hash, PartialEq, Eq, Serialize, Deserialize)]
pub enum KzgTamper {
    None,
    HashVersion,
    HashByte,
    ZNonCanonical,
    YNonCanonical,
    YWrong,
    ProofWrong,
    CommitmentOffCurve,
    CommitmentOffSubgroup,
    Short,
    Long,
}

#[derive(Clone, Debug, Hash, PartialEq, Eq, Serialize, Deserialize)]
pub enum PcInput {
    /// oracle decodes the bytes itself
    Raw { addr: u16, bytes: Hx },
    /// pairs (a_i, b_i): e(a_i*G1, b_i*G2); `fix` appends the pair that makes the product 1
    BnPairing { pairs: Vec<(u64, u64)>, fix: bool, tweak: PairTweak },
    BlsPairing { pairs: Vec<(u64, u64)>, fix: bool, tweak: PairTweak },
    Kzg { kind: KzgKind, tamper: KzgTamper },
}

#[derive(Clone, Debug, Hash, PartialEq, Eq, Serialize, Deserialize)]
pub struct PcCase {
    /// 0 HOMESTEAD, 1 BYZANTIUM, 2 ISTANBUL, 3 BERLIN, 4 CANCUN, 5 PRAGUE
    pub era: u8,
    pub gas: GasSel,
    pub input: PcInput,
    /// also run as a transaction sent to the precompile
    pub tx_level: bool,
}

// ------------------------------------------------------------------------------------------
// encodings
// ------------------------------------------------------------------------------------------

fn be(v: &BigUint, n: usize) -> Vec<u8> {
    let b = v.to_bytes_be();
    let mut out = vec![0u8; n];
    if b.len() <= n {
        out[n - b.len()..].copy_from_slice(&b);
    } else {
        out.copy_from_slice(&b[b.len() - n..]);
    }
    out
}
fn bu(b: &[u8]) -> BigUint {
    BigUint::from_bytes_be(b)
}
fn rpad(input: &[u8], n: usize) -> Vec<u8> {
    let mut v = input[..input.len().min(n)].to_vec();
    v.resize(n, 0);
    v
}

fn bn_g1_enc(p: &bn::G1) -> Vec<u8> {
    match p {
        bn::G1::Inf => vec![0u8; 64],
        bn::G1::Aff(x, y) => [be(x, 32), be(y, 32)].concat(),
    }
}
fn bn_g2_enc(p: &bn::G2) -> Vec<u8> {
    match p {
        bn::G2::Inf => vec![0u8; 128],
        // EIP-197: imaginary part first
        bn::G2::Aff(x, y) => [be(&x.1, 32), be(&x.0, 32), be(&y.1, 32), be(&y.0, 32)].concat(),
    }
}
fn bn_g1_dec(b: &[u8]) -> Option<bn::G1> {
    let (x, y) = (bu(&b[..32]), bu(&b[32..64]));
    if x.is_zero() && y.is_zero() {
        return Some(bn::G1::Inf);
    }
    if bn::g1_on_curve(&x, &y) {
        Some(bn::G1::Aff(x, y))
    } else {
        None
    }
}
fn bls_fp_enc(v: &BigUint) -> Vec<u8> {
    be(v, 64)
}
fn bls_g1_enc(p: &bls::G1) -> Vec<u8> {
    match p {
        bls::G1::Inf => vec![0u8; 128],
        bls::G1::Aff(x, y) => [bls_fp_enc(x), bls_fp_enc(y)].concat(),
    }
}
fn bls_g2_enc(p: &bls::G2) -> Vec<u8> {
    match p {
        bls::G2::Inf => vec![0u8; 256],
        bls::G2::Aff(x, y) => [bls_fp_enc(&x.0), bls_fp_enc(&x.1), bls_fp_enc(&y.0), bls_fp_enc(&y.1)].concat(),
    }
}
fn bls_fp_dec(b: &[u8]) -> Option<BigUint> {
    if b[..16].iter().any(|x| *x != 0) {
        return None;
    }
    let v = bu(&b[16..64]);
    if v < bls::p() {
        Some(v)
    } else {
        None
    }
}
fn bls_g1_dec(b: &[u8], subgroup: bool) -> Option<bls::G1> {
    let (x, y) = (bls_fp_dec(&b[..64])?, bls_fp_dec(&b[64..128])?);
    if x.is_zero() && y.is_zero() {
        return Some(bls::G1::Inf);
    }
    if !bls::g1_on_curve(&x, &y) {
        return None;
    }
    let p = bls::G1::Aff(x, y);
    if subgroup && !bls::g1_in_subgroup(&p) {
        return None;
    }
    Some(p)
}
fn bls_g2_dec(b: &[u8], subgroup: bool) -> Option<bls::G2> {
    let x = (bls_fp_dec(&b[..64])?, bls_fp_dec(&b[64..128])?);
    let y = (bls_fp_dec(&b[128..192])?, bls_fp_dec(&b[192..256])?);
    if x.0.is_zero() && x.1.is_zero() && y.0.is_zero() && y.1.is_zero() {
        return Some(bls::G2::Inf);
    }
    if !bls::g2_on_curve(&x, &y) {
        return None;
    }
    let p = bls::G2::Aff(x, y);
    if subgroup && !bls::g2_in_subgroup(&p) {
        return None;
    }
    Some(p)
}
/// 48-byte compressed G1 (ZCash format used by KZG).
fn bls_g1_compress(p: &bls::G1) -> Vec<u8> {
    match p {
        bls::G1::Inf => {
            let mut v = vec![0u8; 48];
            v[0] = 0xc0;
            v
        }
        bls::G1::Aff(x, y) => {
            let mut v = be(x, 48);
            v[0] |= 0x80;
            let neg = bls::p() - y;
            if *y > neg {
                v[0] |= 0x20;
            }
            v
        }
    }
}

// ------------------------------------------------------------------------------------------
// expectations
// ------------------------------------------------------------------------------------------

#[derive(Clone, Debug)]
enum Exp {
    /// defined result: cost and output (`None` = too large to compute; only affordable in no generated case)
    Ok { gas: BigUint, out: Option<Vec<u8>> },
    /// the EIP says the call fails; `cost` = the defined charge when one exists for this input
    Invalid { cost: Option<BigUint> },
    /// validity predicate instead of a single answer (map-to-curve): the output must satisfy `check`
    Pred { gas: BigUint, kind: u8 },
}

const G1_DISCOUNT: [u16; 128] = [
    1000, 949, 848, 797, 764, 750, 738, 728, 719, 712, 705, 698, 692, 687, 682, 677, 673, 669, 665, 661, 658, 654, 651, 648, 645, 642, 640, 637, 635, 632, 630, 627, 625, 623, 621, 619, 617, 615, 613, 611, 609, 608, 606, 604, 603, 601, 599,
    598, 596, 595, 593, 592, 591, 589, 588, 586, 585, 584, 582, 581, 580, 579, 577, 576, 575, 574, 573, 572, 570, 569, 568, 567, 566, 565, 564, 563, 562, 561, 560, 559, 558, 557, 556, 555, 554, 553, 552, 551, 550, 549, 548, 547, 547, 546, 545,
    544, 543, 542, 541, 540, 540, 539, 538, 537, 536, 536, 535, 534, 533, 532, 532, 531, 530, 529, 528, 528, 527, 526, 525, 525, 524, 523, 522, 522, 521, 520, 520, 519,
];
const G2_DISCOUNT: [u16; 128] = [
    1000, 1000, 923, 884, 855, 832, 812, 796, 782, 770, 759, 749, 740, 732, 724, 717, 711, 704, 699, 693, 688, 683, 679, 674, 670, 666, 663, 659, 655, 652, 649, 646, 643, 640, 637, 634, 632, 629, 627, 624, 622, 620, 618, 615, 613, 611, 609,
    607, 606, 604, 602, 600, 598, 597, 595, 593, 592, 590, 589, 587, 586, 584, 583, 582, 580, 579, 578, 576, 575, 574, 573, 571, 570, 569, 568, 567, 566, 565, 563, 562, 561, 560, 559, 558, 557, 556, 555, 554, 553, 552, 552, 551, 550, 549, 548,
    547, 546, 545, 545, 544, 543, 542, 541, 541, 540, 539, 538, 537, 537, 536, 535, 535, 534, 533, 532, 532, 531, 530, 530, 529, 528, 528, 527, 526, 526, 525, 524, 524,
];

fn words(n: usize) -> u64 {
    (n as u64 + 31) / 32
}

fn msm_gas(k: usize, table: &[u16; 128], mul_cost: u64) -> BigUint {
    if k == 0 {
        return BigUint::zero();
    }
    let d = table[(k - 1).min(127)] as u64;
    BigUint::from(k as u64) * d * mul_cost / 1000u32
}

/// Oracle of the byte-decoded precompiles.
fn expect_raw(addr: u16, era: u8, input: &[u8]) -> Exp {
    let g = |n: u64| BigUint::from(n);
    match addr {
        1 => {
            let i = rpad(input, 128);
            let gas = g(3000);
            let v_ok = i[32..63].iter().all(|b| *b == 0) && (i[63] == 27 || i[63] == 28);
            if !v_ok {
                return Exp::Ok { gas, out: Some(vec![]) };
            }
            let (z, rr, s) = (bu(&i[..32]), bu(&i[64..96]), bu(&i[96..128]));
            match secp::recover(&z, &rr, &s, i[63] == 28) {
                Some((x, y)) => {
                    let h = r::keccak256(&[be(&x, 32), be(&y, 32)].concat());
                    let mut out = vec![0u8; 32];
                    out[12..].copy_from_slice(&h[12..]);
                    Exp::Ok { gas, out: Some(out) }
                }
                None => Exp::Ok { gas, out: Some(vec![]) },
            }
        }
        2 => Exp::Ok { gas: g(60 + 12 * words(input.len())), out: Some(refcrypto::sha256(input).to_vec()) },
        3 => {
            let mut out = vec![0u8; 32];
            out[12..].copy_from_slice(&refcrypto::ripemd160(input));
            Exp::Ok { gas: g(600 + 120 * words(input.len())), out: Some(out) }
        }
        4 => Exp::Ok { gas: g(15 + 3 * words(input.len())), out: Some(input.to_vec()) },
        5 => {
            let head = rpad(input, 96);
            let (bl, el, ml) = (bu(&head[..32]), bu(&head[32..64]), bu(&head[64..96]));
            let data: &[u8] = if input.len() > 96 { &input[96..] } else { &[] };
            let at = |off: &BigUint, len: usize| -> Vec<u8> {
                // `len` bytes of the zero-extended data starting at `off`
                let mut v = vec![0u8; len];
                if let Ok(o) = usize::try_from(off.clone()) {
                    for (k, slot) in v.iter_mut().enumerate() {
                        if let Some(b) = o.checked_add(k).and_then(|p| data.get(p)) {
                            *slot = *b;
                        }
                    }
                }
                v
            };
            let head_len = std::cmp::min(el.clone(), BigUint::from(32u32));
            let head_len = usize::try_from(head_len).unwrap();
            let exp_head = bu(&at(&bl, head_len));
            let gas = if era >= 3 { refcrypto::modexp_gas_berlin(&bl, &el, &ml, &exp_head) } else { refcrypto::modexp_gas_byzantium(&bl, &el, &ml, &exp_head) };
            let total = &bl + &el + &ml;
            // outputs are only computed for calls that some generated gas limit can afford
            if total > BigUint::from(1u32 << 22) || gas > BigUint::from(50_000_000u64) {
                // EIP-198: with base and modulus both empty the result is empty whatever the exponent length
                if bl.is_zero() && ml.is_zero() {
                    return Exp::Ok { gas, out: Some(vec![]) };
                }
                return Exp::Ok { gas, out: None };
            }
            let (b, e, m) = (usize::try_from(bl.clone()).unwrap(), usize::try_from(el).unwrap(), usize::try_from(ml).unwrap());
            let base = at(&BigUint::zero(), b);
            let exp = at(&bl, e);
            let modulus = at(&BigUint::from(b + e), m);
            Exp::Ok { gas, out: Some(refcrypto::modexp(&base, &exp, &modulus)) }
        }
        6 => {
            let gas = g(if era >= 2 { 150 } else { 500 });
            let i = rpad(input, 128);
            match (bn_g1_dec(&i[..64]), bn_g1_dec(&i[64..128])) {
                (Some(a), Some(b)) => Exp::Ok { gas, out: Some(bn_g1_enc(&bn::g1_add(&a, &b))) },
                _ => Exp::Invalid { cost: Some(gas) },
            }
        }
        7 => {
            let gas = g(if era >= 2 { 6000 } else { 40000 });
            let i = rpad(input, 96);
            match bn_g1_dec(&i[..64]) {
                Some(a) => Exp::Ok { gas, out: Some(bn_g1_enc(&bn::g1_mul(&a, &bu(&i[64..96])))) },
                None => Exp::Invalid { cost: Some(gas) },
            }
        }
        9 => {
            if input.len() != 213 {
                return Exp::Invalid { cost: None };
            }
            let rounds = u32::from_be_bytes(input[..4].try_into().unwrap());
            let gas = g(rounds as u64);
            if input[212] > 1 {
                return Exp::Invalid { cost: Some(gas) };
            }
            let le = |o: usize| u64::from_le_bytes(input[o..o + 8].try_into().unwrap());
            let mut h = [0u64; 8];
            let mut m = [0u64; 16];
            for (k, x) in h.iter_mut().enumerate() {
                *x = le(4 + 8 * k);
            }
            for (k, x) in m.iter_mut().enumerate() {
                *x = le(68 + 8 * k);
            }
            if rounds > 2_000_000 {
                return Exp::Ok { gas, out: None };
            }
            let o = refcrypto::blake2f(rounds, h, m, [le(196), le(204)], input[212] == 1);
            Exp::Ok { gas, out: Some(o.iter().flat_map(|w| w.to_le_bytes()).collect()) }
        }
        0x0b => {
            if input.len() != 256 {
                return Exp::Invalid { cost: Some(g(375)) };
            }
            match (bls_g1_dec(&input[..128], false), bls_g1_dec(&input[128..], false)) {
                (Some(a), Some(b)) => Exp::Ok { gas: g(375), out: Some(bls_g1_enc(&bls::g1_add(&a, &b))) },
                _ => Exp::Invalid { cost: Some(g(375)) },
            }
        }
        0x0c => {
            if input.is_empty() || input.len() % 160 != 0 {
                return Exp::Invalid { cost: None };
            }
            let k = input.len() / 160;
            let gas = msm_gas(k, &G1_DISCOUNT, 12000);
            let mut acc = bls::G1::Inf;
            let mut memo: std::collections::BTreeMap<&[u8], Option<bls::G1>> = Default::default();
            for c in input.chunks(160) {
                // term = scalar * point (None = invalid point); identical chunks are computed once
                let term = memo.entry(c).or_insert_with(|| bls_g1_dec(&c[..128], true).map(|p| bls::g1_mul(&p, &bu(&c[128..160])))).clone();
                let Some(t) = term else { return Exp::Invalid { cost: Some(gas) } };
                acc = bls::g1_add(&acc, &t);
            }
            Exp::Ok { gas, out: Some(bls_g1_enc(&acc)) }
        }
        0x0d => {
            if input.len() != 512 {
                return Exp::Invalid { cost: Some(g(600)) };
            }
            match (bls_g2_dec(&input[..256], false), bls_g2_dec(&input[256..], false)) {
                (Some(a), Some(b)) => Exp::Ok { gas: g(600), out: Some(bls_g2_enc(&bls::g2_add(&a, &b))) },
                _ => Exp::Invalid { cost: Some(g(600)) },
            }
        }
        0x0e => {
            if input.is_empty() || input.len() % 288 != 0 {
                return Exp::Invalid { cost: None };
            }
            let k = input.len() / 288;
            let gas = msm_gas(k, &G2_DISCOUNT, 22500);
            let mut acc = bls::G2::Inf;
            let mut memo: std::collections::BTreeMap<&[u8], Option<bls::G2>> = Default::default();
            for c in input.chunks(288) {
                let term = memo.entry(c).or_insert_with(|| bls_g2_dec(&c[..256], true).map(|p| bls::g2_mul(&p, &bu(&c[256..288])))).clone();
                let Some(t) = term else { return Exp::Invalid { cost: Some(gas) } };
                acc = bls::g2_add(&acc, &t);
            }
            Exp::Ok { gas, out: Some(bls_g2_enc(&acc)) }
        }
        0x10 => {
            if input.len() != 64 || bls_fp_dec(input).is_none() {
                return Exp::Invalid { cost: Some(g(5500)) };
            }
            Exp::Pred { gas: g(5500), kind: 1 }
        }
        0x11 => {
            if input.len() != 128 || bls_fp_dec(&input[..64]).is_none() || bls_fp_dec(&input[64..]).is_none() {
                return Exp::Invalid { cost: Some(g(23800)) };
            }
            Exp::Pred { gas: g(23800), kind: 2 }
        }
        _ => unreachable!("no raw oracle for {addr:#x}"),
    }
}

fn scalar_sum_is_zero(pairs: &[(BigUint, BigUint)], order: &BigUint) -> bool {
    let mut s = BigUint::zero();
    for (a, b) in pairs {
        s = (s + a * b) % order;
    }
    s.is_zero()
}

/// (address, input bytes, expectation) of a case.
fn materialise(c: &PcCase) -> (u16, Vec<u8>, Exp) {
    match &c.input {
        PcInput::Raw { addr, bytes } => (*addr, bytes.0.clone(), expect_raw(*addr, c.era, &bytes.0)),
        PcInput::BnPairing { pairs, fix, tweak } => {
            let n = bn::n();
            let mut sc: Vec<(BigUint, BigUint)> = pairs.iter().map(|(a, b)| (BigUint::from(*a), BigUint::from(*b))).collect();
            if *fix {
                let mut s = BigUint::zero();
                for (a, b) in &sc {
                    s = (s + a * b) % &n;
                }
                sc.push(((&n - s) % &n, BigUint::one()));
            }
            let mut pts: Vec<(bn::G1, bn::G2)> = sc.iter().map(|(a, b)| (bn::g1_mul(&bn::g1_generator(), a), bn::g2_mul(&bn::g2_generator(), b))).collect();
            let mut valid = true;
            let mut bytes_override: Option<(usize, Vec<u8>)> = None;
            match tweak {
                PairTweak::G2OffSubgroup if !pts.is_empty() => {
                    pts[0].1 = bn::g2_off_subgroup();
                    valid = false;
                }
                PairTweak::G1Bad if !pts.is_empty() => {
                    bytes_override = Some((0, [be(&BigUint::from(1u32), 32), be(&BigUint::from(3u32), 32)].concat()));
                    valid = false;
                }
                PairTweak::CoordEqualsModulus(k) if !pts.is_empty() => {
                    bytes_override = Some(((*k as usize % 6) * 32, be(&bn::p(), 32)));
                    valid = false;
                }
                PairTweak::InfG1 if !pts.is_empty() => {
                    pts[0].0 = bn::G1::Inf;
                    sc[0].0 = BigUint::zero();
                }
                PairTweak::InfG2 if !pts.is_empty() => {
                    pts[0].1 = bn::G2::Inf;
                    sc[0].1 = BigUint::zero();
                }
                _ => {}
            }
            let mut bytes: Vec<u8> = pts.iter().flat_map(|(p, q)| [bn_g1_enc(p), bn_g2_enc(q)].concat()).collect();
            if let Some((off, b)) = bytes_override {
                bytes[off..off + b.len()].copy_from_slice(&b);
            }
            match tweak {
                PairTweak::Truncate(k) if *k > 0 && !bytes.is_empty() => {
                    let k = (*k as usize % 191) + 1;
                    bytes.truncate(bytes.len() - k.min(bytes.len()));
                }
                PairTweak::Extend(k) if *k > 0 => bytes.extend(std::iter::repeat(0u8).take((*k as usize % 191) + 1)),
                _ => {}
            }
            let (per, base) = if c.era >= 2 { (34_000u64, 45_000u64) } else { (80_000, 100_000) };
            let gas = BigUint::from((bytes.len() / 192) as u64 * per + base);
            let exp = if bytes.len() % 192 != 0 || !valid {
                Exp::Invalid { cost: Some(gas) }
            } else {
                let mut out = vec![0u8; 32];
                if scalar_sum_is_zero(&sc, &n) {
                    out[31] = 1;
                }
                Exp::Ok { gas, out: Some(out) }
            };
            (8, bytes, exp)
        }
        PcInput::BlsPairing { pairs, fix, tweak } => {
            let n = bls::r();
            let mut sc: Vec<(BigUint, BigUint)> = pairs.iter().map(|(a, b)| (BigUint::from(*a), BigUint::from(*b))).collect();
            if *fix {
                let mut s = BigUint::zero();
                for (a, b) in &sc {
                    s = (s + a * b) % &n;
                }
                sc.push(((&n - s) % &n, BigUint::one()));
            }
            let mut pts: Vec<(bls::G1, bls::G2)> = sc.iter().map(|(a, b)| (bls::g1_mul(&bls::g1_generator(), a), bls::g2_mul(&bls::g2_generator(), b))).collect();
            let mut valid = true;
            let mut bytes_override: Option<(usize, Vec<u8>)> = None;
            match tweak {
                PairTweak::G2OffSubgroup if !pts.is_empty() => {
                    pts[0].1 = bls::g2_off_subgroup();
                    valid = false;
                }
                PairTweak::G1Bad if !pts.is_empty() => {
                    pts[0].0 = bls::g1_off_subgroup();
                    valid = false;
                }
                PairTweak::CoordEqualsModulus(k) if !pts.is_empty() => {
                    bytes_override = Some(((*k as usize % 6) * 64, bls_fp_enc(&bls::p())));
                    valid = false;
                }
                PairTweak::InfG1 if !pts.is_empty() => {
                    pts[0].0 = bls::G1::Inf;
                    sc[0].0 = BigUint::zero();
                }
                PairTweak::InfG2 if !pts.is_empty() => {
                    pts[0].1 = bls::G2::Inf;
                    sc[0].1 = BigUint::zero();
                }
                _ => {}
            }
            let mut bytes: Vec<u8> = pts.iter().flat_map(|(p, q)| [bls_g1_enc(p), bls_g2_enc(q)].concat()).collect();
            if let Some((off, b)) = bytes_override {
                bytes[off..off + b.len()].copy_from_slice(&b);
            }
            match tweak {
                PairTweak::Truncate(k) if *k > 0 && !bytes.is_empty() => {
                    let k = (*k as usize % 383) + 1;
                    bytes.truncate(bytes.len() - k.min(bytes.len()));
                }
                PairTweak::Extend(k) if *k > 0 => bytes.extend(std::iter::repeat(0u8).take((*k as usize % 383) + 1)),
                _ => {}
            }
            let k = bytes.len() / 384;
            let gas = BigUint::from(32_600u64 * k as u64 + 37_700);
            let exp = if bytes.is_empty() || bytes.len() % 384 != 0 {
                Exp::Invalid { cost: None }
            } else if !valid {
                Exp::Invalid { cost: Some(gas) }
            } else {
                let mut out = vec![0u8; 32];
                if scalar_sum_is_zero(&sc, &n) {
                    out[31] = 1;
                }
                Exp::Ok { gas, out: Some(out) }
            };
            (0x0f, bytes, exp)
        }
        PcInput::Kzg { kind, tamper } => {
            let order = bls::r();
            let (mut commitment, mut z, mut y, mut proof) = match kind {
                KzgKind::Constant { c, z } => {
                    let cm = bls_g1_compress(&bls::g1_mul(&bls::g1_generator(), &BigUint::from(*c)));
                    let zz = be(&(bu(&z.0) % &order), 32);
                    (cm, zz, be(&BigUint::from(*c), 32), bls_g1_compress(&bls::G1::Inf))
                }
                KzgKind::Blob { seed, z } => {
                    let settings = c_kzg::ethereum_kzg_settings();
                    let mut blob = vec![0u8; 131072];
                    let mut st = *seed | 1;
                    for fe in blob.chunks_mut(32) {
                        for b in fe.iter_mut().skip(1) {
                            st ^= st << 13;
                            st ^= st >> 7;
                            st ^= st << 17;
                            *b = st as u8;
                        }
                    }
                    let blob = c_kzg::Blob::from_bytes(&blob).expect("blob");
                    let cm = c_kzg::KzgCommitment::blob_to_kzg_commitment(&blob, settings).expect("commitment");
                    let zz = be(&(bu(&z.0) % &order), 32);
                    let zb = c_kzg::Bytes32::from_bytes(&zz).unwrap();
                    let (pf, yy) = c_kzg::KzgProof::compute_kzg_proof(&blob, &zb, settings).expect("proof");
                    (cm.to_bytes().as_slice().to_vec(), zz, yy.as_slice().to_vec(), pf.to_bytes().as_slice().to_vec())
                }
            };
            let mut valid = true;
            match tamper {
                KzgTamper::ZNonCanonical => {
                    z = be(&(bu(&z) + &order), 32);
                    valid = false;
                }
                KzgTamper::YNonCanonical => {
                    y = be(&(bu(&y) + &order), 32);
                    valid = false;
                }
                KzgTamper::YWrong => {
                    y = be(&((bu(&y) + 1u32) % &order), 32);
                    valid = false;
                }
                KzgTamper::ProofWrong => {
                    let g = bls_g1_compress(&bls::g1_generator());
                    proof = if proof == g { bls_g1_compress(&bls::g1_mul(&bls::g1_generator(), &BigUint::from(2u32))) } else { g };
                    valid = false;
                }
                KzgTamper::CommitmentOffCurve => {
                    // x = 1: 1 + 4 = 5 is not a square mod p? use a coordinate >= p instead (never canonical)
                    commitment = be(&bls::p(), 48);
                    commitment[0] |= 0x80;
                    valid = false;
                }
                KzgTamper::CommitmentOffSubgroup => {
                    commitment = bls_g1_compress(&bls::g1_off_subgroup());
                    valid = false;
                }
                _ => {}
            }
            let mut hash = refcrypto::sha256(&commitment).to_vec();
            hash[0] = 0x01;
            match tamper {
                KzgTamper::HashVersion => {
                    hash[0] = 0x02;
                    valid = false;
                }
                KzgTamper::HashByte => {
                    hash[31] ^= 1;
                    valid = false;
                }
                _ => {}
            }
            let mut bytes = [hash, z, y, commitment, proof].concat();
            match tamper {
                KzgTamper::Short => {
                    bytes.pop();
                    valid = false;
                }
                KzgTamper::Long => {
                    bytes.push(0);
                    valid = false;
                }
                _ => {}
            }
            let gas = BigUint::from(50_000u32);
            let exp = if valid {
                let mut out = be(&BigUint::from(4096u32), 32);
                out.extend(be(&order, 32));
                Exp::Ok { gas, out: Some(out) }
            } else {
                Exp::Invalid { cost: Some(gas) }
            };
            (0x0a, bytes, exp)
        }
    }
}

fn pc_spec(era: u8) -> (PrecompileSpecId, SpecId) {
    match era {
        0 => (PrecompileSpecId::HOMESTEAD, SpecId::HOMESTEAD),
        1 => (PrecompileSpecId::BYZANTIUM, SpecId::BYZANTIUM),
        2 => (PrecompileSpecId::ISTANBUL, SpecId::ISTANBUL),
        3 => (PrecompileSpecId::BERLIN, SpecId::LONDON),
        4 => (PrecompileSpecId::CANCUN, SpecId::CANCUN),
        _ => (PrecompileSpecId::PRAGUE, SpecId::PRAGUE),
    }
}

/// First era (own table) in which the precompile exists.
fn first_era(addr: u16) -> u8 {
    match addr {
        1..=4 => 0,
        5..=8 => 1,
        9 => 2,
        0x0a => 4,
        _ => 5,
    }
}

fn name(addr: u16) -> &'static str {
    match addr {
        1 => "ecrecover",
        2 => "sha256",
        3 => "ripemd160",
        4 => "identity",
        5 => "modexp",
        6 => "bn254-add",
        7 => "bn254-mul",
        8 => "bn254-pairing",
        9 => "blake2f",
        0x0a => "kzg-point-evaluation",
        0x0b => "bls-g1add",
        0x0c => "bls-g1msm",
        0x0d => "bls-g2add",
        0x0e => "bls-g2msm",
        0x0f => "bls-pairing",
        0x10 => "bls-map-fp-to-g1",
        0x11 => "bls-map-fp2-to-g2",
        _ => "?",
    }
}

fn pred_holds(kind: u8, out: &[u8]) -> Result<(), String> {
    match kind {
        1 => {
            if out.len() != 128 {
                return Err(format!("output has {} bytes, a G1 point has 128", out.len()));
            }
            match bls_g1_dec(out, true) {
                Some(bls::G1::Aff(..)) | Some(bls::G1::Inf) => Ok(()),
                None => Err("output is not the canonical encoding of a point of the G1 subgroup".into()),
            }
        }
        _ => {
            if out.len() != 256 {
                return Err(format!("output has {} bytes, a G2 point has 256", out.len()));
            }
            match bls_g2_dec(out, true) {
                Some(_) => Ok(()),
                None => Err("output is not the canonical encoding of a point of the G2 subgroup".into()),
            }
        }
    }
}

pub fn c23_case(c: &PcCase) -> CaseResult {
    let (addr, input, exp) = materialise(c);
    let era = c.era.max(first_era(addr)).min(5);
    let (pid, spec) = pc_spec(era);
    let nm = name(addr);
    let cost: Option<BigUint> = match &exp {
        Exp::Ok { gas, .. } | Exp::Pred { gas, .. } => Some(gas.clone()),
        Exp::Invalid { cost } => cost.clone(),
    };
    let cost64 = cost.as_ref().and_then(|c| u64::try_from(c.clone()).ok());
    let limit: u64 = match (&c.gas, cost64) {
        (GasSel::Exact, Some(g)) => g,
        (GasSel::Minus1, Some(g)) => g.saturating_sub(1),
        (GasSel::Plus1, Some(g)) => g.saturating_add(1),
        (GasSel::Zero, _) => 0,
        (GasSel::Fixed(f), _) => *f,
        _ => 30_000_000,
    };
    // domain bound: gas limits above 5*10^7 do not occur (work and memory are proportional to gas)
    let limit = if limit > 50_000_000 { 30_000_000 } else { limit };
    let affordable = cost.as_ref().map(|c| *c <= BigUint::from(limit));
    let mut o = Outcome::trivial();
    o.labels.push(nm);

    // ---- precompile level
    let set = Precompiles::new(pid);
    let address = revm::primitives::Address::from(vgen::pool::low(addr));
    let Some(p) = set.get(&address) else {
        return Err(vec![Failure::new(format!("C23|{nm}|missing"), format!("{nm} is not registered for {pid:?}"))]);
    };
    let env = Env::default();
    let got = p.call_ref(&Bytes::copy_from_slice(&input), limit, &env);
    let got2 = p.call_ref(&Bytes::copy_from_slice(&input), limit, &env);
    ensure!(format!("{got:?}") == format!("{got2:?}"), format!("C23|{nm}|nondeterministic"), "two calls with the same input gave {got:?} and {got2:?}");
    let is_oog = matches!(&got, Err(PrecompileErrors::Error(PrecompileError::OutOfGas)));
    let ctx = format!("[{nm} {pid:?} input {} bytes 0x{}{} gas limit {limit}]", input.len(), hex::encode(&input[..input.len().min(96)]), if input.len() > 96 { "…" } else { "" });
    if let Err(PrecompileErrors::Fatal { msg }) = &got {
        return Err(vec![Failure::new(format!("C23|{nm}|fatal"), format!("fatal error {msg} {ctx}"))]);
    }
    if is_oog && affordable == Some(true) {
        return Err(vec![Failure::new(format!("C23|{nm}|out-of-gas-although-affordable"), format!("OutOfGas reported although the defined cost {} <= limit {ctx}", cost.clone().unwrap()))]);
    }
    match &exp {
        Exp::Ok { gas, out } => {
            if affordable == Some(true) {
                match &got {
                    Ok(res) => {
                        ensure!(BigUint::from(res.gas_used) == *gas, format!("C23|{nm}|gas"), "charged {} gas, the EIP defines {gas} {ctx}", res.gas_used);
                        if let Some(out) = out {
                            ensure!(res.bytes.as_ref() == out.as_slice(), format!("C23|{nm}|output"), "returned 0x{}, the EIP defines 0x{} {ctx}", hex::encode(&res.bytes), hex::encode(out));
                        }
                        o.nontrivial = true;
                        o.labels.push("defined-result-checked");
                        if out.as_ref().map(|x| x.is_empty()).unwrap_or(false) && addr == 1 {
                            o.labels.push("ecrecover:empty-result");
                        }
                    }
                    Err(e) => return Err(vec![Failure::new(format!("C23|{nm}|fails-on-valid-input"), format!("failed with {e:?}; the EIP defines output {} and gas {gas} {ctx}", out.as_ref().map(|x| format!("0x{}", hex::encode(x))).unwrap_or_default()))]),
                }
            } else {
                ensure!(got.is_err(), format!("C23|{nm}|no-out-of-gas"), "succeeded with gas limit {limit} although the defined cost is {gas} {ctx}");
                o.labels.push("out-of-gas-checked");
            }
        }
        Exp::Pred { gas, kind } => {
            if affordable == Some(true) {
                match &got {
                    Ok(res) => {
                        ensure!(BigUint::from(res.gas_used) == *gas, format!("C23|{nm}|gas"), "charged {} gas, the EIP defines {gas} {ctx}", res.gas_used);
                        if let Err(why) = pred_holds(*kind, &res.bytes) {
                            return Err(vec![Failure::new(format!("C23|{nm}|output"), format!("{why} {ctx}"))]);
                        }
                        o.nontrivial = true;
                        o.labels.push("validity-predicate-checked");
                    }
                    Err(e) => return Err(vec![Failure::new(format!("C23|{nm}|fails-on-valid-input"), format!("failed with {e:?} on a canonical field element {ctx}"))]),
                }
            } else {
                ensure!(got.is_err(), format!("C23|{nm}|no-out-of-gas"), "succeeded with gas limit {limit} although the defined cost is {gas} {ctx}");
                o.labels.push("out-of-gas-checked");
            }
        }
        Exp::Invalid { .. } => {
            ensure!(got.is_err(), format!("C23|{nm}|accepts-invalid-input"), "returned {got:?} for an input the EIP rejects {ctx}");
            o.labels.push("invalid-input-rejected");
            o.nontrivial = true;
        }
    }

    // ---- transaction level: the same call as a transaction sent to the precompile
    if c.tx_level && input.len() <= 4096 && limit <= 20_000_000 {
        let fork = match era {
            0 => r::Fork::Homestead,
            1 => r::Fork::Byzantium,
            2 => r::Fork::Istanbul,
            3 => r::Fork::London,
            4 => r::Fork::Cancun,
            _ => r::Fork::Prague,
        };
        let sender = vgen::pool::eoa(0);
        let mut world = r::World::new();
        world.insert(sender, r::Account { balance: vgen::world::eth(1000), nonce: 0, code: vec![], storage: Default::default() });
        let block = vgen::world::BlockSpec::plain().build();
        let mut tx = r::Tx {
            tx_type: r::TxType::Legacy,
            caller: sender,
            to: Some(vgen::pool::low(addr)),
            value: r::U256::zero(),
            data: input.clone(),
            gas_limit: 0,
            gas_price: block.base_fee + r::U256::from(1),
            max_priority_fee: None,
            nonce: Some(0),
            chain_id: Some(block.chain_id),
            access_list: vec![],
            blob_hashes: vec![],
            max_fee_per_blob_gas: r::U256::zero(),
            authorization_list: vec![],
        };
        let intrinsic = r::intrinsic_gas(fork, &tx);
        let floor = r::floor_gas(fork, &tx);
        tx.gas_limit = (intrinsic + limit).max(floor);
        let avail = tx.gas_limit - intrinsic;
        let res = run_plain(spec, &world, &block, &tx).map_err(|e| vec![Failure::new(format!("C23|{nm}|tx-rejected"), format!("transaction to the precompile was rejected: {e} {ctx}"))])?;
        let affordable_tx = cost.as_ref().map(|c| *c <= BigUint::from(avail));
        match (&exp, affordable_tx) {
            (Exp::Ok { gas, out }, Some(true)) => match &res.result {
                ExecutionResult::Success { gas_used, output, .. } => {
                    let want = (intrinsic + u64::try_from(gas.clone()).unwrap()).max(floor);
                    ensure!(*gas_used == want, format!("C23|{nm}|tx-gas"), "transaction used {gas_used} gas, intrinsic {intrinsic} + precompile {gas} (floor {floor}) = {want} {ctx}");
                    if let Some(out) = out {
                        ensure!(output.data().as_ref() == out.as_slice(), format!("C23|{nm}|tx-output"), "transaction returned 0x{}, expected 0x{} {ctx}", hex::encode(output.data()), hex::encode(out));
                    }
                    o.labels.push("tx-level-success-checked");
                }
                other => return Err(vec![Failure::new(format!("C23|{nm}|tx-fails-on-valid-input"), format!("transaction ended with {other:?} although the call is valid and affordable {ctx}"))]),
            },
            (Exp::Pred { gas, .. }, Some(true)) => match &res.result {
                ExecutionResult::Success { gas_used, .. } => {
                    let want = (intrinsic + u64::try_from(gas.clone()).unwrap()).max(floor);
                    ensure!(*gas_used == want, format!("C23|{nm}|tx-gas"), "transaction used {gas_used} gas, expected {want} {ctx}");
                }
                other => return Err(vec![Failure::new(format!("C23|{nm}|tx-fails-on-valid-input"), format!("transaction ended with {other:?} {ctx}"))]),
            },
            (Exp::Invalid { .. }, _) | (_, Some(false)) => match &res.result {
                ExecutionResult::Halt { gas_used, .. } => {
                    ensure!(*gas_used == tx.gas_limit, format!("C23|{nm}|tx-failure-gas"), "failed precompile call consumed {gas_used} of {} gas {ctx}", tx.gas_limit);
                    o.labels.push("tx-level-failure-checked");
                }
                other => return Err(vec![Failure::new(format!("C23|{nm}|tx-succeeds-on-failing-call"), format!("transaction ended with {other:?} although the precompile call must fail {ctx}"))]),
            },
            _ => {}
        }
    }
    Ok(o)
}

// ------------------------------------------------------------------------------------------
// generators
// ------------------------------------------------------------------------------------------

fn gas_sel() -> BoxedStrategy<GasSel> {
    prop_oneof![4 => Just(GasSel::Exact), 3 => Just(GasSel::Minus1), 2 => Just(GasSel::Plus1), 4 => Just(GasSel::Large), 1 => Just(GasSel::Zero), 1 => (0u64..100_000).prop_map(GasSel::Fixed)].boxed()
}

fn word32() -> BoxedStrategy<Vec<u8>> {
    prop_oneof![any::<[u8; 32]>().prop_map(|b| b.to_vec()), (0u64..4).prop_map(|v| be(&BigUint::from(v), 32)), Just(vec![0xff; 32])].boxed()
}

fn raw(addr: u16, bytes: Vec<u8>) -> PcInput {
    PcInput::Raw { addr, bytes: Hx(bytes) }
}

/// Mutate a structured input at byte level (truncate / extend / flip).
fn mutate(s: BoxedStrategy<Vec<u8>>) -> BoxedStrategy<Vec<u8>> {
    (s, 0u8..10, any::<u16>(), any::<u8>())
        .prop_map(|(mut v, kind, pos, val)| {
            match kind {
                0 if !v.is_empty() => {
                    let n = (pos as usize * (v.len() + 1)) >> 16;
                    v.truncate(n);
                }
                1 => v.extend(std::iter::repeat(val).take(1 + (pos as usize % 40))),
                2 if !v.is_empty() => {
                    let n = (pos as usize * v.len()) >> 16;
                    v[n] ^= val | 1;
                }
                _ => {}
            }
            v
        })
        .boxed()
}

fn ecrecover_inputs() -> BoxedStrategy<PcInput> {
    let n = secp::n();
    let signed = (any::<[u8; 32]>(), 1u64..u64::MAX, 1u64..u64::MAX, any::<[u8; 16]>(), 0u8..12).prop_map(move |(h, d, k, kx, variant)| {
        let n = secp::n();
        let z = bu(&h);
        let d = BigUint::from(d) * 0x1_0000_0001u64 + 7u32;
        let k = (BigUint::from(k) << 128) + bu(&kx) + 1u32;
        let (rr, s, odd) = secp::sign(&z, &d, &k).unwrap_or((BigUint::one(), BigUint::one(), false));
        let mut v = vec![0u8; 32];
        v[31] = 27 + odd as u8;
        let (mut rr, mut s) = (rr, s);
        match variant {
            0 => {
                // high-s twin: same key, flipped parity
                s = &n - &s;
                v[31] = 27 + (!odd) as u8;
            }
            1 => v[31] = 27 + (!odd) as u8, // other key
            2 => v[31] = 29,
            3 => v[31] = 26,
            4 => v[30] = 1,  // 256 + 27
            5 => v[0] = 1,   // dirty high byte
            6 => s = BigUint::zero(),
            7 => rr = BigUint::zero(),
            8 => s = n.clone(),
            9 => rr = &n + 1u32,
            _ => {}
        }
        [h.to_vec(), v, be(&rr, 32), be(&s, 32)].concat()
    });
    let edges = (any::<[u8; 32]>(), prop::sample::select(vec![0u8, 1, 27, 28]), 0u8..8, 0u8..8).prop_map(move |(h, v, ri, si)| {
        let pick = |i: u8| -> BigUint {
            match i {
                0 => BigUint::zero(),
                1 => BigUint::one(),
                2 => &n - 1u32,
                3 => n.clone(),
                4 => &n + 1u32,
                5 => secp::p(),
                6 => (BigUint::one() << 256) - 1u32,
                _ => BigUint::from(7u32),
            }
        };
        let mut vw = vec![0u8; 32];
        vw[31] = v;
        [h.to_vec(), vw, be(&pick(ri), 32), be(&pick(si), 32)].concat()
    });
    prop_oneof![6 => mutate(signed.boxed()), 2 => edges, 1 => prop::collection::vec(any::<u8>(), 0..200)].prop_map(|b| raw(1, b)).boxed()
}

fn hash_inputs() -> BoxedStrategy<PcInput> {
    let data = prop_oneof![
        3 => prop::collection::vec(any::<u8>(), 0..300),
        2 => prop::sample::select(vec![0usize, 1, 31, 32, 33, 54, 55, 56, 57, 63, 64, 65, 119, 120, 127, 128, 129, 255, 256, 257, 1000, 4000]).prop_flat_map(|n| prop::collection::vec(any::<u8>(), n..=n)),
        1 => (0usize..600, any::<u8>()).prop_map(|(n, b)| vec![b; n]),
    ];
    (prop::sample::select(vec![2u16, 3, 4]), data).prop_map(|(a, d)| raw(a, d)).boxed()
}

fn modexp_inputs() -> BoxedStrategy<PcInput> {
    let small = prop::sample::select(vec![0u64, 1, 2, 8, 31, 32, 33, 63, 64, 65, 96, 100, 128, 255, 256, 257, 1024, 1025]);
    let explen = prop::sample::select(vec![0u64, 1, 2, 31, 32, 33, 34, 40, 64, 100]);
    let huge = prop_oneof![
        Just(BigUint::from(1u64 << 32)),
        Just(BigUint::from(u64::MAX)),
        Just(BigUint::one() << 64),
        Just(BigUint::one() << 255),
        Just((BigUint::one() << 256) - 1u32),
        Just(BigUint::from(1u64 << 20)),
        Just(BigUint::from(100_000u64)),
    ];
    let structured = (small.clone(), explen, small, prop::collection::vec(any::<u8>(), 0..64), 0u8..8, any::<u8>()).prop_map(|(bl, el, ml, seed, flavour, cut)| {
        let total = (bl + el + ml) as usize;
        let mut body: Vec<u8> = (0..total).map(|i| seed.get(i % seed.len().max(1)).copied().unwrap_or(0x5a).wrapping_add(i as u8)).collect();
        let (b, e) = (bl as usize, el as usize);
        match flavour {
            0 => body[b + e..].iter_mut().for_each(|x| *x = 0), // zero modulus
            1 if total > b + e => {
                body[b + e..].iter_mut().for_each(|x| *x = 0);
                *body.last_mut().unwrap() = 1; // modulus 1
            }
            2 => body[b..b + e].iter_mut().for_each(|x| *x = 0), // zero exponent
            3 => body[..b].iter_mut().for_each(|x| *x = 0xff),
            4 if e > 0 => {
                body[b..b + e].iter_mut().for_each(|x| *x = 0);
                body[b + e - 1] = 1 + (cut & 3); // tiny exponent
            }
            5 if e > 32 => body[b..b + 32].iter_mut().for_each(|x| *x = 0), // zero head, long exponent
            _ => {}
        }
        let mut v = [be(&BigUint::from(bl), 32), be(&BigUint::from(el), 32), be(&BigUint::from(ml), 32), body].concat();
        if flavour == 6 {
            let keep = (cut as usize * (v.len() + 1)) >> 8;
            v.truncate(keep); // truncated header / body
        }
        v
    });
    let hugelens = (prop_oneof![3 => (0u64..70).prop_map(BigUint::from), 2 => huge.clone()], prop_oneof![3 => (0u64..70).prop_map(BigUint::from), 2 => huge.clone()], prop_oneof![3 => (0u64..70).prop_map(BigUint::from), 2 => huge], prop::collection::vec(any::<u8>(), 0..80))
        .prop_map(|(bl, el, ml, body)| [be(&bl, 32), be(&el, 32), be(&ml, 32), body].concat());
    prop_oneof![6 => structured, 2 => hugelens, 1 => prop::collection::vec(any::<u8>(), 0..200)].prop_map(|b| raw(5, b)).boxed()
}

fn scalar_strategy(order: BigUint) -> BoxedStrategy<BigUint> {
    let o2 = order.clone();
    prop_oneof![
        5 => (0u64..40).prop_map(BigUint::from),
        2 => any::<u64>().prop_map(BigUint::from),
        1 => any::<[u8; 32]>().prop_map(|b| bu(&b)),
        1 => (0u8..4).prop_map(move |k| match k { 0 => order.clone() - 1u32, 1 => order.clone(), 2 => order.clone() + 1u32, _ => (BigUint::one() << 256) - 1u32 }),
        1 => Just(o2 * 2u32),
    ]
    .boxed()
}

fn bn_point_bytes() -> BoxedStrategy<Vec<u8>> {
    prop_oneof![
        6 => (0u64..60).prop_map(|k| bn_g1_enc(&bn::g1_mul(&bn::g1_generator(), &BigUint::from(k)))),
        2 => any::<u64>().prop_map(|k| bn_g1_enc(&bn::g1_mul(&bn::g1_generator(), &BigUint::from(k)))),
        1 => Just(vec![0u8; 64]),
        // invalid encodings
        1 => (0u64..60).prop_map(|k| { let mut v = bn_g1_enc(&bn::g1_mul(&bn::g1_generator(), &BigUint::from(k + 1))); let x = bu(&v[..32]) + bn::p(); v[..32].copy_from_slice(&be(&x, 32)); v }),
        1 => (1u64..60).prop_map(|k| { let mut v = bn_g1_enc(&bn::g1_mul(&bn::g1_generator(), &BigUint::from(k))); v[63] ^= 1; v }),
        1 => Just([be(&BigUint::zero(), 32), be(&BigUint::from(3u32), 32)].concat()),
        1 => Just([be(&bn::p(), 32), be(&BigUint::zero(), 32)].concat()),
    ]
    .boxed()
}

fn bn_inputs() -> BoxedStrategy<PcInput> {
    let add = (bn_point_bytes(), bn_point_bytes()).prop_map(|(a, b)| [a, b].concat());
    let mul = (bn_point_bytes(), scalar_strategy(bn::n())).prop_map(|(a, k)| [a, be(&k, 32)].concat());
    prop_oneof![mutate(add.boxed()).prop_map(|b| raw(6, b)), mutate(mul.boxed()).prop_map(|b| raw(7, b))].boxed()
}

fn pair_tweak() -> BoxedStrategy<PairTweak> {
    prop_oneof![
        10 => Just(PairTweak::None),
        1 => any::<u8>().prop_map(PairTweak::Truncate),
        1 => any::<u8>().prop_map(PairTweak::Extend),
        2 => Just(PairTweak::G2OffSubgroup),
        1 => Just(PairTweak::G1Bad),
        1 => (0u8..6).prop_map(PairTweak::CoordEqualsModulus),
        1 => Just(PairTweak::InfG1),
        1 => Just(PairTweak::InfG2),
    ]
    .boxed()
}

fn pairing_inputs(bls_curve: bool) -> BoxedStrategy<PcInput> {
    (prop::collection::vec((0u64..50, 0u64..50), 0..3), any::<bool>(), pair_tweak())
        .prop_map(move |(pairs, fix, tweak)| if bls_curve { PcInput::BlsPairing { pairs, fix, tweak } } else { PcInput::BnPairing { pairs, fix, tweak } })
        .boxed()
}

fn blake_inputs() -> BoxedStrategy<PcInput> {
    let rounds = prop_oneof![4 => 0u32..20, 2 => Just(12u32), 2 => 0u32..2000, 1 => Just(100_000u32), 1 => Just(u32::MAX), 1 => any::<u32>()];
    let body = (rounds, prop::collection::vec(any::<u8>(), 208..=208), prop_oneof![4 => Just(0u8), 4 => Just(1u8), 1 => Just(2u8), 1 => any::<u8>()]).prop_map(|(r, mid, f)| {
        let mut v = r.to_be_bytes().to_vec();
        v.extend(mid);
        v.push(f);
        v
    });
    prop_oneof![8 => body.clone(), 2 => mutate(body.boxed()), 1 => prop::sample::select(vec![0usize, 1, 212, 214, 426]).prop_map(|n| vec![0u8; n])].prop_map(|b| raw(9, b)).boxed()
}

fn kzg_inputs(blobs: bool) -> BoxedStrategy<PcInput> {
    let tamper = prop_oneof![
        6 => Just(KzgTamper::None),
        1 => Just(KzgTamper::HashVersion),
        1 => Just(KzgTamper::HashByte),
        1 => Just(KzgTamper::ZNonCanonical),
        1 => Just(KzgTamper::YNonCanonical),
        1 => Just(KzgTamper::YWrong),
        1 => Just(KzgTamper::ProofWrong),
        1 => Just(KzgTamper::CommitmentOffCurve),
        1 => Just(KzgTamper::CommitmentOffSubgroup),
        1 => Just(KzgTamper::Short),
        1 => Just(KzgTamper::Long),
    ];
    let z = prop_oneof![any::<[u8; 32]>().prop_map(|b| Hx(b.to_vec())), (0u64..5).prop_map(|v| Hx(be(&BigUint::from(v), 32)))];
    let kind = if blobs {
        (any::<u64>(), z).prop_map(|(seed, z)| KzgKind::Blob { seed, z }).boxed()
    } else {
        (prop_oneof![0u64..5, any::<u64>()], z).prop_map(|(c, z)| KzgKind::Constant { c, z }).boxed()
    };
    (kind, tamper).prop_map(|(kind, tamper)| PcInput::Kzg { kind, tamper }).boxed()
}

fn bls_g1_bytes() -> BoxedStrategy<Vec<u8>> {
    prop_oneof![
        6 => (0u64..40).prop_map(|k| bls_g1_enc(&bls::g1_mul(&bls::g1_generator(), &BigUint::from(k)))),
        1 => any::<u64>().prop_map(|k| bls_g1_enc(&bls::g1_mul(&bls::g1_generator(), &BigUint::from(k)))),
        1 => Just(vec![0u8; 128]),
        2 => (0u64..20).prop_map(|k| bls_g1_enc(&bls::g1_add(&bls::g1_off_subgroup(), &bls::g1_mul(&bls::g1_generator(), &BigUint::from(k))))), // on curve, not in the subgroup
        1 => (1u64..40).prop_map(|k| { let mut v = bls_g1_enc(&bls::g1_mul(&bls::g1_generator(), &BigUint::from(k))); v[127] ^= 1; v }), // off curve
        1 => (1u64..40).prop_map(|k| { let mut v = bls_g1_enc(&bls::g1_mul(&bls::g1_generator(), &BigUint::from(k))); v[15] = 1; v }), // dirty padding
        1 => (1u64..40).prop_map(|k| { let mut v = bls_g1_enc(&bls::g1_mul(&bls::g1_generator(), &BigUint::from(k))); let x = bu(&v[..64]) + bls::p(); v[..64].copy_from_slice(&be(&x, 64)); v }), // x + p
    ]
    .boxed()
}

fn bls_g2_bytes() -> BoxedStrategy<Vec<u8>> {
    prop_oneof![
        6 => (0u64..30).prop_map(|k| bls_g2_enc(&bls::g2_mul(&bls::g2_generator(), &BigUint::from(k)))),
        1 => Just(vec![0u8; 256]),
        2 => (0u64..10).prop_map(|k| bls_g2_enc(&bls::g2_add(&bls::g2_off_subgroup(), &bls::g2_mul(&bls::g2_generator(), &BigUint::from(k))))),
        1 => (1u64..30).prop_map(|k| { let mut v = bls_g2_enc(&bls::g2_mul(&bls::g2_generator(), &BigUint::from(k))); v[255] ^= 1; v }),
        1 => (1u64..30).prop_map(|k| { let mut v = bls_g2_enc(&bls::g2_mul(&bls::g2_generator(), &BigUint::from(k))); v[64 + 3] = 1; v }),
        1 => (1u64..30).prop_map(|k| { let mut v = bls_g2_enc(&bls::g2_mul(&bls::g2_generator(), &BigUint::from(k))); let x = bu(&v[64..128]) + bls::p(); v[64..128].copy_from_slice(&be(&x, 64)); v }),
    ]
    .boxed()
}

fn bls_inputs(heavy: bool) -> BoxedStrategy<PcInput> {
    let g1add = (bls_g1_bytes(), bls_g1_bytes()).prop_map(|(a, b)| [a, b].concat());
    let g2add = (bls_g2_bytes(), bls_g2_bytes()).prop_map(|(a, b)| [a, b].concat());
    let small_scalar = prop_oneof![6 => (0u64..60).prop_map(BigUint::from), 1 => scalar_strategy(bls::r())];
    let g1msm = prop::collection::vec((bls_g1_bytes(), small_scalar.clone()), 1..4).prop_map(|v| v.into_iter().flat_map(|(p, k)| [p, be(&k, 32)].concat()).collect::<Vec<u8>>());
    let g2msm = prop::collection::vec((bls_g2_bytes(), small_scalar), 1..4).prop_map(|v| v.into_iter().flat_map(|(p, k)| [p, be(&k, 32)].concat()).collect::<Vec<u8>>());
    // many identical cheap pairs: exercises the discount table without expensive oracle work
    let g1msm_long = (1usize..140, 0u64..5).prop_map(|(k, s)| {
        let one = [bls_g1_enc(&bls::g1_generator()), be(&BigUint::from(s), 32)].concat();
        (0..k).flat_map(|_| one.clone()).collect::<Vec<u8>>()
    });
    let g2msm_long = (1usize..140, 0u64..5).prop_map(|(k, s)| {
        let one = [bls_g2_enc(&bls::g2_generator()), be(&BigUint::from(s), 32)].concat();
        (0..k).flat_map(|_| one.clone()).collect::<Vec<u8>>()
    });
    let fp = prop_oneof![
        4 => any::<[u8; 48]>().prop_map(|b| bls_fp_enc(&(bu(&b) % bls::p()))),
        1 => (0u64..4).prop_map(|v| bls_fp_enc(&BigUint::from(v))),
        1 => Just(bls_fp_enc(&(bls::p() - 1u32))),
        1 => Just(bls_fp_enc(&bls::p())),
        1 => any::<[u8; 48]>().prop_map(|b| { let mut v = bls_fp_enc(&(bu(&b) % bls::p())); v[0] = 0x80; v }),
    ];
    let map1 = mutate(fp.clone().boxed());
    let map2 = mutate((fp.clone(), fp).prop_map(|(a, b)| [a, b].concat()).boxed());
    if heavy {
        prop_oneof![2 => mutate(g1msm.boxed()).prop_map(|b| raw(0x0c, b)), 1 => mutate(g2msm.boxed()).prop_map(|b| raw(0x0e, b)), 1 => g2msm_long.prop_map(|b| raw(0x0e, b)), 1 => mutate(g2add.boxed()).prop_map(|b| raw(0x0d, b))].boxed()
    } else {
        prop_oneof![3 => mutate(g1add.boxed()).prop_map(|b| raw(0x0b, b)), 1 => g1msm_long.prop_map(|b| raw(0x0c, b)), 2 => map1.prop_map(|b| raw(0x10, b)), 2 => map2.prop_map(|b| raw(0x11, b))].boxed()
    }
}

fn cases(inputs: BoxedStrategy<PcInput>) -> impl Strategy<Value = PcCase> {
    (0u8..6, gas_sel(), inputs, prop::bool::weighted(0.3)).prop_map(|(era, gas, input, tx_level)| PcCase { era, gas, input, tx_level })
}

pub fn c23(ctx: &mut Ctx) {
    let t = ctx.tier;
    let rule = |what: &str| format!("{what}; every case: gas limit from {{cost, cost-1, cost+1, large, 0, random}}, every fork in which the precompile exists (own activation table), result compared with the independent oracle (refcrypto / own gas tables / bilinearity by construction): valid & affordable => exact output and gas, cost > limit => failure, invalid => failure, OutOfGas never reported when the defined cost is affordable, two calls agree; 30% of cases also as a transaction sent to the precompile (gas_used = intrinsic + cost, output; failure consumes the whole limit); non-trivial = a defined result or an EIP-mandated rejection was checked (not merely out-of-gas)");
    ctx.run_cases("ecrecover", &rule("signatures produced by an own big-integer ECDSA signer over random keys/messages, then perturbed (high-s twin, other parity, v in {26,29,256+27, dirty}, r/s in {0,n,n+1}, truncation/extension/bit flips), r/s edge grids, random bytes"), || cases(ecrecover_inputs()), t.pick(12_000, 200_000), c23_case);
    ctx.run_cases("hashes-identity", &rule("SHA-256 / RIPEMD-160 / identity on lengths 0..4000 incl. block boundaries"), || cases(hash_inputs()), t.pick(60_000, 1_000_000), c23_case);
    ctx.run_cases("modexp", &rule("modexp headers with lengths {0,1,..,1025} and {2^20,2^32,2^64-1,2^64,2^255,2^256-1}, zero/one modulus, zero/tiny exponent, long exponents with zero head, truncated headers and bodies, random bytes; Byzantium and Berlin pricing"), || cases(modexp_inputs()), t.pick(100_000, 2_000_000), c23_case);
    ctx.run_cases("bn254-add-mul", &rule("BN254 points k*G (small and 64-bit k), infinity, coordinates >= p, off-curve points, scalars incl. n-1,n,n+1,2n,2^256-1, truncated/extended/bit-flipped inputs"), || cases(bn_inputs()), t.pick(30_000, 500_000), c23_case);
    ctx.run_cases("bn254-pairing", &rule("0-3 pairs (a_i*G1, b_i*G2) with optional closing pair making the product 1, infinity members, G2 outside the subgroup, G1 off curve, coordinate = p, truncated/extended inputs"), || cases(pairing_inputs(false)), t.pick(6_000, 100_000), c23_case);
    ctx.run_cases("blake2f", &rule("213-byte inputs with rounds 0..2000 / 100000 / 2^32-1 / random, flag 0/1/2/random, wrong lengths, bit flips"), || cases(blake_inputs()), t.pick(60_000, 1_000_000), c23_case);
    ctx.run_cases("kzg-constant", &rule("point-evaluation tuples of constant polynomials built with own G1 arithmetic (commitment c*G1, any z, y=c, proof=infinity) and every single-field tamper (version byte, hash, non-canonical z/y, wrong y, wrong proof, commitment off curve / outside the subgroup, length 191/193)"), || cases(kzg_inputs(false)), t.pick(4_000, 60_000), c23_case);
    ctx.run_cases("kzg-blob", &rule("tuples from the c-kzg prover API on pseudo-random blobs, same tampers"), || cases(kzg_inputs(true)), t.pick(320, 5_000), c23_case);
    ctx.run_cases("bls12-381", &rule("G1ADD (subgroup and non-subgroup curve points, infinity, off-curve, dirty padding, x+p), G1MSM with 1..139 identical pairs (discount table), MAP_FP_TO_G1 / MAP_FP2_TO_G2 (validity predicate: output is a canonical subgroup point), mutations"), || cases(bls_inputs(false)), t.pick(16_000, 300_000), c23_case);
    ctx.run_cases("bls12-381-msm-g2", &rule("G1MSM / G2MSM with 1-3 generated pairs and G2MSM with 1..139 identical pairs (discount table) (subgroup check per point, scalars incl. r-1,r,r+1,2r,2^256-1) and G2ADD, compared with own affine arithmetic"), || cases(bls_inputs(true)), t.pick(4_000, 60_000), c23_case);
    ctx.run_cases("bls12-381-pairing", &rule("as bn254-pairing on BLS12-381 (G1/G2 members outside the subgroup must be rejected)"), || cases(pairing_inputs(true)), t.pick(1_600, 30_000), c23_case);
    for part in ["ecrecover", "hashes-identity", "modexp", "bn254-add-mul", "bn254-pairing", "blake2f", "kzg-constant", "kzg-blob", "bls12-381", "bls12-381-msm-g2", "bls12-381-pairing"] {
        ctx.expect_labels(part, &["defined-result-checked", "out-of-gas-checked", "tx-level-success-checked"]);
    }
    ctx.expect_labels("ecrecover", &["ecrecover:empty-result"]);
    ctx.assumptions.push("MAP_FP_TO_G1 / MAP_FP2_TO_G2 have no independent implementation here: checked by validity predicate (canonical point of the right subgroup, exact gas, rejection of non-canonical field elements) and determinism; KZG blob tuples come from the c-kzg prover (the constant-polynomial tuples are independent)".into());
    ctx.assumptions.push("an error kind other than OutOfGas (e.g. ModexpBaseOverflow for lengths >= 2^64) counts as the failure the EIP defines when the cost exceeds the limit: both consume all gas of the call".into());
}

// ------------------------------------------------------------------------------------------
// C24: case list for the alternative-backend build (vcheck-alt)
// ------------------------------------------------------------------------------------------

fn show(r: &Result<revm::primitives::PrecompileOutput, PrecompileErrors>) -> String {
    match r {
        Ok(o) => format!("ok:{}:{}", o.gas_used, hex::encode(&o.bytes)),
        Err(PrecompileErrors::Error(e)) if e.is_oog() => "err:oog".into(),
        Err(_) => "err:other".into(),
    }
}

/// Writes one JSON line per generated case: input, result of this (default-backend) build, oracle expectation.
pub fn c24_gen(ctx: &Ctx, path: &str) {
    use vcore::proptest::strategy::ValueTree;
    let n_sig = ctx.tier.pick(40_000, 600_000);
    let n_kzg = ctx.tier.pick(1_200, 20_000);
    let n_blob = ctx.tier.pick(160, 3_000);
    let set = Precompiles::new(PrecompileSpecId::CANCUN);
    let env = Env::default();
    let emit = |part: &str, strat: fn() -> BoxedStrategy<PcInput>, n: u64| -> Vec<String> {
        let per = n.div_ceil(vcore::SHARDS);
        let set = &set;
        let env = &env;
        std::thread::scope(|sc| {
            let hs: Vec<_> = (0..vcore::SHARDS)
                .map(|shard| {
                    sc.spawn(move || {
                        let strat = strat();
                        let mut runner = vcore::runner_for(ctx.seed, "C24", part, shard);
                        let mut lines = vec![];
                        for _ in 0..per {
                            let Ok(tree) = strat.new_tree(&mut runner) else { continue };
                            let input = tree.current();
                            let structured = !matches!(&input, PcInput::Raw { bytes, .. } if bytes.0.len() != 128);
                            let c = PcCase { era: 4, gas: GasSel::Large, input, tx_level: false };
                            let (addr, bytes, exp) = materialise(&c);
                            let limit = 100_000u64;
                            let p = set.get(&revm::primitives::Address::from(vgen::pool::low(addr))).expect("registered");
                            let main = show(&p.call_ref(&Bytes::copy_from_slice(&bytes), limit, env));
                            let oracle = match &exp {
                                Exp::Ok { gas, out: Some(out) } => format!("ok:{gas}:{}", hex::encode(out)),
                                Exp::Invalid { .. } => "err:other".to_string(),
                                _ => String::new(),
                            };
                            lines.push(serde_json::json!({"addr": addr, "input": hex::encode(&bytes), "gas_limit": limit, "main": main, "oracle": oracle, "structured": structured}).to_string());
                        }
                        lines
                    })
                })
                .collect();
            hs.into_iter().flat_map(|h| h.join().expect("generator thread")).collect()
        })
    };
    let mut lines: Vec<String> = vec![];
    lines.extend(emit("ecrecover", ecrecover_inputs, n_sig));
    lines.extend(emit("kzg-constant", || kzg_inputs(false), n_kzg));
    lines.extend(emit("kzg-blob", || kzg_inputs(true), n_blob));
    if let Err(e) = std::fs::write(path, lines.join("\n")) {
        eprintln!("cannot write {path}: {e}");
        std::process::exit(2);
    }
    println!("C24-gen: {} cases written to {path}", lines.len());
}
