//! C26: EOF decoding round-trips, validation is deterministic, and every container validation
//! accepts executes without reaching an interpreter path that assumes a valid container.
use crate::evmrun::*;
use crate::monitors::*;
use crate::precomp::Hx;
use refevm as r;
use revm::interpreter::analysis::{validate_eof_inner, validate_raw_eof_inner, CodeType};
use revm::primitives::{Bytes, Eof, SpecId};
use serde::{Deserialize, Serialize};
use std::sync::Arc;
use vcore::proptest::prelude::*;
use vcore::{ensure, CaseResult, Ctx, Failure, Outcome};
use vgen::pool;

// ------------------------------------------------------------------------------------------
// structured container builder
// ------------------------------------------------------------------------------------------

#[derive(Clone, Debug, Hash, PartialEq, Eq, Serialize, Deserialize)]
pub enum Node {
    /// PUSHn of a value derived from the seed (n = 0..=32)
    Push(u8, u64),
    Pop,
    /// two-in one-out
    Bin(u8),
    /// one-in one-out
    Un(u8),
    /// zero-in one-out
    Env(u8),
    Dup(u8),
    Swap(u8),
    DupN(u8),
    SwapN(u8),
    Exchange(u8),
    /// memory templates with small constant offsets (net effect 0 / +1)
    Mem(u8, u8),
    /// data-section templates: DATALOADN / DATALOAD / DATACOPY / DATASIZE
    Data(u8, u16),
    /// SSTORE/SLOAD/TSTORE/TLOAD/LOG templates
    State(u8, u8),
    /// RETURNDATASIZE / RETURNDATALOAD / RETURNDATACOPY templates (may fail at run time: allowed)
    RetData(u8, u8),
    If(Vec<Node>, Vec<Node>),
    Loop(u8, Vec<Node>),
    Switch(Vec<Vec<Node>>),
    /// early exit guarded by a condition
    Bail(u8),
    Callf(u8),
    /// EXTCALL / EXTDELEGATECALL / EXTSTATICCALL to a pool address
    ExtCall(u8, u8, u8),
    EofCreate(u8),
}

#[derive(Clone, Debug, Hash, PartialEq, Eq, Serialize, Deserialize)]
pub enum Term {
    Stop,
    Return(u8),
    Revert(u8),
    Invalid,
    Retf,
    Jumpf(u8),
    ReturnContract(u8),
}

#[derive(Clone, Debug, Hash, PartialEq, Eq, Serialize, Deserialize)]
pub struct Section {
    pub inputs: u8,
    /// None = non-returning
    pub outputs: Option<u8>,
    pub body: Vec<Node>,
    pub term: Term,
}

#[derive(Clone, Debug, Hash, PartialEq, Eq, Serialize, Deserialize)]
pub struct ContainerSpec {
    pub initcode: bool,
    pub sections: Vec<Section>,
    pub data: Vec<u8>,
    /// declared data size = data.len() + this (only sub-containers of initcode may be truncated)
    pub data_missing: u8,
    pub subs: Vec<ContainerSpec>,
}

const BINOPS: [u8; 20] = [0x01, 0x02, 0x03, 0x04, 0x05, 0x06, 0x07, 0x0a, 0x0b, 0x10, 0x11, 0x12, 0x13, 0x14, 0x16, 0x17, 0x18, 0x1a, 0x1b, 0x1c];
const UNOPS: [u8; 6] = [0x15, 0x19, 0x35, 0x31, 0x40, 0x5c];
/// EXT*CALL targets (pool indices): the second generated EOF contract (3x), a legacy contract, the caller itself, an EOA, an empty account, a precompile
pub const MODE_CONSERVATION: u8 = 1;
pub const MODE_INSPECTORS: u8 = 2;
const EXT_TARGETS: [u8; 8] = [5, 5, 5, 6, 4, 0, 10, 17];
const ENVOPS: [u8; 18] = [0x30, 0x32, 0x33, 0x34, 0x36, 0x3a, 0x3d, 0x41, 0x42, 0x43, 0x44, 0x45, 0x46, 0x47, 0x48, 0x4a, 0x59, 0xd2];

struct Asm<'a> {
    code: Vec<u8>,
    h: i32,
    max: i32,
    spec: &'a ContainerSpec,
    this: usize,
    /// sections / sub-containers referenced so far
    used_sections: Vec<bool>,
    used_subs: Vec<bool>,
}

impl<'a> Asm<'a> {
    fn op(&mut self, byte: u8, pops: i32, pushes: i32) {
        self.code.push(byte);
        self.h += pushes - pops;
        self.max = self.max.max(self.h);
    }
    fn push_small(&mut self, v: u8) {
        if v == 0 {
            self.op(0x5f, 0, 1);
        } else {
            self.op(0x60, 0, 1);
            self.code.push(v);
        }
    }
    fn push_addr(&mut self, idx: u8) {
        self.op(0x73, 0, 1);
        self.code.extend_from_slice(&pool::addr(idx));
    }
    /// make sure at least `n` items are above `floor`
    fn ensure(&mut self, n: i32, floor: i32) {
        while self.h - floor < n {
            self.push_small((self.h as u8).wrapping_mul(7) & 0x3f);
        }
    }
    fn settle(&mut self, target: i32) {
        while self.h > target {
            self.op(0x50, 1, 0);
        }
        while self.h < target {
            self.op(0x5f, 0, 1);
        }
    }
    fn rel16(&mut self, at: usize, from_end: usize, target: usize) {
        let off = target as isize - from_end as isize;
        let b = (off as i16).to_be_bytes();
        self.code[at] = b[0];
        self.code[at + 1] = b[1];
    }

    fn block(&mut self, nodes: &[Node], floor: i32, depth: u32) {
        for n in nodes {
            if self.code.len() > 3000 {
                break;
            }
            self.node(n, floor, depth);
        }
    }

    /// Net-zero block: returns to the entry height.
    fn zero_block(&mut self, nodes: &[Node], depth: u32) {
        let entry = self.h;
        self.block(nodes, entry, depth + 1);
        self.settle(entry);
    }

    fn node(&mut self, n: &Node, floor: i32, depth: u32) {
        let room = self.h < 200;
        match n {
            Node::Push(size, seed) => {
                if !room {
                    return;
                }
                let size = (*size % 33) as usize;
                self.op(0x5f + size as u8, 0, 1);
                let mut x = *seed;
                for _ in 0..size {
                    x = x.wrapping_mul(6364136223846793005).wrapping_add(1442695040888963407);
                    self.code.push((x >> 33) as u8);
                }
            }
            Node::Pop => {
                if self.h > floor {
                    self.op(0x50, 1, 0);
                }
            }
            Node::Bin(i) => {
                self.ensure(2, floor);
                self.op(BINOPS[*i as usize % BINOPS.len()], 2, 1);
            }
            Node::Un(i) => {
                self.ensure(1, floor);
                self.op(UNOPS[*i as usize % UNOPS.len()], 1, 1);
            }
            Node::Env(i) => {
                if room {
                    self.op(ENVOPS[*i as usize % ENVOPS.len()], 0, 1);
                }
            }
            Node::Dup(k) => {
                let k = (*k % 16) as i32 + 1;
                if self.h >= k && room {
                    self.op(0x80 + (k - 1) as u8, 0, 1);
                }
            }
            Node::Swap(k) => {
                let k = (*k % 16) as i32 + 1;
                if self.h >= k + 1 {
                    self.op(0x90 + (k - 1) as u8, 0, 0);
                }
            }
            Node::DupN(k) => {
                if self.h >= 1 && room {
                    let imm = (*k as i32 % self.h.min(256)) as u8;
                    self.op(0xe6, 0, 1);
                    self.code.push(imm);
                }
            }
            Node::SwapN(k) => {
                if self.h >= 2 {
                    let imm = (*k as i32 % (self.h - 1).min(256)) as u8;
                    self.op(0xe7, 0, 0);
                    self.code.push(imm);
                }
            }
            Node::Exchange(k) => {
                // choose n, m within reach of the current height (requirement n + m + 1)
                if self.h >= 3 {
                    let n = (*k >> 4) as i32 % (self.h - 2).min(16) + 1;
                    let m = (*k & 0x0f) as i32 % (self.h - 1 - n).min(16) + 1;
                    self.op(0xe8, 0, 0);
                    self.code.push((((n - 1) as u8) << 4) | (m - 1) as u8);
                }
            }
            Node::Mem(kind, off) => {
                if !room {
                    return;
                }
                let off = *off % 200;
                match kind % 4 {
                    0 => {
                        // MSTORE(off, value)
                        self.ensure(1, floor);
                        self.push_small(off);
                        self.op(0x52, 2, 0);
                    }
                    1 => {
                        self.push_small(off);
                        self.op(0x51, 1, 1);
                    }
                    2 => {
                        // MCOPY(dst, src, len)
                        self.push_small(off % 70);
                        self.push_small(off / 2);
                        self.push_small(off);
                        self.op(0x5e, 3, 0);
                    }
                    _ => {
                        // MSTORE8
                        self.ensure(1, floor);
                        self.push_small(off);
                        self.op(0x53, 2, 0);
                    }
                }
            }
            Node::Data(kind, off) => {
                if !room {
                    return;
                }
                let declared = self.spec.data.len() + self.spec.data_missing as usize;
                match kind % 4 {
                    0 if declared >= 32 => {
                        let o = *off as usize % (declared - 31);
                        self.op(0xd1, 0, 1);
                        self.code.extend_from_slice(&(o as u16).to_be_bytes());
                    }
                    1 => {
                        self.push_small((*off % 80) as u8);
                        self.op(0xd0, 1, 1);
                    }
                    2 => {
                        // DATACOPY(mem_off, data_off, size)
                        self.push_small((*off % 90) as u8);
                        self.push_small((*off % 70) as u8);
                        self.push_small((*off % 50) as u8);
                        self.op(0xd3, 3, 0);
                    }
                    _ => self.op(0xd2, 0, 1),
                }
            }
            Node::State(kind, key) => {
                if !room {
                    return;
                }
                let key = *key % 4;
                match kind % 6 {
                    0 => {
                        self.ensure(1, floor);
                        self.push_small(key);
                        self.op(0x55, 2, 0);
                    }
                    1 => {
                        self.push_small(key);
                        self.op(0x54, 1, 1);
                    }
                    2 => {
                        self.ensure(1, floor);
                        self.push_small(key);
                        self.op(0x5d, 2, 0);
                    }
                    3 => {
                        self.push_small(key);
                        self.op(0x5c, 1, 1);
                    }
                    _ => {
                        // LOGn(off, size, topics..)
                        let nt = (*kind % 5) as i32;
                        for t in 0..nt {
                            self.push_small(t as u8 + 1);
                        }
                        self.push_small(key * 8);
                        self.push_small(key);
                        self.op(0xa0 + nt as u8, 2 + nt, 0);
                    }
                }
            }
            Node::RetData(kind, off) => {
                if !room {
                    return;
                }
                match kind % 3 {
                    0 => self.op(0x3d, 0, 1),
                    1 => {
                        self.push_small(*off % 70);
                        self.op(0xf7, 1, 1);
                    }
                    _ => {
                        self.push_small(*off % 40);
                        self.push_small(*off % 30);
                        self.push_small(*off % 90);
                        self.op(0x3e, 3, 0);
                    }
                }
            }
            Node::If(a, b) => {
                if depth >= 3 || !room {
                    return;
                }
                // cond; RJUMPI else; then; RJUMP end; else: ...; end:
                self.ensure(1, floor);
                self.op(0xe1, 1, 0);
                let p1 = self.code.len();
                self.code.extend_from_slice(&[0, 0]);
                let after1 = self.code.len();
                self.zero_block(a, depth);
                self.op(0xe0, 0, 0);
                let p2 = self.code.len();
                self.code.extend_from_slice(&[0, 0]);
                let after2 = self.code.len();
                let else_at = self.code.len();
                self.zero_block(b, depth);
                // the else block must not be empty of instructions *after* an RJUMP? an empty else is fine: `end` = else_at
                let end = self.code.len();
                self.rel16(p1, after1, else_at);
                self.rel16(p2, after2, end);
                // something must follow `end` (the section terminator always does)
            }
            Node::Loop(count, body) => {
                if depth >= 2 || !room {
                    return;
                }
                self.push_small(*count % 5 + 1);
                let label = self.code.len();
                self.zero_block(body, depth);
                self.push_small(1);
                self.op(0x90, 0, 0); // SWAP1
                self.op(0x03, 2, 1); // SUB
                self.op(0x80, 0, 1); // DUP1
                self.op(0xe1, 1, 0);
                let p = self.code.len();
                self.code.extend_from_slice(&[0, 0]);
                let after = self.code.len();
                self.rel16(p, after, label);
                self.op(0x50, 1, 0);
            }
            Node::Switch(cases) => {
                if depth >= 2 || !room || cases.is_empty() {
                    return;
                }
                let cases = &cases[..cases.len().min(5)];
                self.ensure(1, floor);
                self.op(0xe2, 1, 0);
                self.code.push((cases.len() - 1) as u8);
                let table = self.code.len();
                self.code.extend(std::iter::repeat(0u8).take(cases.len() * 2));
                let after = self.code.len();
                // fall-through (index out of range): jump to end
                self.op(0xe0, 0, 0);
                let pf = self.code.len();
                self.code.extend_from_slice(&[0, 0]);
                let afterf = self.code.len();
                let mut exits = vec![(pf, afterf)];
                let mut starts = vec![];
                for c in cases {
                    starts.push(self.code.len());
                    self.zero_block(c, depth);
                    self.op(0xe0, 0, 0);
                    let p = self.code.len();
                    self.code.extend_from_slice(&[0, 0]);
                    exits.push((p, self.code.len()));
                }
                let end = self.code.len();
                for (i, s) in starts.iter().enumerate() {
                    self.rel16(table + 2 * i, after, *s);
                }
                for (p, a) in exits {
                    self.rel16(p, a, end);
                }
            }
            Node::Bail(kind) => {
                if !room {
                    return;
                }
                // cond; RJUMPI skip; <exit>; skip:
                self.ensure(1, floor);
                self.op(0xe1, 1, 0);
                let p = self.code.len();
                self.code.extend_from_slice(&[0, 0]);
                let after = self.code.len();
                let h0 = self.h;
                match kind % 2 {
                    0 => {
                        self.push_small(0);
                        self.push_small(0);
                        self.op(0xfd, 2, 0);
                    }
                    _ => self.op(0xfe, 0, 0),
                }
                self.h = h0;
                let skip = self.code.len();
                self.rel16(p, after, skip);
            }
            Node::Callf(sel) => {
                let cands: Vec<usize> = (0..self.spec.sections.len()).filter(|i| *i != 0 && self.spec.sections[*i].outputs.is_some()).collect();
                if cands.is_empty() || !room {
                    return;
                }
                let t = cands[*sel as usize % cands.len()];
                let (i, o) = (self.spec.sections[t].inputs as i32, self.spec.sections[t].outputs.unwrap() as i32);
                self.ensure(i, floor);
                self.op(0xe3, i, o);
                self.code.extend_from_slice(&(t as u16).to_be_bytes());
                self.used_sections[t] = true;
            }
            Node::ExtCall(kind, target, val) => {
                if !room {
                    return;
                }
                match kind % 3 {
                    0 => {
                        self.push_small(*val % 3); // value
                        self.push_small(*val % 40); // input size
                        self.push_small(0);
                        self.push_addr(EXT_TARGETS[*target as usize % EXT_TARGETS.len()]);
                        self.op(0xf8, 4, 1);
                    }
                    1 => {
                        self.push_small(*val % 40);
                        self.push_small(0);
                        self.push_addr(EXT_TARGETS[*target as usize % EXT_TARGETS.len()]);
                        self.op(0xf9, 3, 1);
                    }
                    _ => {
                        self.push_small(*val % 40);
                        self.push_small(0);
                        self.push_addr(EXT_TARGETS[*target as usize % EXT_TARGETS.len()]);
                        self.op(0xfb, 3, 1);
                    }
                }
            }
            Node::EofCreate(sel) => {
                let cands: Vec<usize> = (0..self.spec.subs.len()).filter(|i| self.spec.subs[*i].initcode).collect();
                if cands.is_empty() || !room {
                    return;
                }
                let t = cands[*sel as usize % cands.len()];
                self.push_small(*sel % 20); // input size
                self.push_small(0); // input offset
                self.push_small(*sel); // salt
                // endowment: mostly none, sometimes 1 wei, sometimes more than the 100 wei the contract under test owns
                // (rejected before a frame exists)
                self.push_small([0u8, 0, 0, 1, 200][(*sel as usize / 3) % 5]); // value
                self.op(0xec, 4, 1);
                self.code.push(t as u8);
                self.used_subs[t] = true;
            }
        }
    }
}

/// Types entry and code of every section; `None` when the spec cannot be assembled.
fn assemble_container(spec: &ContainerSpec, depth: u32) -> Vec<u8> {
    let nsec = spec.sections.len();
    let mut used_sections = vec![false; nsec];
    let mut used_subs = vec![false; spec.subs.len()];
    let mut codes: Vec<Vec<u8>> = vec![];
    let mut maxes: Vec<u16> = vec![];
    // sections 1.. first (their stubs never reference anything), section 0 last so that it can reference what is left
    let order: Vec<usize> = (1..nsec).chain(std::iter::once(0)).collect();
    let mut built: Vec<Option<(Vec<u8>, i32)>> = vec![None; nsec];
    for idx in order {
        let s = &spec.sections[idx];
        let mut a = Asm { code: vec![], h: s.inputs as i32, max: s.inputs as i32, spec, this: idx, used_sections: used_sections.clone(), used_subs: used_subs.clone() };
        if idx == 0 {
            // reference whatever nothing referenced so far
            for t in 1..nsec {
                if a.used_sections[t] {
                    continue;
                }
                let ts = &spec.sections[t];
                match ts.outputs {
                    Some(o) => {
                        a.ensure(ts.inputs as i32, 0);
                        a.op(0xe3, ts.inputs as i32, o as i32);
                        a.code.extend_from_slice(&(t as u16).to_be_bytes());
                        a.settle(0);
                    }
                    None => {
                        // PUSH0; RJUMPI skip; args; JUMPF t; skip:
                        a.push_small(0);
                        a.op(0xe1, 1, 0);
                        let p = a.code.len();
                        a.code.extend_from_slice(&[0, 0]);
                        let after = a.code.len();
                        let h0 = a.h;
                        a.ensure(ts.inputs as i32, 0);
                        a.op(0xe5, 0, 0);
                        a.code.extend_from_slice(&(t as u16).to_be_bytes());
                        a.h = h0;
                        let skip = a.code.len();
                        a.rel16(p, after, skip);
                    }
                }
                a.used_sections[t] = true;
            }
            for (t, sub) in spec.subs.iter().enumerate() {
                if a.used_subs[t] {
                    continue;
                }
                if sub.initcode {
                    for _ in 0..4 {
                        a.push_small(0);
                    }
                    a.op(0xec, 4, 1);
                    a.code.push(t as u8);
                    a.op(0x50, 1, 0);
                } else {
                    // runtime sub-container: only RETURNCONTRACT may reference it
                    a.push_small(0);
                    a.op(0xe1, 1, 0);
                    let p = a.code.len();
                    a.code.extend_from_slice(&[0, 0]);
                    let after = a.code.len();
                    a.push_small(0);
                    a.push_small(0);
                    a.op(0xee, 2, 0);
                    a.code.push(t as u8);
                    let skip = a.code.len();
                    a.rel16(p, after, skip);
                }
                a.used_subs[t] = true;
            }
        }
        a.block(&s.body, 0, 0);
        // terminator
        let returning = s.outputs.is_some();
        let term = match (&s.term, returning) {
            (Term::Retf, false) => Term::Stop,
            (Term::Stop | Term::Return(_) | Term::ReturnContract(_), true) => Term::Retf,
            (t, _) => t.clone(),
        };
        let term = match (term, spec.initcode) {
            (Term::Stop | Term::Return(_), true) => Term::ReturnContract(0),
            (Term::ReturnContract(_), false) => Term::Stop,
            (t, _) => t,
        };
        match term {
            Term::Stop => a.op(0x00, 0, 0),
            Term::Invalid => a.op(0xfe, 0, 0),
            Term::Return(n) => {
                a.push_small(n % 70);
                a.push_small(0);
                a.op(0xf3, 2, 0);
            }
            Term::Revert(n) => {
                a.push_small(n % 70);
                a.push_small(0);
                a.op(0xfd, 2, 0);
            }
            Term::Retf => {
                a.settle(s.outputs.unwrap_or(0) as i32);
                a.op(0xe4, 0, 0);
            }
            Term::ReturnContract(sel) => {
                let cands: Vec<usize> = (0..spec.subs.len()).filter(|i| !spec.subs[*i].initcode).collect();
                if cands.is_empty() {
                    a.op(0xfe, 0, 0);
                } else {
                    let t = cands[sel as usize % cands.len()];
                    a.push_small(sel % 40);
                    a.push_small(0);
                    a.op(0xee, 2, 0);
                    a.code.push(t as u8);
                    a.used_subs[t] = true;
                }
            }
            Term::Jumpf(sel) => {
                // candidates compatible with this section
                let cands: Vec<usize> = (1..nsec)
                    .filter(|t| *t != idx)
                    .filter(|t| match (spec.sections[*t].outputs, s.outputs) {
                        (None, _) => !returning,
                        (Some(to), Some(so)) => to <= so,
                        (Some(_), None) => false,
                    })
                    .collect();
                if cands.is_empty() {
                    if returning {
                        a.settle(s.outputs.unwrap() as i32);
                        a.op(0xe4, 0, 0);
                    } else {
                        a.op(0xfe, 0, 0);
                    }
                } else {
                    let t = cands[sel as usize % cands.len()];
                    let ts = &spec.sections[t];
                    match ts.outputs {
                        None => a.ensure(ts.inputs as i32, 0),
                        Some(to) => a.settle(s.outputs.unwrap() as i32 + ts.inputs as i32 - to as i32),
                    }
                    a.op(0xe5, 0, 0);
                    a.code.extend_from_slice(&(t as u16).to_be_bytes());
                    a.used_sections[t] = true;
                }
            }
        }
        let _ = a.this;
        used_sections = a.used_sections.clone();
        used_subs = a.used_subs.clone();
        built[idx] = Some((a.code, a.max));
    }
    for b in built {
        let (c, m) = b.unwrap();
        codes.push(c);
        maxes.push(m.clamp(0, 1023) as u16);
    }
    let subs: Vec<Vec<u8>> = if depth >= 2 { vec![] } else { spec.subs.iter().map(|s| assemble_container(s, depth + 1)).collect() };
    // header
    let mut out = vec![0xef, 0x00, 0x01, 0x01];
    out.extend_from_slice(&((nsec * 4) as u16).to_be_bytes());
    out.push(0x02);
    out.extend_from_slice(&(nsec as u16).to_be_bytes());
    for c in &codes {
        out.extend_from_slice(&(c.len() as u16).to_be_bytes());
    }
    if !subs.is_empty() {
        out.push(0x03);
        out.extend_from_slice(&(subs.len() as u16).to_be_bytes());
        for s in &subs {
            out.extend_from_slice(&(s.len() as u16).to_be_bytes());
        }
    }
    out.push(0x04);
    out.extend_from_slice(&((spec.data.len() + spec.data_missing as usize) as u16).to_be_bytes());
    out.push(0x00);
    for (i, s) in spec.sections.iter().enumerate() {
        out.push(s.inputs);
        out.push(s.outputs.unwrap_or(0x80));
        out.extend_from_slice(&maxes[i].to_be_bytes());
    }
    for c in &codes {
        out.extend_from_slice(c);
    }
    for s in &subs {
        out.extend_from_slice(s);
    }
    out.extend_from_slice(&spec.data);
    out
}

// ---- strategies

fn node(depth: u32) -> BoxedStrategy<Node> {
    let leaf = prop_oneof![
        6 => (any::<u8>(), any::<u64>()).prop_map(|(a, b)| Node::Push(a, b)),
        2 => Just(Node::Pop),
        4 => any::<u8>().prop_map(Node::Bin),
        2 => any::<u8>().prop_map(Node::Un),
        3 => any::<u8>().prop_map(Node::Env),
        2 => any::<u8>().prop_map(Node::Dup),
        2 => any::<u8>().prop_map(Node::Swap),
        2 => any::<u8>().prop_map(Node::DupN),
        2 => any::<u8>().prop_map(Node::SwapN),
        2 => any::<u8>().prop_map(Node::Exchange),
        3 => (any::<u8>(), any::<u8>()).prop_map(|(a, b)| Node::Mem(a, b)),
        4 => (any::<u8>(), any::<u16>()).prop_map(|(a, b)| Node::Data(a, b)),
        3 => (any::<u8>(), any::<u8>()).prop_map(|(a, b)| Node::State(a, b)),
        3 => (any::<u8>(), any::<u8>()).prop_map(|(a, b)| Node::RetData(a, b)),
        2 => any::<u8>().prop_map(Node::Bail),
        4 => any::<u8>().prop_map(Node::Callf),
        3 => (any::<u8>(), any::<u8>(), any::<u8>()).prop_map(|(a, b, c)| Node::ExtCall(a, b, c)),
        3 => any::<u8>().prop_map(Node::EofCreate),
    ];
    if depth == 0 {
        return leaf.boxed();
    }
    let sub = move || prop::collection::vec(node(depth - 1), 0..4);
    prop_oneof![
        12 => leaf,
        2 => (sub(), sub()).prop_map(|(a, b)| Node::If(a, b)),
        1 => (any::<u8>(), sub()).prop_map(|(n, b)| Node::Loop(n, b)),
        1 => prop::collection::vec(sub(), 1..4).prop_map(Node::Switch),
    ]
    .boxed()
}

fn term() -> BoxedStrategy<Term> {
    prop_oneof![3 => Just(Term::Stop), 3 => any::<u8>().prop_map(Term::Return), 1 => any::<u8>().prop_map(Term::Revert), 1 => Just(Term::Invalid), 3 => Just(Term::Retf), 3 => any::<u8>().prop_map(Term::Jumpf), 2 => any::<u8>().prop_map(Term::ReturnContract)].boxed()
}

fn section(first: bool) -> BoxedStrategy<Section> {
    let io = if first { Just((0u8, None)).boxed() } else { (0u8..4, prop::option::weighted(0.75, 0u8..4)).boxed() };
    (io, prop::collection::vec(node(2), 0..10), term()).prop_map(|((inputs, outputs), body, term)| Section { inputs, outputs, body, term }).boxed()
}

pub fn container(depth: u32, initcode: BoxedStrategy<bool>) -> BoxedStrategy<ContainerSpec> {
    let subs = if depth == 0 { Just(vec![]).boxed() } else { prop::collection::vec(container(depth - 1, any::<bool>().boxed()), 0..3).boxed() };
    (initcode, section(true), prop::collection::vec(section(false), 0..4), prop::collection::vec(any::<u8>(), 0..80), prop::option::weighted(0.1, 1u8..40), subs)
        .prop_map(move |(initcode, first, rest, data, missing, mut subs)| {
            let mut sections = vec![first];
            sections.extend(rest);
            // a runtime container cannot reference runtime sub-containers (only RETURNCONTRACT does)
            if !initcode {
                subs.retain(|s| s.initcode);
            }
            ContainerSpec { initcode, sections, data, data_missing: missing.unwrap_or(0), subs }
        })
        .boxed()
}

// ------------------------------------------------------------------------------------------
// oracles
// ------------------------------------------------------------------------------------------

fn decode_laws(bytes: &[u8]) -> Result<Option<Eof>, Vec<Failure>> {
    let raw = Bytes::copy_from_slice(bytes);
    let d1 = Eof::decode(raw.clone());
    let d2 = Eof::decode(raw.clone());
    ensure!(d1 == d2, "C26|decode-not-deterministic", "decode gave {d1:?} then {d2:?}");
    let Ok(eof) = d1 else { return Ok(None) };
    let enc = eof.encode_slow();
    ensure!(enc.as_ref() == bytes, "C26|round-trip", "decoded container re-encodes to 0x{} ({} bytes), input was 0x{} ({} bytes)", hex::encode(&enc[..enc.len().min(200)]), enc.len(), hex::encode(&bytes[..bytes.len().min(200)]), bytes.len());
    ensure!(eof.raw().as_ref() == bytes, "C26|raw-differs", "Eof::raw() differs from the decoded input");
    if eof.body.is_data_filled {
        let tail = [0xaau8, 0xbb, 0xcc];
        let joined: Vec<u8> = bytes.iter().copied().chain(tail).collect();
        match Eof::decode_dangling(Bytes::from(joined)) {
            Ok((e2, rest)) => {
                ensure!(rest.as_ref() == tail, "C26|decode-dangling", "decode_dangling returned tail 0x{} instead of 0xaabbcc", hex::encode(&rest));
                ensure!(e2.encode_slow().as_ref() == bytes, "C26|decode-dangling", "decode_dangling decoded a different container");
            }
            Err(e) => return Err(vec![Failure::new("C26|decode-dangling", format!("container decodes alone but decode_dangling(container ++ tail) fails with {e:?}"))]),
        }
    }
    Ok(Some(eof))
}

fn verdict(bytes: &[u8], kind: Option<CodeType>) -> Result<bool, Vec<Failure>> {
    let a = validate_raw_eof_inner(Bytes::copy_from_slice(bytes), kind);
    let b = validate_raw_eof_inner(Bytes::copy_from_slice(bytes), kind);
    ensure!(format!("{:?}", a.as_ref().err()) == format!("{:?}", b.as_ref().err()), "C26|verdict-not-deterministic", "validation gave {:?} then {:?}", a.as_ref().err(), b.as_ref().err());
    if let Ok(eof) = &a {
        // validating the decoded value gives the same verdict as validating the raw bytes
        let c = validate_eof_inner(eof, kind);
        ensure!(c.is_ok(), "C26|verdict-differs-raw-vs-decoded", "raw bytes validate but the decoded container gives {c:?}");
    }
    Ok(a.is_ok())
}

/// Worlds in which an accepted container runs: as the code of a called account, and (initcode kind) as a create transaction.
fn execute(bytes: &[u8], runtime_ok: bool, initcode_ok: bool, calldata: &[u8], o: &mut Outcome, mode: u8) -> Result<(), Vec<Failure>> {
    let spec = SpecId::OSAKA;
    let sender = pool::eoa(0);
    let mut world = r::World::new();
    world.insert(sender, r::Account { balance: vgen::world::eth(1000), nonce: 0, code: vec![], storage: Default::default() });
    // fixed peers: a small valid EOF contract returning 40 bytes, a legacy contract returning 32 bytes
    let peer_eof = hex::decode("ef00010100040200010007040000000080000260285ff3").unwrap();
    let peer_eof = if Eof::decode(Bytes::from(peer_eof.clone())).is_ok() { peer_eof } else { vec![] };
    world.insert(pool::contract(1), r::Account { balance: r::U256::from(5), nonce: 1, code: peer_eof, storage: Default::default() });
    world.insert(pool::contract(2), r::Account { balance: r::U256::from(5), nonce: 1, code: hex::decode("60206000f3").unwrap(), storage: Default::default() });
    let block = vgen::world::BlockSpec::plain().build();
    let mk_tx = |to: Option<r::Address>, data: Vec<u8>| r::Tx {
        tx_type: r::TxType::Legacy,
        caller: sender,
        to,
        value: r::U256::zero(),
        data,
        gas_limit: 3_000_000,
        gas_price: block.base_fee + r::U256::from(1),
        max_priority_fee: None,
        nonce: Some(0),
        chain_id: Some(block.chain_id),
        access_list: vec![],
        blob_hashes: vec![],
        max_fee_per_blob_gas: r::U256::zero(),
        authorization_list: vec![],
    };
    let cfg = || RecCfg { safety: true, ..RecCfg::default() };
    let mut check = |label: &'static str, world: &r::World, tx: &r::Tx, o: &mut Outcome| -> Result<(), Vec<Failure>> {
        let (res, rec) = run_recorded(spec, world, make_env(spec, &block, tx), cfg());
        let bad: Vec<Failure> = rec.fails.iter().filter(|f| f.sig.starts_with("C25") || f.sig.starts_with("C07") || f.sig.starts_with("C29")).cloned().collect();
        if !bad.is_empty() {
            return Err(bad.into_iter().map(|f| Failure::new(format!("C26|{label}|{}", f.sig), f.msg)).collect());
        }
        match res {
            Ok(rs) => {
                ensure!(rs.result.gas_used() <= tx.gas_limit, format!("C26|{label}|gas"), "gas_used {} > limit", rs.result.gas_used());
                if mode & MODE_CONSERVATION != 0 {
                    // C08 on EOF value flows (EXTCALL with value, EOFCREATE endowments): nothing but the base fee leaves
                    let mut post = world.clone();
                    apply_state(&mut post, &rs.state, true);
                    let burned = crate::common::big(ru(block.base_fee)) * rs.result.gas_used();
                    let (pre_s, post_s) = (total_supply(world), total_supply(&post));
                    if &post_s + &burned != pre_s {
                        return Err(vec![Failure::new(format!("C26|{label}|C08|ether-{}", if &post_s + &burned > pre_s { "created" } else { "destroyed" }), format!("sum(pre) {pre_s} != sum(post) {post_s} + basefee*gas_used {burned} [{:?}]", rs.result))]);
                    }
                }
                if mode & MODE_INSPECTORS != 0 {
                    // C28: the recording inspector, the gas inspector and no inspector at all see the same execution
                    let plain = run_plain(spec, world, &block, tx).map_err(|e| vec![Failure::new(format!("C26|{label}|C28|plain-rejected"), e)])?;
                    let gas = {
                        let mut evm = revm::Evm::builder().with_db(ModelDB::new(world.clone())).with_spec_id(spec).with_env(Box::new(make_env(spec, &block, tx))).with_external_context(revm::inspectors::GasInspector::default()).append_handler_register(revm::inspector_handle_register).build();
                        evm.transact().map_err(|e| vec![Failure::new(format!("C26|{label}|C28|gas-inspector-rejected"), format!("{e:?}"))])?
                    };
                    let proj = |x: &revm::primitives::ResultAndState| {
                        let mut v: Vec<String> = x.state.iter().map(|(a, acc)| { let mut st: Vec<_> = acc.storage.iter().map(|(k, s)| (*k, s.present_value)).collect(); st.sort(); format!("{a} {:?} {:?} {:?}", acc.info.balance, acc.info.nonce, st) }).collect();
                        v.sort();
                        v
                    };
                    ensure!(plain.result == rs.result && proj(&plain) == proj(&rs), format!("C26|{label}|C28|recording-inspector-changes-execution"), "without inspector {:?}, with the recording inspector {:?}", plain.result, rs.result);
                    ensure!(plain.result == gas.result && proj(&plain) == proj(&gas), format!("C26|{label}|C28|GasInspector-changes-execution"), "without inspector {:?}, with GasInspector {:?}", plain.result, gas.result);
                }
                if rec.steps >= 5 {
                    o.labels.push("executed>=5-instructions");
                }
                for (op, l) in [(0xe3usize, "ran:CALLF"), (0xe5, "ran:JUMPF"), (0xe4, "ran:RETF"), (0xe2, "ran:RJUMPV"), (0xec, "ran:EOFCREATE"), (0xee, "ran:RETURNCONTRACT"), (0xf8, "ran:EXTCALL"), (0xf9, "ran:EXTDELEGATECALL"), (0xfb, "ran:EXTSTATICCALL"), (0xd3, "ran:DATACOPY"), (0xd1, "ran:DATALOADN"), (0xe8, "ran:EXCHANGE")] {
                    if rec.ops[op] > 0 {
                        o.labels.push(l);
                    }
                }
            }
            Err(e) => return Err(vec![Failure::new(format!("C26|{label}|rejected"), format!("transaction rejected: {e}"))]),
        }
        Ok(())
    };
    if runtime_ok {
        let mut w = world.clone();
        w.insert(pool::contract(0), r::Account { balance: r::U256::from(100), nonce: 1, code: bytes.to_vec(), storage: Default::default() });
        let tx = mk_tx(Some(pool::contract(0)), calldata.to_vec());
        check("run-as-code", &w, &tx, o)?;
    }
    if initcode_ok {
        let mut data = bytes.to_vec();
        data.extend_from_slice(calldata);
        let tx = mk_tx(None, data);
        check("run-as-create-tx", &world, &tx, o)?;
    }
    Ok(())
}


// ------------------------------------------------------------------------------------------
// independent necessary conditions of validity (EIP-3670 / 4200 / 4750 / 6206 / 7480 / 7620):
// a container violating one of them must be rejected, whatever else the validator checks
// ------------------------------------------------------------------------------------------

/// Immediate size of an opcode inside EOF code (`None` = not an EOF opcode); RJUMPV is variable.
fn eof_imm(op: u8) -> Option<usize> {
    Some(match op {
        0x60..=0x7f => (op - 0x5f) as usize,
        0xe0 | 0xe1 | 0xe3 | 0xe5 | 0xd1 => 2,
        0xe6 | 0xe7 | 0xe8 | 0xec | 0xee => 1,
        0xe2 => 1,
        // valid opcodes without immediates
        0x00..=0x0b | 0x10..=0x1d | 0x20 | 0x30..=0x37 | 0x3a | 0x3d | 0x3e | 0x40..=0x4a | 0x50..=0x55 | 0x59 | 0x5b..=0x5f | 0x80..=0x9f | 0xa0..=0xa4 | 0xd0 | 0xd2 | 0xd3 | 0xe4 | 0xf3 | 0xf7 | 0xf8 | 0xf9 | 0xfb | 0xfd | 0xfe => 0,
        _ => return None,
    })
}

fn is_terminating(op: u8) -> bool {
    matches!(op, 0x00 | 0xf3 | 0xfd | 0xfe | 0xe4 | 0xe5 | 0xee | 0xe0)
}

/// Some(reason) when the container breaks a rule that every valid container satisfies.
fn must_reject(eof: &Eof) -> Option<String> {
    let nsec = eof.body.code_section.len();
    let ncont = eof.body.container_section.len();
    if nsec == 0 || nsec != eof.body.types_section.len() {
        return Some("number of code sections differs from the number of type entries".into());
    }
    let declared_data = eof.header.data_size as usize;
    for (si, code) in eof.body.code_section.iter().enumerate() {
        let code: &[u8] = code.as_ref();
        if code.is_empty() {
            return Some(format!("section {si} is empty"));
        }
        let mut is_imm = vec![false; code.len()];
        let mut targets: Vec<(usize, isize)> = vec![];
        let mut i = 0usize;
        let mut last_op = 0u8;
        while i < code.len() {
            let op = code[i];
            let Some(mut imm) = eof_imm(op) else { return Some(format!("section {si}: byte {op:#04x} at {i} is not an EOF instruction")) };
            if op == 0xe2 {
                if i + 1 >= code.len() {
                    return Some(format!("section {si}: RJUMPV at {i} without its count byte"));
                }
                imm = 1 + 2 * (code[i + 1] as usize + 1);
            }
            if i + imm >= code.len() && !(imm == 0) {
                return Some(format!("section {si}: instruction {op:#04x} at {i} has truncated immediates (or nothing follows it)"));
            }
            for k in 1..=imm {
                is_imm[i + k] = true;
            }
            let next = i + 1 + imm;
            let rd16 = |p: usize| i16::from_be_bytes([code[p], code[p + 1]]) as isize;
            match op {
                0xe0 | 0xe1 => targets.push((i, next as isize + rd16(i + 1))),
                0xe2 => {
                    for k in 0..=(code[i + 1] as usize) {
                        targets.push((i, next as isize + rd16(i + 2 + 2 * k)));
                    }
                }
                0xe3 | 0xe5 => {
                    let t = u16::from_be_bytes([code[i + 1], code[i + 2]]) as usize;
                    if t >= nsec {
                        return Some(format!("section {si}: CALLF/JUMPF at {i} names section {t} of {nsec}"));
                    }
                    if op == 0xe3 && eof.body.types_section[t].outputs == 0x80 {
                        return Some(format!("section {si}: CALLF at {i} into the non-returning section {t}"));
                    }
                }
                0xec | 0xee => {
                    if code[i + 1] as usize >= ncont {
                        return Some(format!("section {si}: EOFCREATE/RETURNCONTRACT at {i} names sub-container {} of {ncont}", code[i + 1]));
                    }
                }
                0xd1 => {
                    let off = u16::from_be_bytes([code[i + 1], code[i + 2]]) as usize;
                    if off + 32 > declared_data {
                        return Some(format!("section {si}: DATALOADN at {i} reads {off}..{} of a {declared_data}-byte data section", off + 32));
                    }
                }
                _ => {}
            }
            last_op = op;
            i = next;
        }
        if !is_terminating(last_op) {
            return Some(format!("section {si} ends with the non-terminating instruction {last_op:#04x}"));
        }
        for (at, t) in targets {
            if t < 0 || t as usize >= code.len() {
                return Some(format!("section {si}: relative jump at {at} targets {t}, outside the {}-byte section", code.len()));
            }
            if is_imm[t as usize] {
                return Some(format!("section {si}: relative jump at {at} targets {t}, an immediate byte"));
            }
        }
    }
    None
}

/// All laws on one byte string.
fn full_check(bytes: &[u8], calldata: &[u8], o: &mut Outcome) -> Result<(), Vec<Failure>> {
    full_check_mode(bytes, calldata, o, 0)
}

fn full_check_mode(bytes: &[u8], calldata: &[u8], o: &mut Outcome, mode: u8) -> Result<(), Vec<Failure>> {
    let Some(eof) = decode_laws(bytes)? else {
        o.labels.push("not-decodable");
        // validation must agree that it does not decode
        let v = verdict(bytes, Some(CodeType::ReturnOrStop))?;
        ensure!(!v, "C26|validates-undecodable", "bytes that do not decode are accepted by validation");
        return Ok(());
    };
    o.labels.push("decodes");
    let rt = verdict(bytes, Some(CodeType::ReturnOrStop))?;
    let ic = verdict(bytes, Some(CodeType::ReturnContract))?;
    let any = verdict(bytes, None)?;
    ensure!(any || !(rt || ic), "C26|kind-agnostic-verdict", "accepted for a specific kind but rejected without a kind");
    if !(rt || ic) {
        if must_reject(&eof).is_some() {
            o.labels.push("rejected:breaks-an-independent-rule");
        }
        o.labels.push("rejected-by-validation");
        return Ok(());
    }
    o.labels.push("accepted-by-validation");
    if let Some(why) = must_reject(&eof) {
        return Err(vec![Failure::new("C26|accepts-invalid-container", format!("validation accepts 0x{} although {why}", hex::encode(&bytes[..bytes.len().min(300)])))]);
    }
    if eof.body.code_section.len() >= 2 || !eof.body.container_section.is_empty() {
        o.nontrivial = true;
    }
    if !eof.body.container_section.is_empty() {
        o.labels.push("has-subcontainer");
    }
    if eof.body.code_section.len() >= 2 {
        o.labels.push("multi-section");
    }
    execute(bytes, rt, ic, calldata, o, mode)
}

// ------------------------------------------------------------------------------------------
// cases
// ------------------------------------------------------------------------------------------

#[derive(Clone, Debug, Hash, Serialize, Deserialize)]
pub struct BuiltCase {
    pub spec: ContainerSpec,
    pub calldata: Vec<u8>,
}

#[derive(Clone, Debug, Hash, Serialize, Deserialize)]
pub struct BytesCase {
    pub bytes: Hx,
    pub calldata: Vec<u8>,
}

#[derive(Clone, Debug, Hash, Serialize, Deserialize)]
pub struct GoldenCase {
    pub file: String,
    pub name: String,
    pub code: Hx,
    pub initcode: bool,
    pub expected: bool,
}

pub fn built_case(c: &BuiltCase) -> CaseResult {
    let bytes = assemble_container(&c.spec, 0);
    let mut o = Outcome::trivial();
    full_check(&bytes, &c.calldata, &mut o)?;
    Ok(o)
}


/// C08 / C28 on EOF: the same execution, judged by conservation (mode 1) or by inspector transparency (mode 2).
pub fn eof_mode_case(c: &BuiltCase, mode: u8, tag: &str, id: &str) -> CaseResult {
    let bytes = assemble_container(&c.spec, 0);
    let mut o = Outcome::trivial();
    match full_check_mode(&bytes, &c.calldata, &mut o, mode) {
        Ok(()) => {}
        Err(fails) => {
            let needle = format!("|{tag}|");
            let mine: Vec<Failure> = fails.into_iter().filter(|f| f.sig.contains(&needle)).map(|f| Failure::new(format!("{id}|eof|{}", f.sig.rsplit(&needle).next().unwrap_or("")), f.msg)).collect();
            if !mine.is_empty() {
                return Err(mine);
            }
        }
    }
    o.nontrivial = o.labels.iter().any(|l| matches!(*l, "ran:EOFCREATE" | "ran:EXTCALL" | "ran:EXTDELEGATECALL" | "ran:EXTSTATICCALL"));
    Ok(o)
}

/// C25 on validated EOF containers: no panic / abort, instruction pointer inside the section, stack bound.
pub fn c25_eof_case(c: &BuiltCase) -> CaseResult {
    eof_mode_case(c, 0, "C25", "C25")
}

pub fn c08_eof_case(c: &BuiltCase) -> CaseResult {
    eof_mode_case(c, MODE_CONSERVATION, "C08", "C08")
}

pub fn c28_eof_case(c: &BuiltCase) -> CaseResult {
    eof_mode_case(c, MODE_INSPECTORS, "C28", "C28")
}

/// C29 on EOF frames: the same execution, judged by the hook-pairing recorder only.
pub fn c29_eof_case(c: &BuiltCase) -> CaseResult {
    let bytes = assemble_container(&c.spec, 0);
    let mut o = Outcome::trivial();
    match full_check(&bytes, &c.calldata, &mut o) {
        Ok(()) => {}
        Err(fails) => {
            let mine: Vec<Failure> = fails
                .into_iter()
                .filter(|f| f.sig.contains("|C29|") || f.sig.contains("handler_register"))
                .map(|f| Failure::new(format!("C29|eof|{}", f.sig.rsplit("C29|").next().unwrap_or("")), f.msg))
                .collect();
            if !mine.is_empty() {
                return Err(mine);
            }
        }
    }
    o.nontrivial = o.labels.iter().any(|l| matches!(*l, "ran:EOFCREATE" | "ran:EXTCALL" | "ran:EXTDELEGATECALL" | "ran:EXTSTATICCALL"));
    Ok(o)
}

/// C07 on EOF call kinds: the same execution, judged by the depth monitor only.
pub fn c07_eof_case(c: &BuiltCase) -> CaseResult {
    let bytes = assemble_container(&c.spec, 0);
    let mut o = Outcome::trivial();
    match full_check(&bytes, &c.calldata, &mut o) {
        Ok(()) => {}
        Err(fails) => {
            let mine: Vec<Failure> = fails.into_iter().filter(|f| f.sig.contains("|C07|")).map(|f| Failure::new(format!("C07|eof|{}", f.sig.rsplit("C07|").next().unwrap_or("")), f.msg)).collect();
            if !mine.is_empty() {
                return Err(mine);
            }
        }
    }
    o.nontrivial = o.labels.iter().any(|l| matches!(*l, "ran:EXTCALL" | "ran:EXTDELEGATECALL" | "ran:EXTSTATICCALL" | "ran:EOFCREATE"));
    Ok(o)
}

pub fn bytes_case(c: &BytesCase) -> CaseResult {
    let mut o = Outcome::trivial();
    full_check(&c.bytes.0, &c.calldata, &mut o)?;
    Ok(o)
}

pub fn golden_case(c: &GoldenCase) -> CaseResult {
    let kind = if c.initcode { CodeType::ReturnContract } else { CodeType::ReturnOrStop };
    let got = verdict(&c.code.0, Some(kind))?;
    ensure!(got == c.expected, "C26|golden-vector", "{} :: {}: validation says {got}, the vector expects {}", c.file, c.name, c.expected);
    let mut o = Outcome::trivial();
    // every vector additionally goes through the full set of laws (and is executed when accepted)
    full_check(&c.code.0, &[1, 2, 3, 4], &mut o)?;
    o.nontrivial = true;
    Ok(o)
}

fn load_vectors() -> Vec<GoldenCase> {
    let mut out = vec![];
    let root = std::path::Path::new("/repo/tests/eof_suite/eest/eof_tests");
    let mut stack = vec![root.to_path_buf()];
    let mut files = vec![];
    while let Some(d) = stack.pop() {
        let Ok(rd) = std::fs::read_dir(&d) else { continue };
        for e in rd.flatten() {
            let p = e.path();
            if p.is_dir() {
                stack.push(p);
            } else if p.extension().map(|x| x == "json").unwrap_or(false) {
                files.push(p);
            }
        }
    }
    files.sort();
    for f in files {
        let Ok(txt) = std::fs::read_to_string(&f) else { continue };
        let Ok(v) = serde_json::from_str::<serde_json::Value>(&txt) else { continue };
        let Some(obj) = v.as_object() else { continue };
        for (_, unit) in obj {
            let Some(vectors) = unit.get("vectors").and_then(|x| x.as_object()) else { continue };
            for (name, vec) in vectors {
                let Some(code) = vec.get("code").and_then(|c| c.as_str()) else { continue };
                let Ok(code) = hex::decode(code.trim_start_matches("0x")) else { continue };
                let Some(expected) = vec.get("results").and_then(|r| r.get("Osaka")).and_then(|r| r.get("result")).and_then(|r| r.as_bool()) else { continue };
                let initcode = vec.get("containerKind").map(|k| k.as_str() == Some("INITCODE")).unwrap_or(false);
                out.push(GoldenCase { file: f.strip_prefix(root).unwrap_or(&f).display().to_string(), name: name.clone(), code: Hx(code), initcode, expected });
            }
        }
    }
    out
}


/// Structure-aware mutation: re-aim one relative jump (RJUMP / RJUMPI / one RJUMPV entry) of a
/// decodable container at an arbitrary byte of its section (instruction starts, immediates, last byte).
fn retarget(bytes: &[u8], sel_jump: u16, sel_target: u16) -> Vec<u8> {
    let mut out = bytes.to_vec();
    let Ok(eof) = Eof::decode(Bytes::copy_from_slice(bytes)) else { return out };
    let mut start = eof.header.size() + eof.header.types_size as usize;
    // (absolute position of the 2-byte offset, absolute end of the instruction, section start, section len)
    let mut slots: Vec<(usize, usize, usize, usize)> = vec![];
    for code in &eof.body.code_section {
        let code: &[u8] = code.as_ref();
        let mut i = 0usize;
        while i < code.len() {
            let op = code[i];
            let mut imm = eof_imm(op).unwrap_or(0);
            if op == 0xe2 {
                if i + 1 >= code.len() {
                    break;
                }
                imm = 1 + 2 * (code[i + 1] as usize + 1);
            }
            if i + imm >= code.len() {
                break;
            }
            let next = i + 1 + imm;
            match op {
                0xe0 | 0xe1 => slots.push((start + i + 1, start + next, start, code.len())),
                0xe2 => {
                    for k in 0..=(code[i + 1] as usize) {
                        slots.push((start + i + 2 + 2 * k, start + next, start, code.len()));
                    }
                }
                _ => {}
            }
            i = next;
        }
        start += code.len();
    }
    if slots.is_empty() {
        return out;
    }
    let (pos, end, sec, len) = slots[(sel_jump as usize * slots.len()) >> 16];
    let target = sec + ((sel_target as usize * len) >> 16);
    let off = (target as isize - end as isize) as i16;
    out[pos..pos + 2].copy_from_slice(&off.to_be_bytes());
    out
}

fn mutate_bytes(base: BoxedStrategy<Vec<u8>>) -> BoxedStrategy<Vec<u8>> {
    (base, prop::collection::vec((0u8..6, any::<u16>(), any::<u8>()), 0..4))
        .prop_map(|(mut v, muts)| {
            for (kind, pos, val) in muts {
                if v.is_empty() {
                    break;
                }
                let at = (pos as usize * v.len()) >> 16;
                match kind {
                    0 => v[at] = val,
                    1 => v[at] ^= 1 << (val % 8),
                    2 => v.insert(at, val),
                    3 => {
                        v.remove(at);
                    }
                    4 => v[at] = v[at].wrapping_add(1),
                    _ => v.truncate(at),
                }
            }
            v
        })
        .boxed()
}


// ------------------------------------------------------------------------------------------
// C10 on EOF: a static call into generated EOF code (which EXT*CALLs a second generated EOF contract)
// ------------------------------------------------------------------------------------------

#[derive(Clone, Debug, Hash, Serialize, Deserialize)]
pub struct StaticEofCase {
    pub a: ContainerSpec,
    pub b: ContainerSpec,
    pub calldata: Vec<u8>,
    /// 0: legacy root STATICCALLs A; 1: EOF root EXTSTATICCALLs A
    pub root: u8,
}

pub fn c10_eof_case(c: &StaticEofCase) -> CaseResult {
    let (a, b) = (assemble_container(&c.a, 0), assemble_container(&c.b, 0));
    let ok = |x: &[u8]| validate_raw_eof_inner(Bytes::copy_from_slice(x), Some(CodeType::ReturnOrStop)).is_ok();
    if !ok(&a) || !ok(&b) {
        return Ok(Outcome::trivial().label("container-rejected"));
    }
    let spec = SpecId::OSAKA;
    let sender = pool::eoa(0);
    let mut world = r::World::new();
    world.insert(sender, r::Account { balance: vgen::world::eth(1000), nonce: 0, code: vec![], storage: Default::default() });
    let mut st = std::collections::BTreeMap::new();
    st.insert(r::U256::from(1), r::U256::from(7));
    world.insert(pool::contract(0), r::Account { balance: r::U256::from(1000), nonce: 1, code: a, storage: st.clone() });
    world.insert(pool::contract(1), r::Account { balance: r::U256::from(1000), nonce: 1, code: b, storage: st });
    world.insert(pool::contract(2), r::Account { balance: r::U256::from(5), nonce: 1, code: hex::decode("600160015560206000f3").unwrap(), storage: Default::default() });
    // root: forwards its calldata to A inside a static call, then stops
    let root_code = if c.root % 2 == 0 {
        // CALLDATASIZE 0 0 CALLDATACOPY; STATICCALL(gas, A, 0, CALLDATASIZE, 0, 0); STOP
        let mut v = hex::decode("3660006000375f5f365f73").unwrap();
        v.extend_from_slice(&pool::contract(0));
        v.extend_from_slice(&hex::decode("5afa5000").unwrap());
        v
    } else {
        // EOF root: CALLDATASIZE PUSH0 PUSH0 CALLDATACOPY; EXTSTATICCALL(A, 0, CALLDATASIZE); POP; STOP
        let mut code = hex::decode("365f5f37365f73").unwrap();
        code.extend_from_slice(&pool::contract(0));
        code.extend_from_slice(&[0xfb, 0x50, 0x00]);
        let mut v = vec![0xef, 0x00, 0x01, 0x01, 0x00, 0x04, 0x02, 0x00, 0x01];
        v.extend_from_slice(&(code.len() as u16).to_be_bytes());
        v.extend_from_slice(&[0x04, 0x00, 0x00, 0x00, 0x00, 0x80, 0x00, 0x03]);
        v.extend_from_slice(&code);
        v
    };
    world.insert(pool::contract(3), r::Account { balance: r::U256::zero(), nonce: 1, code: root_code, storage: Default::default() });
    let block = vgen::world::BlockSpec::plain().build();
    let tx = r::Tx {
        tx_type: r::TxType::Legacy,
        caller: sender,
        to: Some(pool::contract(3)),
        value: r::U256::zero(),
        data: c.calldata.clone(),
        gas_limit: 3_000_000,
        gas_price: block.base_fee + r::U256::from(1),
        max_priority_fee: None,
        nonce: Some(0),
        chain_id: Some(block.chain_id),
        access_list: vec![],
        blob_hashes: vec![],
        max_fee_per_blob_gas: r::U256::zero(),
        authorization_list: vec![],
    };
    let (res, rec) = run_recorded(spec, &world, make_env(spec, &block, &tx), RecCfg { statics: true, ..RecCfg::default() });
    let bad: Vec<Failure> = rec.fails.iter().filter(|f| f.sig.starts_with("C10")).cloned().collect();
    if !bad.is_empty() {
        return Err(bad.into_iter().map(|f| Failure::new(format!("C10|eof|{}", f.sig.trim_start_matches("C10|")), f.msg)).collect());
    }
    if let Err(e) = res {
        return Err(vec![Failure::new("C10|eof|harness|tx-rejected", e)]);
    }
    let mut o = Outcome::new(rec.static_write_depth2 > 0);
    if rec.static_frames > 0 {
        o.labels.push("static-frame");
    }
    if rec.static_write_attempts > 0 {
        o.labels.push("write-attempt-in-static");
    }
    if rec.static_write_depth2 > 0 {
        o.labels.push("write-attempt-at-static-depth>=2");
    }
    for (op, l) in [(0xf8usize, "ran:EXTCALL"), (0xf9, "ran:EXTDELEGATECALL"), (0xfb, "ran:EXTSTATICCALL"), (0xec, "ran:EOFCREATE")] {
        if rec.ops[op] > 0 {
            o.labels.push(l);
        }
    }
    Ok(o)
}

pub fn static_eof_strategy() -> BoxedStrategy<StaticEofCase> {
    (container(1, Just(false).boxed()), container(1, Just(false).boxed()), prop::collection::vec(any::<u8>(), 0..40), 0u8..2).prop_map(|(a, b, calldata, root)| StaticEofCase { a, b, calldata, root }).boxed()
}


// ------------------------------------------------------------------------------------------
// C21 on EOF creation kinds
// ------------------------------------------------------------------------------------------

#[derive(Clone, Debug, Hash, Serialize, Deserialize)]
pub struct EofCollisionCase {
    /// bit0 code, bit1 nonce, bit2 storage, bit3 zero balance
    pub target: u8,
    /// 0 EOF create transaction, 1 EOFCREATE from a factory
    pub kind: u8,
    pub layer: u8,
    pub value: u8,
}

pub fn c21_eof_case(c: &EofCollisionCase) -> CaseResult {
    use revm::primitives::ExecutionResult;
    let spec = SpecId::OSAKA;
    let stop = |body: Vec<Node>, term: Term| Section { inputs: 0, outputs: None, body, term };
    let runtime = ContainerSpec { initcode: false, sections: vec![stop(vec![], Term::Stop)], data: vec![0xaa, 0xbb], data_missing: 0, subs: vec![] };
    let init = ContainerSpec { initcode: true, sections: vec![stop(vec![], Term::ReturnContract(0))], data: vec![], data_missing: 0, subs: vec![runtime.clone()] };
    // factory: EOFCREATE(sub 0) with value; slot 1 <- created address; slot 2 <- 7 (the frame continues)
    let factory_code = {
        let mut code = vec![];
        code.extend_from_slice(&[0x5f, 0x5f, 0x60, 0x09, 0x60, c.value & 1, 0xec, 0x00]); // in_size 0, in_off 0, salt 9, value; EOFCREATE 0
        code.extend_from_slice(&[0x60, 0x01, 0x55]); // SSTORE(1, address)
        code.extend_from_slice(&[0x60, 0x07, 0x60, 0x02, 0x55, 0x00]); // SSTORE(2, 7); STOP
        code
    };
    let init_bytes = assemble_container(&init, 0);
    let runtime_bytes = assemble_container(&runtime, 0);
    let factory_bytes = {
        let mut v = vec![0xef, 0x00, 0x01, 0x01, 0x00, 0x04, 0x02, 0x00, 0x01];
        v.extend_from_slice(&(factory_code.len() as u16).to_be_bytes());
        v.extend_from_slice(&[0x03, 0x00, 0x01]);
        v.extend_from_slice(&(init_bytes.len() as u16).to_be_bytes());
        v.extend_from_slice(&[0x04, 0x00, 0x00, 0x00, 0x00, 0x80, 0x00, 0x04]);
        v.extend_from_slice(&factory_code);
        v.extend_from_slice(&init_bytes);
        v
    };
    for (name, b, kind) in [("init", &init_bytes, CodeType::ReturnContract), ("factory", &factory_bytes, CodeType::ReturnOrStop)] {
        if let Err(e) = validate_raw_eof_inner(Bytes::copy_from_slice(b), Some(kind)) {
            return Err(vec![Failure::new("C21|harness|eof-fixture-invalid", format!("{name} container rejected: {e:?}"))]);
        }
    }
    let sender = pool::eoa(0);
    let factory = pool::contract(0);
    let mut pre = r::World::new();
    pre.insert(sender, r::Account { balance: vgen::world::eth(1000), nonce: 0, code: vec![], storage: Default::default() });
    pre.insert(factory, r::Account { balance: r::U256::from(1000), nonce: 1, code: factory_bytes, storage: Default::default() });
    let block = vgen::world::BlockSpec::plain().build();
    let tx = r::Tx {
        tx_type: r::TxType::Legacy,
        caller: sender,
        to: if c.kind % 2 == 0 { None } else { Some(factory) },
        value: if c.kind % 2 == 0 { r::U256::from((c.value & 1) as u64) } else { r::U256::zero() },
        data: if c.kind % 2 == 0 { init_bytes.clone() } else { vec![] },
        gas_limit: 3_000_000,
        gas_price: block.base_fee + r::U256::from(1),
        max_priority_fee: None,
        nonce: Some(0),
        chain_id: Some(block.chain_id),
        access_list: vec![],
        blob_hashes: vec![],
        max_fee_per_blob_gas: r::U256::zero(),
        authorization_list: vec![],
    };
    // where does the new contract go?  create transaction: own formula; EOFCREATE: observed on a free address first
    let target: r::Address = if c.kind % 2 == 0 {
        r::create_address(sender, 0)
    } else {
        let rs = run_plain(spec, &pre, &block, &tx).map_err(|e| vec![Failure::new("C21|harness|rejected", e)])?;
        let mut post = pre.clone();
        apply_state(&mut post, &rs.state, true);
        let w = post.get(&factory).and_then(|a| a.storage.get(&r::U256::one())).copied().unwrap_or_default();
        let mut b = [0u8; 32];
        w.to_big_endian(&mut b);
        let mut a = [0u8; 20];
        a.copy_from_slice(&b[12..]);
        if w.is_zero() || post.get(&a).map(|x| x.code != runtime_bytes).unwrap_or(true) {
            return Err(vec![Failure::new("C21|creation-on-free-address-failed", format!("EOFCREATE on a free address did not deploy the runtime container: result {:?}", rs.result))]);
        }
        a
    };
    let (has_code, has_nonce, has_storage) = (c.target & 1 != 0, c.target & 2 != 0, c.target & 4 != 0);
    if c.target != 0 {
        pre.insert(
            target,
            r::Account {
                balance: r::U256::from(if c.target & 8 != 0 && c.target != 8 { 0u64 } else { 3 }),
                nonce: if has_nonce { 1 } else { 0 },
                code: if has_code { vec![0x00] } else { vec![] },
                storage: if has_storage { [(r::U256::from(5u64), r::U256::from(6u64))].into_iter().collect() } else { Default::default() },
            },
        );
    }
    let before = pre.get(&target).cloned();
    let collision = has_code || has_nonce || has_storage;
    let layer_name = ["ModelDB", "State", "CacheDB", "CacheDB+insert_account_storage", "WrapDatabaseRef", "State+bundle", "CacheDB+insert_account_storage(unknown address)", "CacheDB+replace_account_storage"][c.layer as usize % 8];
    let rs = crate::histcheck::run_layered(c.layer, spec, &pre, &target, make_env(spec, &block, &tx)).map_err(|e| vec![Failure::new("C21|harness|rejected", e)])?;
    let mut post = pre.clone();
    apply_state(&mut post, &rs.state, true);
    let what = if has_storage && !has_code && !has_nonce { "storage-only" } else { "code/nonce" };
    let kind_name = ["EOF create tx", "EOFCREATE"][c.kind as usize % 2];
    let sig = |clause: &str| format!("C21|{clause}|{what}|{layer_name}|eof");
    let ctxs = format!("[kind {kind_name} target(code {has_code}, nonce {has_nonce}, storage {has_storage}) layer {layer_name} OSAKA]");
    let after = post.get(&target);
    if collision {
        ensure!(after == before.as_ref(), sig("collision-missed-target-changed"), "creation onto an occupied address changed it: before {before:?} after {after:?} {ctxs}");
        if c.kind % 2 == 0 {
            ensure!(matches!(rs.result, ExecutionResult::Halt { .. }), sig("collision-missed"), "create transaction onto an occupied address ended with {:?} {ctxs}", rs.result);
            ensure!(rs.result.gas_used() == tx.gas_limit, sig("collision-gas"), "collision must consume all gas: used {} of {} {ctxs}", rs.result.gas_used(), tx.gas_limit);
        } else {
            let f = post.get(&factory).unwrap();
            let pushed = f.storage.get(&r::U256::one()).copied().unwrap_or_default();
            ensure!(pushed.is_zero(), sig("collision-missed"), "EOFCREATE onto an occupied address pushed {pushed:#x} instead of 0 {ctxs}");
            ensure!(f.nonce == 2, sig("creator-nonce"), "factory nonce {} after a colliding EOFCREATE, expected 2 {ctxs}", f.nonce);
            ensure!(f.storage.get(&r::U256::from(2)) == Some(&r::U256::from(7u64)), sig("creator-continues"), "factory frame did not continue after the failed EOFCREATE {ctxs}");
        }
    } else {
        let deployed = after.map(|a| a.code.clone()).unwrap_or_default();
        ensure!(deployed == runtime_bytes, "C21|creation-on-free-address-failed", "creation on a free address did not deploy: {:?} {ctxs}", rs.result);
    }
    Ok(Outcome::new(what == "storage-only").label(if collision { "collision" } else { "free" }).label(if c.kind % 2 == 0 { "eof-create-tx" } else { "EOFCREATE" }))
}

pub fn built_strategy() -> BoxedStrategy<BuiltCase> {
    (container(2, prop::bool::weighted(0.35).boxed()), prop::collection::vec(any::<u8>(), 0..40)).prop_map(|(spec, calldata)| BuiltCase { spec, calldata }).boxed()
}

pub fn c26(ctx: &mut Ctx) {
    let t = ctx.tier;
    let golden = load_vectors();
    if golden.is_empty() {
        ctx.warn("no EOF validation vectors found under /repo/tests/eof_suite");
    }
    let corpus: Arc<Vec<Vec<u8>>> = Arc::new(golden.iter().map(|g| g.code.0.clone()).filter(|c| c.len() <= 4000).collect());
    ctx.run_list(
        "golden-vectors",
        "every vector of /repo/tests/eof_suite/eest/eof_tests: validate_raw_eof_inner(code, kind from containerKind) must equal results.Osaka.result; each vector also passes the decode/round-trip/determinism laws and is executed when accepted",
        golden,
        false,
        golden_case,
    );
    ctx.run_cases(
        "generated-containers",
        "containers assembled from typed templates with tracked stack heights: 1-5 code sections (inputs/outputs 0-3, non-returning), RJUMP/RJUMPI if-else, bounded backward loops, RJUMPV switches, guarded early exits, CALLF/RETF/JUMPF (returning and non-returning targets), DUPN/SWAPN/EXCHANGE, DATALOAD/DATALOADN/DATACOPY/DATASIZE, RETURNDATA* ops, EXTCALL/EXTDELEGATECALL/EXTSTATICCALL to EOF/legacy/empty/precompile targets, EOFCREATE/RETURNCONTRACT with nested sub-containers (depth 2), truncated data sections; laws: decode never panics and is deterministic, decode->encode_slow is the identity, decode_dangling(c++tail) returns tail, validation verdict is deterministic and equal for raw and decoded form; accepted containers run under OSAKA as called code and (initcode kind) as a create transaction with the safety monitor (instruction pointer inside the section, stack <= 1024, balanced frames), debug assertions and overflow checks: no panic; non-trivial = accepted by validation with >= 2 code sections or a sub-container",
        || (container(2, prop::bool::weighted(0.35).boxed()), prop::collection::vec(any::<u8>(), 0..40)).prop_map(|(spec, calldata)| BuiltCase { spec, calldata }),
        t.pick(300_000, 6_000_000),
        built_case,
    );
    let c2 = corpus.clone();
    ctx.run_cases(
        "mutated-corpus",
        "containers of the shipped EOF vectors with 0-3 byte-level mutations (set/flip/insert/delete/increment/truncate); same laws; accepted mutants are executed",
        move || {
            let c = c2.clone();
            let n = c.len().max(1);
            let base = (0..n).prop_map(move |i| c.get(i).cloned().unwrap_or_default()).boxed();
            (mutate_bytes(base), prop::collection::vec(any::<u8>(), 0..8)).prop_map(|(b, calldata)| BytesCase { bytes: Hx(b), calldata })
        },
        t.pick(600_000, 12_000_000),
        bytes_case,
    );
    ctx.run_cases(
        "mutated-generated",
        "byte-level mutations of generated valid containers (header fields, type entries, immediates, section boundaries)",
        || {
            let base = container(1, any::<bool>().boxed()).prop_map(|s| assemble_container(&s, 0)).boxed();
            (mutate_bytes(base), prop::collection::vec(any::<u8>(), 0..8)).prop_map(|(b, calldata)| BytesCase { bytes: Hx(b), calldata })
        },
        t.pick(300_000, 6_000_000),
        bytes_case,
    );
    let c3 = corpus.clone();
    ctx.run_cases(
        "retargeted-jumps",
        "structure-aware mutation of generated valid containers and shipped vectors: one RJUMP / RJUMPI / RJUMPV-entry offset is re-aimed at an arbitrary byte of its section (other instructions, immediates incl. the bytes of RJUMPV tables and PUSH data, the last byte); an independent scan (own immediate table) decides which targets are immediates: validation must reject those, and whatever it accepts is executed",
        move || {
            let c = c3.clone();
            let n = c.len().max(1);
            let base = prop_oneof![
                3 => container(1, any::<bool>().boxed()).prop_map(|s| assemble_container(&s, 0)),
                1 => (0..n).prop_map(move |i| c.get(i).cloned().unwrap_or_default()),
            ];
            (base, any::<u16>(), any::<u16>(), prop::collection::vec(any::<u8>(), 0..8)).prop_map(|(b, j, t, calldata)| BytesCase { bytes: Hx(retarget(&b, j, t)), calldata })
        },
        t.pick(200_000, 6_000_000),
        bytes_case,
    );
    ctx.run_cases(
        "arbitrary-bytes",
        "arbitrary byte strings behind the EF0001 prefix and plausible header prefixes",
        || {
            // structurally plausible header followed by a body of (nearly) the announced length
            let header = (1usize..5, prop::collection::vec(1u16..40, 1..5), prop::collection::vec(20u16..60, 0..3), 0u16..70, prop_oneof![8 => Just(0i32), 1 => -3i32..4], any::<u64>(), 0u8..12).prop_map(|(ntypes, code_sizes, cont_sizes, data_size, delta, seed, tweak)| {
                let ntypes = if tweak == 0 { ntypes } else { code_sizes.len() };
                let mut v = vec![0xef, 0x00, 0x01, 0x01];
                v.extend_from_slice(&((ntypes * 4) as u16).to_be_bytes());
                v.push(0x02);
                v.extend_from_slice(&(code_sizes.len() as u16).to_be_bytes());
                for c in &code_sizes {
                    v.extend_from_slice(&c.to_be_bytes());
                }
                if !cont_sizes.is_empty() {
                    v.push(0x03);
                    v.extend_from_slice(&(cont_sizes.len() as u16).to_be_bytes());
                    for c in &cont_sizes {
                        v.extend_from_slice(&c.to_be_bytes());
                    }
                }
                v.push(0x04);
                v.extend_from_slice(&data_size.to_be_bytes());
                v.push(0x00);
                let body = ntypes * 4 + code_sizes.iter().map(|x| *x as usize).sum::<usize>() + cont_sizes.iter().map(|x| *x as usize).sum::<usize>() + data_size as usize;
                let body = (body as i32 + delta).max(0) as usize;
                let mut x = seed;
                for i in 0..body {
                    x = x.wrapping_mul(6364136223846793005).wrapping_add(1442695040888963407);
                    // type entries: small inputs/outputs/max-stack so that they pass the range checks sometimes
                    let b = (x >> 33) as u8;
                    v.push(if i < ntypes * 4 { match i % 4 { 0 => b % 4, 1 => if i < 4 { 0x80 } else { b % 4 }, 2 => 0, _ => b % 8 } } else { b });
                }
                v
            });
            let b = prop_oneof![
                4 => header,
                1 => prop::collection::vec(any::<u8>(), 0..120),
                1 => prop::collection::vec(any::<u8>(), 0..120).prop_map(|mut v| { let mut p = vec![0xef, 0x00, 0x01]; p.append(&mut v); p }),
                1 => prop::collection::vec(any::<u8>(), 0..120).prop_map(|mut v| { let mut p = vec![0xef, 0x00, 0x01, 0x01, 0x00, 0x04, 0x02, 0x00, 0x01]; p.append(&mut v); p }),
            ];
            (b, Just(vec![])).prop_map(|(b, calldata)| BytesCase { bytes: Hx(b), calldata })
        },
        t.pick(300_000, 6_000_000),
        bytes_case,
    );
    ctx.expect_labels("generated-containers", &["accepted-by-validation", "has-subcontainer", "multi-section", "ran:CALLF", "ran:JUMPF", "ran:RETF", "ran:RJUMPV", "ran:EOFCREATE", "ran:RETURNCONTRACT", "ran:EXTCALL", "ran:EXTDELEGATECALL", "ran:EXTSTATICCALL", "ran:DATACOPY", "ran:DATALOADN", "ran:EXCHANGE"]);
    ctx.expect_labels("mutated-corpus", &["accepted-by-validation", "rejected-by-validation", "not-decodable"]);
    ctx.assumptions.push("decode_dangling is only required to split container and tail when the container's data section is complete (a truncated data section legitimately absorbs following bytes)".into());
}
