//! Bridge between the generators' plain data (refevm types) and revm: ModelDB, Env conversion,
//! running a transaction, and the independent "apply committed output" rule.
use crate::common::{era, Era, MAINNET_SPECS};
use refevm as r;
use revm::db::{DatabaseCommit, DatabaseRef};
use revm::primitives::{
    AccessListItem, Account, AccountInfo, Address, Authorization, AuthorizationList, BlobExcessGasAndPrice, BlockEnv, Bytecode, Bytes, CfgEnv, Env, EvmState, ExecutionResult, HashMap as RHashMap, Output,
    RecoveredAuthority, RecoveredAuthorization, ResultAndState, SpecId, TxEnv, TxKind, B256, KECCAK_EMPTY, U256,
};
use revm::{Database, Evm};
use std::collections::BTreeMap;
use std::convert::Infallible;

pub fn ru(v: r::U256) -> U256 {
    let mut b = [0u8; 32];
    v.to_big_endian(&mut b);
    U256::from_be_bytes(b)
}
pub fn pu(v: U256) -> r::U256 {
    r::U256::from_big_endian(&v.to_be_bytes::<32>())
}
pub fn ra(a: &r::Address) -> Address {
    Address::from(*a)
}
pub fn pa(a: &Address) -> r::Address {
    a.0 .0
}

pub fn spec_id(idx: u8) -> SpecId {
    MAINNET_SPECS[idx as usize % MAINNET_SPECS.len()]
}

pub fn bytecode_of(code: &[u8]) -> Bytecode {
    match Bytecode::new_raw_checked(Bytes::copy_from_slice(code)) {
        Ok(b) => b,
        Err(_) => Bytecode::new_legacy(Bytes::copy_from_slice(code)),
    }
}

pub fn code_hash(code: &[u8]) -> B256 {
    if code.is_empty() {
        KECCAK_EMPTY
    } else {
        B256::from(r::keccak256(code))
    }
}

/// Plain reference database: the "underlying data" of every check.
#[derive(Clone, Debug, Default, PartialEq, Eq)]
pub struct ModelDB {
    pub world: r::World,
    pub block_hashes: BTreeMap<u64, B256>,
    /// when false, `basic` returns `code: None` so that `code_by_hash` is exercised
    pub inline_code: bool,
}

impl ModelDB {
    pub fn new(world: r::World) -> Self {
        ModelDB { world, block_hashes: BTreeMap::new(), inline_code: true }
    }
    pub fn info_of(&self, a: &r::Account) -> AccountInfo {
        AccountInfo { balance: ru(a.balance), nonce: a.nonce, code_hash: code_hash(&a.code), code: if self.inline_code { Some(bytecode_of(&a.code)) } else { None } }
    }
}

impl DatabaseRef for ModelDB {
    type Error = Infallible;
    fn basic_ref(&self, address: Address) -> Result<Option<AccountInfo>, Infallible> {
        Ok(self.world.get(&pa(&address)).map(|a| self.info_of(a)))
    }
    fn code_by_hash_ref(&self, code_hash_: B256) -> Result<Bytecode, Infallible> {
        if code_hash_ == KECCAK_EMPTY {
            return Ok(Bytecode::default());
        }
        for a in self.world.values() {
            if !a.code.is_empty() && code_hash(&a.code) == code_hash_ {
                return Ok(bytecode_of(&a.code));
            }
        }
        Ok(Bytecode::default())
    }
    fn has_storage_ref(&self, address: Address) -> Result<bool, Infallible> {
        Ok(self.world.get(&pa(&address)).map(|a| a.storage.values().any(|v| !v.is_zero())).unwrap_or(false))
    }
    fn storage_ref(&self, address: Address, index: U256) -> Result<U256, Infallible> {
        Ok(self.world.get(&pa(&address)).and_then(|a| a.storage.get(&pu(index))).map(|v| ru(*v)).unwrap_or(U256::ZERO))
    }
    fn block_hash_ref(&self, number: u64) -> Result<B256, Infallible> {
        Ok(self.block_hashes.get(&number).copied().unwrap_or_else(|| B256::from(r::default_block_hash(number))))
    }
}

impl Database for ModelDB {
    type Error = Infallible;
    fn basic(&mut self, address: Address) -> Result<Option<AccountInfo>, Infallible> {
        self.basic_ref(address)
    }
    fn code_by_hash(&mut self, h: B256) -> Result<Bytecode, Infallible> {
        self.code_by_hash_ref(h)
    }
    fn has_storage(&mut self, address: Address) -> Result<bool, Infallible> {
        self.has_storage_ref(address)
    }
    fn storage(&mut self, address: Address, index: U256) -> Result<U256, Infallible> {
        self.storage_ref(address, index)
    }
    fn block_hash(&mut self, number: u64) -> Result<B256, Infallible> {
        self.block_hash_ref(number)
    }
}

impl DatabaseCommit for ModelDB {
    fn commit(&mut self, changes: RHashMap<Address, Account>) {
        // spec is not known here: callers that need EIP-161 semantics use `apply_state` directly
        apply_state(&mut self.world, &changes, true);
    }
}

/// Independent rule for applying a transaction's output state to a plain world
/// (EIP-161 state clearing iff `state_clear`).
pub fn apply_state(world: &mut r::World, state: &EvmState, state_clear: bool) {
    let mut addrs: Vec<&Address> = state.keys().collect();
    addrs.sort();
    for addr in addrs {
        let acc = &state[addr];
        if !acc.is_touched() {
            continue;
        }
        let key = pa(addr);
        if acc.is_selfdestructed() {
            world.remove(&key);
            continue;
        }
        if state_clear && acc.info.balance.is_zero() && acc.info.nonce == 0 && acc.info.code_hash == KECCAK_EMPTY {
            world.remove(&key);
            continue;
        }
        let e = world.entry(key).or_default();
        if acc.is_created() {
            e.storage.clear();
        }
        e.balance = pu(acc.info.balance);
        e.nonce = acc.info.nonce;
        if let Some(code) = &acc.info.code {
            e.code = code.original_bytes().to_vec();
        } else if acc.info.code_hash == KECCAK_EMPTY {
            e.code.clear();
        }
        let mut keys: Vec<&U256> = acc.storage.keys().collect();
        keys.sort();
        for k in keys {
            let v = acc.storage[k].present_value;
            if v.is_zero() {
                e.storage.remove(&pu(*k));
            } else {
                e.storage.insert(pu(*k), pu(v));
            }
        }
    }
}

pub fn block_env(spec: SpecId, b: &r::Block) -> BlockEnv {
    let e = era(spec);
    BlockEnv {
        number: U256::from(b.number),
        coinbase: ra(&b.coinbase),
        timestamp: U256::from(b.timestamp),
        gas_limit: U256::from(b.gas_limit),
        basefee: if e >= Era::London { ru(b.base_fee) } else { U256::ZERO },
        difficulty: ru(b.difficulty),
        prevrandao: Some(B256::from(b.prev_randao)),
        blob_excess_gas_and_price: Some(BlobExcessGasAndPrice::new(b.excess_blob_gas, e >= Era::Prague)),
    }
}

pub fn tx_env(t: &r::Tx) -> TxEnv {
    let is1559 = t.max_priority_fee.is_some();
    TxEnv {
        caller: ra(&t.caller),
        gas_limit: t.gas_limit,
        gas_price: ru(t.gas_price),
        transact_to: match &t.to {
            Some(a) => TxKind::Call(ra(a)),
            None => TxKind::Create,
        },
        value: ru(t.value),
        data: Bytes::from(t.data.clone()),
        nonce: t.nonce,
        chain_id: t.chain_id,
        access_list: t.access_list.iter().map(|(a, ks)| AccessListItem { address: ra(a), storage_keys: ks.iter().map(|k| B256::from(ru(*k).to_be_bytes::<32>())).collect() }).collect(),
        gas_priority_fee: if is1559 { t.max_priority_fee.map(ru) } else { None },
        blob_hashes: t.blob_hashes.iter().map(|h| B256::from(*h)).collect(),
        max_fee_per_blob_gas: if t.tx_type == r::TxType::Eip4844 { Some(ru(t.max_fee_per_blob_gas)) } else { None },
        authorization_list: if t.tx_type == r::TxType::Eip7702 {
            Some(AuthorizationList::Recovered(
                t.authorization_list
                    .iter()
                    .map(|a| {
                        RecoveredAuthorization::new_unchecked(
                            Authorization { chain_id: ru(a.chain_id), address: ra(&a.address), nonce: a.nonce },
                            match &a.authority {
                                Some(x) => RecoveredAuthority::Valid(ra(x)),
                                None => RecoveredAuthority::Invalid,
                            },
                        )
                    })
                    .collect(),
            ))
        } else {
            None
        },
        #[cfg(feature = "optimism")]
        optimism: Default::default(),
    }
}

pub fn make_env(spec: SpecId, b: &r::Block, t: &r::Tx) -> Env {
    let mut cfg = CfgEnv::default();
    cfg.chain_id = b.chain_id;
    Env { cfg, block: block_env(spec, b), tx: tx_env(t) }
}

/// Normalised view of an execution result.
#[derive(Clone, Debug, PartialEq, Eq)]
pub struct Norm {
    pub status: r::Status,
    pub gas_used: u64,
    pub gas_refunded: u64,
    pub output: Vec<u8>,
    pub logs: Vec<r::Log>,
    pub created: Option<r::Address>,
    pub halt_reason: String,
}

pub fn norm_result(res: &ExecutionResult) -> Norm {
    match res {
        ExecutionResult::Success { gas_used, gas_refunded, logs, output, .. } => {
            let (out, created) = match output {
                Output::Call(b) => (b.to_vec(), None),
                Output::Create(b, a) => (b.to_vec(), a.as_ref().map(pa)),
            };
            Norm {
                status: r::Status::Success,
                gas_used: *gas_used,
                gas_refunded: *gas_refunded,
                output: out,
                logs: logs.iter().map(|l| r::Log { address: pa(&l.address), topics: l.data.topics().iter().map(|t| t.0).collect(), data: l.data.data.to_vec() }).collect(),
                created,
                halt_reason: String::new(),
            }
        }
        ExecutionResult::Revert { gas_used, output } => Norm { status: r::Status::Revert, gas_used: *gas_used, gas_refunded: 0, output: output.to_vec(), logs: vec![], created: None, halt_reason: String::new() },
        ExecutionResult::Halt { reason, gas_used } => Norm { status: r::Status::Halt, gas_used: *gas_used, gas_refunded: 0, output: vec![], logs: vec![], created: None, halt_reason: format!("{reason:?}") },
    }
}

/// Runs one transaction on a fresh Evm over a ModelDB; Err = rejected (validation / header error).
pub fn run_plain(spec: SpecId, world: &r::World, b: &r::Block, t: &r::Tx) -> Result<ResultAndState, String> {
    let db = ModelDB::new(world.clone());
    let mut evm = Evm::builder().with_db(db).with_spec_id(spec).with_env(Box::new(make_env(spec, b, t))).build();
    evm.transact().map_err(|e| format!("{e:?}"))
}

pub fn state_clear(spec: SpecId) -> bool {
    era(spec) >= Era::Spurious
}

/// revm-precompile plugged into the reference EVM (precompile *bodies* are trusted there and
/// checked on their own in C23/C24; activation is decided by the reference).
pub struct RevmPrecompiles;

impl r::Externals for RevmPrecompiles {
    fn precompile(&self, fork: r::Fork, address: r::Address, input: &[u8], gas_limit: u64) -> r::PrecompileResult {
        use revm_precompile::{PrecompileSpecId, Precompiles};
        let id = match fork {
            r::Fork::Frontier | r::Fork::Homestead | r::Fork::Tangerine | r::Fork::SpuriousDragon => PrecompileSpecId::HOMESTEAD,
            r::Fork::Byzantium | r::Fork::Petersburg => PrecompileSpecId::BYZANTIUM,
            r::Fork::Istanbul => PrecompileSpecId::ISTANBUL,
            r::Fork::Berlin | r::Fork::London | r::Fork::Merge | r::Fork::Shanghai => PrecompileSpecId::BERLIN,
            r::Fork::Cancun => PrecompileSpecId::CANCUN,
            r::Fork::Prague => PrecompileSpecId::PRAGUE,
        };
        let Some(p) = Precompiles::new(id).get(&ra(&address)) else { return r::PrecompileResult::Fail };
        let env = Env::default();
        match p.call_ref(&Bytes::copy_from_slice(input), gas_limit, &env) {
            Ok(o) => r::PrecompileResult::Ok { gas_used: o.gas_used, output: o.bytes.to_vec() },
            Err(_) => r::PrecompileResult::Fail,
        }
    }
}

/// Sum of balances over a world (BigUint).
pub fn total_supply(w: &r::World) -> num_bigint::BigUint {
    let mut s = num_bigint::BigUint::default();
    for a in w.values() {
        let mut b = [0u8; 32];
        a.balance.to_big_endian(&mut b);
        s += num_bigint::BigUint::from_bytes_be(&b);
    }
    s
}
