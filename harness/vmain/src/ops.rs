//! Interpreter-level checks with DummyHost: C03 (arithmetic), C04 (jumps), C05 (opcode availability).
use crate::common::*;
use num_bigint::{BigInt, BigUint};
use num_traits::{One, Zero};
use revm::interpreter::analysis::to_analysed;
use revm::interpreter::opcode::{make_instruction_table, InstructionTable};
use revm::interpreter::{Contract, DummyHost, InstructionResult, Interpreter, InterpreterAction, SharedMemory};
use revm::primitives::{Address, Bytecode, Bytes, Env, SpecId, B256, U256};
use serde::{Deserialize, Serialize};
use vcore::proptest::prelude::*;
use vcore::{ensure, fail, CaseResult, Ctx, Outcome};

pub fn table_for(spec: SpecId) -> InstructionTable<DummyHost> {
    revm::primitives::spec_to_generic!(spec, make_instruction_table::<DummyHost, SPEC>())
}

fn dummy_env() -> Env {
    let mut env = Env::default();
    env.block.prevrandao = Some(B256::with_last_byte(7));
    env.block.set_blob_excess_gas_and_price(0, false);
    env
}

pub fn interp_for(code: Bytecode, gas: u64) -> Interpreter {
    let c = Contract::new(Bytes::from_static(&[1, 2, 3, 4]), code, None, Address::with_last_byte(0xaa), None, Address::with_last_byte(0xbb), U256::from(5));
    Interpreter::new(c, gas, false)
}

// ------------------------------------------------------------------------------------------
// C03
// ------------------------------------------------------------------------------------------

pub const ARITH_OPS: [(u8, &str, usize); 25] = [
    (0x01, "ADD", 2),
    (0x02, "MUL", 2),
    (0x03, "SUB", 2),
    (0x04, "DIV", 2),
    (0x05, "SDIV", 2),
    (0x06, "MOD", 2),
    (0x07, "SMOD", 2),
    (0x08, "ADDMOD", 3),
    (0x09, "MULMOD", 3),
    (0x0a, "EXP", 2),
    (0x0b, "SIGNEXTEND", 2),
    (0x10, "LT", 2),
    (0x11, "GT", 2),
    (0x12, "SLT", 2),
    (0x13, "SGT", 2),
    (0x14, "EQ", 2),
    (0x15, "ISZERO", 1),
    (0x16, "AND", 2),
    (0x17, "OR", 2),
    (0x18, "XOR", 2),
    (0x19, "NOT", 1),
    (0x1a, "BYTE", 2),
    (0x1b, "SHL", 2),
    (0x1c, "SHR", 2),
    (0x1d, "SAR", 2),
];

#[derive(Clone, Debug, Hash, Serialize, Deserialize)]
pub struct ArithCase {
    pub op: u8,
    pub spec: u8,
    pub a: U256,
    pub b: U256,
    pub c: U256,
}

fn signed(x: &BigUint) -> BigInt {
    if x.bits() == 256 {
        BigInt::from(x.clone()) - BigInt::from(two_pow(256))
    } else {
        BigInt::from(x.clone())
    }
}

fn unsigned(x: BigInt) -> BigUint {
    let m = BigInt::from(two_pow(256));
    let r = ((x % &m) + &m) % &m;
    r.to_biguint().unwrap()
}

/// Specification value of each opcode over unbounded integers.
fn arith_spec(op: u8, a: &BigUint, b: &BigUint, c: &BigUint) -> BigUint {
    let m = two_pow(256);
    let bool_ = |x: bool| if x { BigUint::one() } else { BigUint::zero() };
    match op {
        0x01 => (a + b) % &m,
        0x02 => (a * b) % &m,
        0x03 => unsigned(BigInt::from(a.clone()) - BigInt::from(b.clone())),
        0x04 => if b.is_zero() { BigUint::zero() } else { a / b },
        0x05 => if b.is_zero() { BigUint::zero() } else { unsigned(signed(a) / signed(b)) },
        0x06 => if b.is_zero() { BigUint::zero() } else { a % b },
        0x07 => if b.is_zero() { BigUint::zero() } else { unsigned(signed(a) % signed(b)) },
        0x08 => if c.is_zero() { BigUint::zero() } else { (a + b) % c },
        0x09 => if c.is_zero() { BigUint::zero() } else { (a * b) % c },
        0x0a => a.modpow(b, &m),
        0x0b => {
            // a = byte index, b = value
            if *a >= BigUint::from(31u8) {
                b.clone()
            } else {
                let t = 8 * a.to_u32_digits().first().copied().unwrap_or(0) + 7;
                let low_mask = two_pow(t + 1) - BigUint::one();
                let low = b & &low_mask;
                if ((b >> t) & BigUint::one()).is_one() {
                    low | (&m - BigUint::one() - low_mask)
                } else {
                    low
                }
            }
        }
        0x10 => bool_(a < b),
        0x11 => bool_(a > b),
        0x12 => bool_(signed(a) < signed(b)),
        0x13 => bool_(signed(a) > signed(b)),
        0x14 => bool_(a == b),
        0x15 => bool_(a.is_zero()),
        0x16 => a & b,
        0x17 => a | b,
        0x18 => a ^ b,
        0x19 => &m - BigUint::one() - a,
        0x1a => {
            if *a >= BigUint::from(32u8) {
                BigUint::zero()
            } else {
                let i = a.to_u32_digits().first().copied().unwrap_or(0);
                (b >> (8 * (31 - i))) & BigUint::from(0xffu8)
            }
        }
        0x1b => if *a >= BigUint::from(256u32) { BigUint::zero() } else { (b << a.to_u32_digits().first().copied().unwrap_or(0)) % &m },
        0x1c => if *a >= BigUint::from(256u32) { BigUint::zero() } else { b >> a.to_u32_digits().first().copied().unwrap_or(0) },
        0x1d => {
            let v = signed(b);
            if *a >= BigUint::from(256u32) {
                if v < BigInt::zero() { &m - BigUint::one() } else { BigUint::zero() }
            } else {
                unsigned(v >> a.to_u32_digits().first().copied().unwrap_or(0))
            }
        }
        _ => unreachable!(),
    }
}

fn arith_gas(op: u8, e: Era, b: &BigUint) -> u64 {
    match op {
        0x01 | 0x03 | 0x10..=0x1d => 3,
        0x02 | 0x04..=0x07 | 0x0b => 5,
        0x08 | 0x09 => 8,
        0x0a => 10 + if b.is_zero() { 0 } else { (if e >= Era::Spurious { 50 } else { 10 }) * ((b.bits() + 7) / 8) },
        _ => unreachable!(),
    }
}

fn c03_case(case: &ArithCase) -> CaseResult {
    let Some(&(_, name, arity)) = ARITH_OPS.iter().find(|o| o.0 == case.op) else { return Ok(Outcome::trivial()) };
    let spec = spec_of(case.spec);
    let e = era(spec);
    let mut code = vec![];
    let operands = [case.c, case.b, case.a];
    for w in &operands[3 - arity..] {
        code.push(0x7f);
        code.extend_from_slice(&w.to_be_bytes::<32>());
    }
    code.push(case.op);
    code.push(0x00);
    let mut interp = interp_for(Bytecode::new_legacy(Bytes::from(code)), 1_000_000);
    let s0 = U256::from(0x5e47_1e11_u64) << 128usize;
    let s1 = U256::MAX - U256::from(0x77);
    interp.stack.push(s0).unwrap();
    interp.stack.push(s1).unwrap();
    let table = table_for(spec);
    let mut host = DummyHost::new(dummy_env());
    let action = interp.run(SharedMemory::new(), &table, &mut host);
    let InterpreterAction::Return { result } = action else { return fail(format!("C03|{name}|action"), format!("{case:?}: unexpected action {action:?}")) };
    let available = !(matches!(case.op, 0x1b..=0x1d) && e < Era::Petersburg);
    if !available {
        ensure!(
            matches!(result.result, InstructionResult::NotActivated | InstructionResult::OpcodeNotFound),
            format!("C03|{name}|available-too-early"),
            "{case:?}: {name} must be undefined before Constantinople, got {:?}",
            result.result
        );
        return Ok(Outcome::new(true).label("unavailable"));
    }
    ensure!(result.result == InstructionResult::Stop, format!("C03|{name}|result"), "{case:?}: ended with {:?}", result.result);
    let (a, b, c) = (big(case.a), big(case.b), big(case.c));
    let want = from_big(&arith_spec(case.op, &a, &b, &c));
    let data = interp.stack.data();
    ensure!(data.len() == 3, format!("C03|{name}|stack-len"), "{case:?}: stack has {} items, expected 3 (two sentinels + result)", data.len());
    ensure!(data[0] == s0 && data[1] == s1, format!("C03|{name}|consumed-too-much"), "{case:?}: sentinels changed: {:?}", &data[..2]);
    ensure!(data[2] == want, format!("C03|{name}|value"), "{name}({}, {}, {}) [spec {spec:?}] = {:#x}, specification value {:#x}", case.a, case.b, case.c, data[2], want);
    let want_gas = 3 * arity as u64 + arith_gas(case.op, e, &b);
    ensure!(result.gas.spent() == want_gas, format!("C03|{name}|gas"), "{case:?} [spec {spec:?}]: gas spent {} expected {want_gas}", result.gas.spent());
    let nt = case.a > U256::from(1) || case.b > U256::from(1);
    Ok(Outcome::new(nt))
}

fn shiftish() -> impl Strategy<Value = U256> + Clone {
    prop_oneof![
        3 => (0u64..=40).prop_map(U256::from),
        3 => (250u64..=260).prop_map(U256::from),
        1 => (0u64..=300).prop_map(U256::from),
        1 => word(),
    ]
}

pub fn c03(ctx: &mut Ctx) {
    let edges = edge_words();
    // exhaustive E x E (x E' for ternary) on three representative specs (gas classes differ only for EXP and SHx availability)
    let mut ex = vec![];
    let small: Vec<U256> = edges.iter().copied().filter(|w| *w <= U256::from(3) || *w >= U256::MAX - U256::from(2) || *w == (U256::from(1) << 255usize) || *w == (U256::from(1) << 128usize) || *w == (U256::from(1) << 255usize) - U256::from(1)).collect();
    for &(op, _, arity) in ARITH_OPS.iter() {
        for spec in [0u8, 5, 8, 18] {
            match arity {
                1 => {
                    for a in &edges {
                        ex.push(ArithCase { op, spec, a: *a, b: U256::ZERO, c: U256::ZERO });
                    }
                }
                2 => {
                    if spec != 18 && op != 0x0a && !(0x1b..=0x1d).contains(&op) {
                        continue;
                    }
                    for a in &edges {
                        for b in &edges {
                            ex.push(ArithCase { op, spec, a: *a, b: *b, c: U256::ZERO });
                        }
                    }
                }
                _ => {
                    if spec != 18 {
                        continue;
                    }
                    for a in &small {
                        for b in &small {
                            for c in &small {
                                ex.push(ArithCase { op, spec, a: *a, b: *b, c: *c });
                            }
                        }
                    }
                }
            }
        }
    }
    ctx.run_list(
        "edge-grid",
        "every opcode on the full edge grid E x E (|E|=48: 0,1,2,3, 2^k and 2^k+-1 for k in {7,8,15,16,31,32,63,64,127,128,254,255}, 2^255+-1, MAX..MAX-2, 30..33, 256, 257), ternary ops on a 13-element E'^3; oracle = BigUint/BigInt definitions + static/EXP gas table; non-trivial = some operand > 1",
        ex,
        false,
        c03_case,
    );
    let n = ctx.tier.pick(400_000, 20_000_000);
    let strat = || (0usize..ARITH_OPS.len(), spec_idx(), prop_oneof![2 => word(), 1 => shiftish()], word(), word()).prop_map(|(i, spec, a, b, c)| ArithCase { op: ARITH_OPS[i].0, spec, a, b, c });
    ctx.run_cases(
        "random",
        "random operands (edge / log-uniform / uniform / small shift-like first operand) x every opcode x every SpecId, executed through Interpreter::run with the spec's instruction table on PUSH32.. OP STOP over two stack sentinels; non-trivial = some operand > 1; distinct by (op, spec, operands)",
        strat,
        n,
        c03_case,
    );
    ctx.expect_labels("random", &["unavailable"]);
}

// ------------------------------------------------------------------------------------------
// C04
// ------------------------------------------------------------------------------------------

#[derive(Clone, Debug, Hash, Serialize, Deserialize)]
pub struct JumpCase {
    /// code body; the executed code is `[JUMP|JUMPI] ++ body`
    pub body: Vec<u8>,
    /// extra targets (besides every position 0..len+40)
    pub far_targets: Vec<U256>,
}

/// Independent definition: valid <=> t < len, code[t] == 0x5b, t not inside PUSH data.
fn valid_jumpdests(code: &[u8]) -> Vec<bool> {
    let mut v = vec![false; code.len()];
    let mut i = 0;
    while i < code.len() {
        let op = code[i];
        if op == 0x5b {
            v[i] = true;
        }
        if (0x60..=0x7f).contains(&op) {
            i += (op - 0x5f) as usize;
        }
        i += 1;
    }
    v
}

fn rec_stop(interp: &mut Interpreter, _h: &mut DummyHost) {
    interp.instruction_result = InstructionResult::Stop;
}

// Only the instruction at pc 0 is the real JUMP/JUMPI; any later occurrence is the recorder.
fn jump_first(interp: &mut Interpreter, h: &mut DummyHost) {
    if interp.program_counter() == 1 {
        revm::interpreter::instructions::control::jump(interp, h)
    } else {
        rec_stop(interp, h)
    }
}
fn jumpi_first(interp: &mut Interpreter, h: &mut DummyHost) {
    if interp.program_counter() == 1 {
        revm::interpreter::instructions::control::jumpi(interp, h)
    } else {
        rec_stop(interp, h)
    }
}

fn jump_table() -> InstructionTable<DummyHost> {
    let base = table_for(SpecId::CANCUN);
    let mut t: InstructionTable<DummyHost> = [rec_stop as fn(&mut Interpreter, &mut DummyHost); 256];
    // the spec table's entries are exactly these functions (checked below)
    assert!(base[0x56] as usize == revm::interpreter::instructions::control::jump::<DummyHost> as usize);
    assert!(base[0x57] as usize == revm::interpreter::instructions::control::jumpi::<DummyHost> as usize);
    t[0x56] = jump_first;
    t[0x57] = jumpi_first;
    t
}

fn c04_case(case: &JumpCase) -> CaseResult {
    let table = jump_table();
    let mut host = DummyHost::new(dummy_env());
    let mut nontrivial = false;
    let mut labels: Vec<&'static str> = vec![];
    for (jop, jname) in [(0x56u8, "JUMP"), (0x57u8, "JUMPI")] {
        let mut code = vec![jop];
        code.extend_from_slice(&case.body);
        let valid = valid_jumpdests(&code);
        let has_5b_in_push = code.iter().enumerate().any(|(i, b)| *b == 0x5b && !valid[i]);
        // truncated trailing push
        let mut i = 0;
        let mut truncated = false;
        while i < code.len() {
            let op = code[i];
            if (0x60..=0x7f).contains(&op) {
                let n = (op - 0x5f) as usize;
                if i + n >= code.len() {
                    truncated = true;
                }
                i += n;
            }
            i += 1;
        }
        if has_5b_in_push {
            nontrivial = true;
            labels.push("5b-in-push-data");
        }
        if truncated {
            nontrivial = true;
            labels.push("truncated-push");
        }
        let raw = Bytecode::new_legacy(Bytes::from(code.clone()));
        let analysed = to_analysed(raw.clone());
        let Some(jt) = analysed.legacy_jump_table() else { return fail("C04|analysis|no-jump-table", "to_analysed returned no jump table") };
        let mut targets: Vec<U256> = (0..code.len() + 40).map(U256::from).collect();
        targets.extend(case.far_targets.iter().copied());
        for t in targets {
            let want = t < U256::from(code.len()) && valid[t.as_limbs()[0] as usize];
            if t < U256::from(usize::MAX) {
                let tu = t.as_limbs()[0] as usize;
                // is_valid on the bit table is only defined for positions covered by the table
                if tu < code.len() + 40 {
                    let got = jt.is_valid(tu);
                    ensure!(got == want, "C04|jump-table|is_valid", "code {} target {tu}: jump table says {got}, definition says {want}", hex(&code));
                }
            }
            for (variant, bc) in [("lazy", raw.clone()), ("eager", analysed.clone())] {
                for cond in [U256::ZERO, U256::from(1), U256::from(1) << 255usize] {
                    if jop == 0x56 && !cond.is_zero() {
                        continue;
                    }
                    let mut interp = interp_for(bc.clone(), 1000);
                    if jop == 0x57 {
                        interp.stack.push(cond).unwrap();
                    }
                    interp.stack.push(t).unwrap();
                    let action = interp.run(SharedMemory::new(), &table, &mut host);
                    let InterpreterAction::Return { result } = action else { return fail("C04|action", "unexpected action") };
                    let pc = interp.program_counter();
                    let taken = jop == 0x56 || !cond.is_zero();
                    let ctxs = || format!("{jname} [{variant}] code {} target {t} cond {cond}", hex(&code));
                    if !taken {
                        ensure!(result.result == InstructionResult::Stop && pc == 2, "C04|jumpi|not-taken", "{}: expected fall-through to pc 1, got {:?} pc {}", ctxs(), result.result, pc.wrapping_sub(1));
                    } else if want {
                        let tu = t.as_limbs()[0] as usize;
                        ensure!(
                            result.result == InstructionResult::Stop && pc == tu + 1,
                            format!("C04|{jname}|valid-target-rejected-or-misplaced"),
                            "{}: definition says valid, got {:?} with next pc {}",
                            ctxs(),
                            result.result,
                            pc.wrapping_sub(1)
                        );
                    } else {
                        ensure!(result.result == InstructionResult::InvalidJump, format!("C04|{jname}|invalid-target-accepted"), "{}: definition says invalid, got {:?} next pc {}", ctxs(), result.result, pc.wrapping_sub(1));
                    }
                    let want_gas = if jop == 0x56 { 8 } else { 10 };
                    ensure!(result.gas.spent() == want_gas, format!("C04|{jname}|gas"), "{}: gas {}", ctxs(), result.gas.spent());
                }
            }
        }
    }
    let mut o = Outcome::new(nontrivial);
    labels.dedup();
    for l in labels {
        if !o.labels.contains(&l) {
            o.labels.push(l);
        }
    }
    Ok(o)
}

fn jump_body() -> impl Strategy<Value = Vec<u8>> {
    let byte = prop_oneof![
        4 => Just(0x5bu8),
        4 => 0x60u8..=0x7f,
        1 => Just(0x7fu8),
        1 => Just(0x60u8),
        2 => any::<u8>(),
        1 => Just(0x00u8),
    ];
    prop_oneof![
        6 => prop::collection::vec(byte.clone(), 0..80),
        2 => prop::collection::vec(byte, 0..300),
        1 => prop::collection::vec(Just(0x5bu8), 0..70),
        // truncated trailing PUSHn with k bytes present
        2 => (prop::collection::vec(any::<u8>(), 0..20), 0x60u8..=0x7f, prop::collection::vec(Just(0x5bu8), 0..33)).prop_map(|(mut pre, p, data)| {
            pre.push(p);
            let n = (p - 0x5f) as usize;
            pre.extend(data.into_iter().take(n));
            pre
        }),
        1 => prop::collection::vec(prop_oneof![Just(0x7fu8), Just(0x5bu8)], 0..120),
    ]
}

pub fn c04(ctx: &mut Ctx) {
    let n = ctx.tier.pick(6_000, 600_000);
    let far = || prop::collection::vec(
        prop_oneof![
            Just(U256::from(1u64 << 16)),
            Just(U256::from(1u64 << 32)),
            Just(U256::from(u64::MAX)),
            Just(U256::from(1u128 << 64)),
            Just(U256::from(1) << 255usize),
            Just(U256::MAX),
            (0u64..400).prop_map(|k| U256::from(1u128 << 64) + U256::from(k)),
            (0u64..400).prop_map(|k| (U256::from(1) << 32usize) + U256::from(k)),
            word(),
        ],
        0..6,
    );
    let strat = || (jump_body(), far()).prop_map(|(body, far_targets)| JumpCase { body, far_targets });
    ctx.run_cases(
        "jumps",
        "generated code (JUMPDEST/PUSHn-biased bytes, 0x5b inside push data, truncated trailing PUSH, all-0x5b) x every target 0..len+40 plus far targets (2^16, 2^32, 2^64+k, 2^255, MAX) x JUMP/JUMPI(cond 0, 1, 2^255) x lazily/eagerly analysed code; oracle = independent linear scan; observed via JumpTable::is_valid and by executing the real JUMP/JUMPI with every other opcode replaced by a recorder; evaluations counts codes (each ~ (len+40)*8 executions); non-trivial = code with a 0x5b inside push data or a truncated trailing PUSH",
        strat,
        n,
        c04_case,
    );
    ctx.expect_labels("jumps", &["5b-in-push-data", "truncated-push"]);
}

// ------------------------------------------------------------------------------------------
// C05 (a)  opcode availability
// ------------------------------------------------------------------------------------------

/// Own activation table: first era in which the byte is a defined *legacy* instruction.
pub fn opcode_since(op: u8) -> Option<Era> {
    use Era::*;
    Some(match op {
        0x00..=0x0b => Frontier,
        0x10..=0x1a => Frontier,
        0x1b..=0x1d => Petersburg,
        0x20 => Frontier,
        0x30..=0x3c => Frontier,
        0x3d | 0x3e => Byzantium,
        0x3f => Petersburg,
        0x40..=0x45 => Frontier,
        0x46 | 0x47 => Istanbul,
        0x48 => London,
        0x49 | 0x4a => Cancun,
        0x50..=0x5b => Frontier,
        0x5c..=0x5e => Cancun,
        0x5f => Shanghai,
        0x60..=0xa4 => Frontier,
        0xf0..=0xf3 => Frontier,
        0xf4 => Homestead,
        0xf5 => Petersburg,
        0xfa => Byzantium,
        0xfd => Byzantium,
        0xfe => Frontier, // designated INVALID
        0xff => Frontier,
        _ => return None,
    })
}

#[derive(Clone, Debug, Hash, Serialize, Deserialize)]
pub struct OpSpecCase {
    pub op: u8,
    pub spec_index: u8,
}

fn c05a_case(c: &OpSpecCase) -> CaseResult {
    let specs = all_specs();
    let spec = specs[c.spec_index as usize];
    let e = era(spec);
    let mut code = vec![c.op];
    code.extend_from_slice(&[0u8; 40]);
    let mut interp = interp_for(Bytecode::new_legacy(Bytes::from(code)), 10_000_000);
    for i in 0..17u64 {
        // benign words: small memory offsets/lengths, a valid-looking address
        interp.stack.push(U256::from(1 + (i % 2))).unwrap();
    }
    let table = table_for(spec);
    let mut host = DummyHost::new(dummy_env());
    let action = interp.run(SharedMemory::new(), &table, &mut host);
    let res = match &action {
        InterpreterAction::Return { result } => result.result,
        InterpreterAction::Call { .. } | InterpreterAction::Create { .. } | InterpreterAction::EOFCreate { .. } => InstructionResult::CallOrCreate,
        InterpreterAction::None => InstructionResult::Continue,
    };
    // the result codes revm maps to HaltReason::OpcodeNotFound / NotActivated (0xee reports its own code in legacy code)
    let undefined = matches!(
        res,
        InstructionResult::OpcodeNotFound | InstructionResult::NotActivated | InstructionResult::EOFOpcodeDisabledInLegacy | InstructionResult::ReturnContractInNotInitEOF
    );
    let want_defined = opcode_since(c.op).map(|s| e >= s).unwrap_or(false);
    if c.op == 0xfe {
        ensure!(res == InstructionResult::InvalidFEOpcode, "C05|opcode|0xfe", "INVALID returned {res:?} in {spec:?}");
        return Ok(Outcome::nontrivial().label("designated-invalid"));
    }
    ensure!(
        undefined == !want_defined,
        if want_defined { format!("C05|opcode|defined-but-rejected|{:#04x}", c.op) } else { format!("C05|opcode|undefined-but-executes|{:#04x}", c.op) },
        "opcode {:#04x} in {spec:?}: own table says defined={want_defined}, interpreter returned {res:?}",
        c.op
    );
    if undefined {
        // halts the frame: the result is an error (all gas of the frame is consumed by the caller logic)
        ensure!(res.is_error(), "C05|opcode|undefined-not-error", "opcode {:#04x} in {spec:?}: {res:?} is not an error result", c.op);
    }
    Ok(Outcome::nontrivial().label(if want_defined { "defined" } else { "undefined" }))
}

pub fn c05_opcodes(ctx: &mut Ctx) {
    let specs = all_specs();
    let mut cases = vec![];
    for op in 0..=255u8 {
        for s in 0..specs.len() as u8 {
            cases.push(OpSpecCase { op, spec_index: s });
        }
    }
    ctx.run_exhaustive(
        "opcode-x-spec",
        "exhaustive: 256 opcode bytes x 21 SpecIds (incl. aliases and LATEST) executed as the first instruction of legacy code with 17 benign stack words, ample gas, DummyHost; oracle = own activation table (opcode -> introducing fork; EOF-only opcodes never valid in legacy code); undefined <=> OpcodeNotFound/NotActivated/EOFOpcodeDisabledInLegacy",
        cases,
        c05a_case,
    );
}
