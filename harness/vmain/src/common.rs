//! Strategies and helpers shared by the checks.
use num_bigint::BigUint;
use revm::primitives::{SpecId, U256};
use vcore::proptest::prelude::*;

pub fn big(u: U256) -> BigUint {
    BigUint::from_bytes_be(&u.to_be_bytes::<32>())
}

pub fn from_big(b: &BigUint) -> U256 {
    let bytes = b.to_bytes_be();
    assert!(bytes.len() <= 32, "value does not fit 256 bits");
    U256::from_be_slice(&bytes)
}

pub fn two_pow(k: u32) -> BigUint {
    BigUint::from(1u8) << k
}

/// The edge set E of DESIGN.md C03.
pub fn edge_words() -> Vec<U256> {
    let mut v: Vec<U256> = vec![U256::ZERO, U256::from(1), U256::from(2), U256::from(3), U256::MAX, U256::MAX - U256::from(1), U256::MAX - U256::from(2)];
    for k in [7usize, 8, 15, 16, 31, 32, 63, 64, 127, 128, 254, 255] {
        let p: U256 = U256::from(1) << k;
        v.push(p);
        v.push(p - U256::from(1));
        v.push(p.wrapping_add(U256::from(1)));
    }
    // negative small numbers and sign boundaries
    let min: U256 = U256::from(1) << 255usize;
    v.push(min.wrapping_add(U256::from(1)));
    v.push(min - U256::from(1));
    v.push(U256::from(32));
    v.push(U256::from(31));
    v.push(U256::from(30));
    v.push(U256::from(33));
    v.push(U256::from(256));
    v.push(U256::from(257));
    v.sort();
    v.dedup();
    v
}

/// Mixed 256-bit word strategy: edges, log-uniform, uniform.
pub fn word() -> impl Strategy<Value = U256> + Clone {
    let edges = edge_words();
    let n = edges.len();
    prop_oneof![
        3 => (0..n).prop_map(move |i| edges[i]),
        3 => (0u32..=256, any::<[u8; 32]>()).prop_map(|(bits, raw)| {
            if bits == 0 { return U256::ZERO; }
            let v = U256::from_be_bytes(raw);
            let v = v >> (256 - bits as usize);
            v | (U256::from(1) << (bits as usize - 1))
        }),
        2 => any::<[u8; 32]>().prop_map(U256::from_be_bytes),
        1 => (0u64..=300).prop_map(U256::from),
    ]
}

/// u64 with emphasis on edges and every magnitude.
pub fn u64_any() -> impl Strategy<Value = u64> + Clone {
    prop_oneof![
        2 => prop::sample::select(vec![0u64, 1, 2, 31, 32, 33, 63, 64, 65, 511, 512, 513, 2299, 2300, 2301, 24576, 49152, 49153,
            u32::MAX as u64 - 1, u32::MAX as u64, u32::MAX as u64 + 1, 1u64 << 33, (1u64 << 36) + 5, i64::MAX as u64, (i64::MAX as u64) + 1,
            u64::MAX - 63, u64::MAX - 32, u64::MAX - 31, u64::MAX - 30, u64::MAX - 1, u64::MAX]),
        3 => (0u32..=64, any::<u64>()).prop_map(|(bits, r)| if bits == 0 { 0 } else { (r >> (64 - bits)) | (1u64 << (bits - 1)) }),
        1 => any::<u64>(),
        1 => 0u64..2048,
    ]
}

pub const MAINNET_SPECS: [SpecId; 20] = [
    SpecId::FRONTIER,
    SpecId::FRONTIER_THAWING,
    SpecId::HOMESTEAD,
    SpecId::DAO_FORK,
    SpecId::TANGERINE,
    SpecId::SPURIOUS_DRAGON,
    SpecId::BYZANTIUM,
    SpecId::CONSTANTINOPLE,
    SpecId::PETERSBURG,
    SpecId::ISTANBUL,
    SpecId::MUIR_GLACIER,
    SpecId::BERLIN,
    SpecId::LONDON,
    SpecId::ARROW_GLACIER,
    SpecId::GRAY_GLACIER,
    SpecId::MERGE,
    SpecId::SHANGHAI,
    SpecId::CANCUN,
    SpecId::PRAGUE,
    SpecId::OSAKA,
];

/// Every spec incl. LATEST.
pub fn all_specs() -> Vec<SpecId> {
    let mut v = MAINNET_SPECS.to_vec();
    v.push(SpecId::LATEST);
    v
}

pub fn spec_idx() -> impl Strategy<Value = u8> + Clone {
    0u8..(MAINNET_SPECS.len() as u8)
}

pub fn spec_of(i: u8) -> SpecId {
    MAINNET_SPECS[i as usize % MAINNET_SPECS.len()]
}

/// Independent ordinal of a spec on the mainnet timeline (own table, not `is_enabled_in`).
#[derive(Clone, Copy, Debug, PartialEq, Eq, PartialOrd, Ord)]
pub enum Era {
    Frontier,
    Homestead,
    Tangerine,
    Spurious,
    Byzantium,
    Petersburg,
    Istanbul,
    Berlin,
    London,
    Merge,
    Shanghai,
    Cancun,
    Prague,
    Osaka,
}

pub fn era(spec: SpecId) -> Era {
    use SpecId::*;
    match spec {
        FRONTIER | FRONTIER_THAWING => Era::Frontier,
        HOMESTEAD | DAO_FORK => Era::Homestead,
        TANGERINE => Era::Tangerine,
        SPURIOUS_DRAGON => Era::Spurious,
        BYZANTIUM => Era::Byzantium,
        CONSTANTINOPLE | PETERSBURG => Era::Petersburg,
        ISTANBUL | MUIR_GLACIER => Era::Istanbul,
        BERLIN => Era::Berlin,
        LONDON | ARROW_GLACIER | GRAY_GLACIER => Era::London,
        MERGE => Era::Merge,
        SHANGHAI => Era::Shanghai,
        CANCUN => Era::Cancun,
        PRAGUE => Era::Prague,
        OSAKA | LATEST => Era::Osaka,
        #[cfg(feature = "optimism")]
        BEDROCK | REGOLITH => Era::Merge,
        #[cfg(feature = "optimism")]
        CANYON => Era::Shanghai,
        #[cfg(feature = "optimism")]
        ECOTONE | FJORD | GRANITE | HOLOCENE => Era::Cancun,
        #[cfg(feature = "optimism")]
        ISTHMUS => Era::Prague,
        #[allow(unreachable_patterns)]
        _ => Era::Osaka,
    }
}

pub fn hex(b: &[u8]) -> String {
    hex::encode(b)
}
