//! C06: stateful histories directly on `JournaledState` against a snapshot-based functional model.
use crate::common::{era, Era};
use crate::evmrun::*;
use refevm as r;
use revm::interpreter::{InstructionResult, SStoreResult, SelfDestructResult};
use revm::primitives::{Address, Bytecode, Bytes, HashSet as RHashSet, Log, LogData, SpecId, B256, KECCAK_EMPTY, U256};
use revm::{Database, JournalCheckpoint, JournaledState};
use serde::{Deserialize, Serialize};
use std::collections::BTreeMap;
use vcore::proptest::prelude::*;
use vcore::{ensure, CaseResult, Ctx, Failure, Outcome};

const N_ACC: u8 = 10;
const PRECOMPILE3: u8 = 6;

fn acc_addr(i: u8) -> r::Address {
    let i = i % N_ACC;
    if i == PRECOMPILE3 {
        let mut a = [0u8; 20];
        a[19] = 3;
        return a;
    }
    let mut a = [0u8; 20];
    a[0] = 0x7a;
    a[19] = i + 1;
    a
}

fn base_world() -> r::World {
    let mut w = r::World::new();
    let mk = |balance: r::U256, nonce: u64, code: Vec<u8>, st: &[(u64, u64)]| r::Account { balance, nonce, code, storage: st.iter().map(|(k, v)| (r::U256::from(*k), r::U256::from(*v))).collect() };
    w.insert(acc_addr(0), mk(r::U256::from(1_000_000u64), 3, vec![], &[]));
    w.insert(acc_addr(1), mk(r::U256::from(5u64), 0, vec![], &[]));
    w.insert(acc_addr(2), mk(r::U256::from(700u64), 1, vec![0x60, 0x00, 0x00], &[(0, 11), (1, 22)]));
    w.insert(acc_addr(3), mk(r::U256::zero(), 1, vec![0x00], &[(2, 33)]));
    // 4: not existing
    w.insert(acc_addr(5), mk(r::U256::zero(), 7, vec![], &[]));
    // 6: precompile 3 (not in the database)
    w.insert(acc_addr(7), mk(r::U256::MAX - r::U256::from(100u64), 0, vec![], &[]));
    w.insert(acc_addr(8), mk(r::U256::zero(), 0, vec![], &[(1, 9)])); // storage only
    w.insert(acc_addr(9), mk(r::U256::from(50u64), u64::MAX, vec![], &[]));
    w
}

#[derive(Clone, Debug, Hash, Serialize, Deserialize)]
pub enum JOp {
    Load(u8),
    LoadCode(u8),
    Sload(u8, u8),
    Sstore(u8, u8, u8),
    Tstore(u8, u8, u8),
    Tload(u8, u8),
    /// amount selector: 0 zero, 1 one, 2 half, 3 all, 4 all+1, 5 huge
    Transfer(u8, u8, u8),
    IncNonce(u8),
    SetCode(u8, u8),
    Touch(u8),
    Log(u8),
    Selfdestruct(u8, u8),
    Create(u8, u8, u8),
    Checkpoint,
    Commit,
    Revert,
}

#[derive(Clone, Debug, Hash, Serialize, Deserialize)]
pub struct JournalCase {
    pub spec: u8,
    pub ops: Vec<JOp>,
}

#[derive(Clone, Debug, PartialEq)]
struct MAcc {
    balance: U256,
    nonce: u64,
    code_hash: B256,
    touched: bool,
    created: bool,
    destroyed: bool,
    /// slot -> present value (all listed slots are warm)
    slots: BTreeMap<U256, U256>,
    /// original (transaction start) values of loaded slots
    orig: BTreeMap<U256, U256>,
    /// storage answers come from the database (false once created in this tx)
    db_backed: bool,
    existed: bool,
}

#[derive(Clone, Debug, PartialEq)]
struct Model {
    accts: BTreeMap<Address, MAcc>,
    transient: BTreeMap<(Address, U256), U256>,
    logs: usize,
    depth: u64,
}

struct Sim {
    spec: SpecId,
    js: JournaledState,
    db: ModelDB,
    m: Model,
    preloaded: Vec<Address>,
    stack: Vec<(JournalCheckpoint, Model)>,
    entry_kinds_in_top: Vec<std::collections::BTreeSet<&'static str>>,
    labels: std::collections::BTreeSet<&'static str>,
    nontrivial: bool,
}

fn key(k: u8) -> U256 {
    U256::from((k % 4) as u64)
}

fn fail1(sig: &str, msg: String) -> Vec<Failure> {
    vec![Failure::new(sig, msg)]
}

impl Sim {
    fn db_acc(&self, a: &Address) -> Option<&r::Account> {
        self.db.world.get(&pa(a))
    }
    fn db_slot(&self, a: &Address, k: U256) -> U256 {
        self.db_acc(a).and_then(|x| x.storage.get(&pu(k))).map(|v| ru(*v)).unwrap_or_default()
    }
    fn kind(&mut self, k: &'static str) {
        if let Some(t) = self.entry_kinds_in_top.last_mut() {
            t.insert(k);
        }
    }

    /// load on both sides; returns an error on disagreement about cold/warm
    fn load(&mut self, a: Address) -> Result<(), Vec<Failure>> {
        let was_known = self.m.accts.contains_key(&a);
        let got = self.js.load_account(a, &mut self.db).map_err(|e| fail1("C06|harness|db", format!("{e:?}")))?;
        let is_cold = got.is_cold;
        let want_cold = !was_known && !self.preloaded.contains(&a);
        if !was_known {
            let d = self.db_acc(&a);
            let macc = MAcc {
                balance: d.map(|x| ru(x.balance)).unwrap_or_default(),
                nonce: d.map(|x| x.nonce).unwrap_or(0),
                code_hash: d.map(|x| code_hash(&x.code)).unwrap_or(KECCAK_EMPTY),
                touched: false,
                created: false,
                destroyed: false,
                slots: BTreeMap::new(),
                orig: BTreeMap::new(),
                db_backed: true,
                existed: d.is_some(),
            };
            // a precompile-3 touch that survived an earlier revert stays visible
            let mut macc = macc;
            if let Some(acc) = self.js.state.get(&a) {
                if acc.is_touched() {
                    macc.touched = true;
                }
            }
            self.m.accts.insert(a, macc);
            self.kind("warm");
        }
        ensure!(is_cold == want_cold, "C06|load_account|cold-flag", "load_account({a}) returned is_cold={is_cold}, expected {want_cold} (known to the model: {was_known})");
        Ok(())
    }

    fn compare(&self, step: usize, op: &JOp) -> Result<(), Vec<Failure>> {
        let spurious = era(self.spec) >= Era::Spurious;
        let p3 = ra(&acc_addr(PRECOMPILE3));
        let ctx = |what: String| format!("after step {step} {op:?}: {what}");
        ensure!(self.js.depth() == self.m.depth, "C06|depth", "{}", ctx(format!("journal depth {} expected {}", self.js.depth(), self.m.depth)));
        ensure!(self.js.logs.len() == self.m.logs, "C06|logs", "{}", ctx(format!("{} logs expected {}", self.js.logs.len(), self.m.logs)));
        let tr: BTreeMap<(Address, U256), U256> = self.js.transient_storage.iter().map(|(k, v)| (*k, *v)).collect();
        let mtr: BTreeMap<(Address, U256), U256> = self.m.transient.iter().filter(|(_, v)| !v.is_zero()).map(|(k, v)| (*k, *v)).collect();
        ensure!(tr == mtr, "C06|transient-storage", "{}", ctx(format!("transient storage {tr:?} expected {mtr:?}")));
        for (a, m) in &self.m.accts {
            let Some(acc) = self.js.state.get(a) else { return Err(fail1("C06|account-missing", ctx(format!("account {a} known to the model is not in the journaled state")))) };
            ensure!(acc.info.balance == m.balance, "C06|balance", "{}", ctx(format!("balance of {a}: {} expected {}", acc.info.balance, m.balance)));
            ensure!(acc.info.nonce == m.nonce, "C06|nonce", "{}", ctx(format!("nonce of {a}: {} expected {}", acc.info.nonce, m.nonce)));
            ensure!(acc.info.code_hash == m.code_hash, "C06|code", "{}", ctx(format!("code hash of {a}: {} expected {}", acc.info.code_hash, m.code_hash)));
            ensure!(acc.is_touched() == m.touched, "C06|touched-flag", "{}", ctx(format!("touched flag of {a}: {} expected {}", acc.is_touched(), m.touched)));
            ensure!(acc.is_created() == m.created, "C06|created-flag", "{}", ctx(format!("created flag of {a}: {} expected {}", acc.is_created(), m.created)));
            ensure!(acc.is_selfdestructed() == m.destroyed, "C06|selfdestructed-flag", "{}", ctx(format!("selfdestructed flag of {a}: {} expected {}", acc.is_selfdestructed(), m.destroyed)));
            ensure!(!acc.status.contains(revm::primitives::AccountStatus::Cold), "C06|warm-flag", "{}", ctx(format!("{a} is warm in the model but cold in the journaled state")));
            for (k, v) in &m.slots {
                let Some(s) = acc.storage.get(k) else { return Err(fail1("C06|slot-missing", ctx(format!("slot {k} of {a} missing")))) };
                ensure!(s.present_value == *v, "C06|storage-value", "{}", ctx(format!("slot {k} of {a}: {} expected {v}", s.present_value)));
                ensure!(!s.is_cold, "C06|slot-warm-flag", "{}", ctx(format!("slot {k} of {a} is warm in the model but cold in the journaled state")));
            }
            for (k, s) in &acc.storage {
                if !m.slots.contains_key(k) {
                    ensure!(s.is_cold, "C06|slot-not-cold-after-revert", "{}", ctx(format!("slot {k} of {a}, unknown to the model (loaded in a reverted frame), is warm")));
                    let want = if m.db_backed { self.db_slot(a, *k) } else { U256::ZERO };
                    ensure!(s.present_value == want, "C06|storage-value-after-revert", "{}", ctx(format!("slot {k} of {a}, loaded in a reverted frame, holds {} instead of {want}", s.present_value)));
                }
            }
        }
        for (a, acc) in &self.js.state {
            if self.m.accts.contains_key(a) {
                continue;
            }
            // loaded inside a reverted frame: must look untouched and carry database values
            let d = self.db_acc(a);
            let want_bal = d.map(|x| ru(x.balance)).unwrap_or_default();
            let want_nonce = d.map(|x| x.nonce).unwrap_or(0);
            let want_hash = d.map(|x| code_hash(&x.code)).unwrap_or(KECCAK_EMPTY);
            ensure!(acc.info.balance == want_bal && acc.info.nonce == want_nonce && acc.info.code_hash == want_hash, "C06|account-not-restored", "{}", ctx(format!("{a} (loaded in a reverted frame) has balance {} nonce {} instead of the database's {want_bal}/{want_nonce}", acc.info.balance, acc.info.nonce)));
            ensure!(!acc.is_created() && !acc.is_selfdestructed(), "C06|flags-not-restored", "{}", ctx(format!("{a} (loaded in a reverted frame) is created/selfdestructed")));
            if !(spurious && *a == p3) {
                ensure!(!acc.is_touched(), "C06|touched-not-restored", "{}", ctx(format!("{a} (loaded in a reverted frame) is still touched")));
            }
            let cold = acc.status.contains(revm::primitives::AccountStatus::Cold);
            ensure!(cold || self.preloaded.contains(a), "C06|account-not-cold-after-revert", "{}", ctx(format!("{a} (loaded in a reverted frame) is still warm")));
            for (k, s) in &acc.storage {
                ensure!(s.is_cold && s.present_value == self.db_slot(a, *k), "C06|slot-not-restored", "{}", ctx(format!("slot {k} of {a} (loaded in a reverted frame): cold={} value {}", s.is_cold, s.present_value)));
            }
        }
        Ok(())
    }

    fn do_revert(&mut self) {
        let (cp, snap) = self.stack.pop().unwrap();
        let kinds = self.entry_kinds_in_top.pop().unwrap_or_default();
        if kinds.len() >= 2 {
            self.nontrivial = true;
        }
        for k in kinds {
            self.labels.insert(match k {
                "transfer" => "revert-of:transfer",
                "selfdestruct" => "revert-of:selfdestruct",
                "create" => "revert-of:create",
                "sstore" => "revert-of:sstore",
                "commit-inner" => "revert-of:committed-inner-frame",
                _ => "revert-of:other",
            });
        }
        let spurious = era(self.spec) >= Era::Spurious;
        let p3 = ra(&acc_addr(PRECOMPILE3));
        let p3_touched = self.m.accts.get(&p3).map(|a| a.touched).unwrap_or(false);
        self.js.checkpoint_revert(cp);
        self.m = snap;
        if spurious && p3_touched {
            if let Some(a) = self.m.accts.get_mut(&p3) {
                a.touched = true;
            }
        }
    }

    fn step(&mut self, i: usize, op: &JOp) -> Result<(), Vec<Failure>> {
        let spec = self.spec;
        let cancun = era(spec) >= Era::Cancun;
        let spurious = era(spec) >= Era::Spurious;
        match op {
            JOp::Load(a) => self.load(ra(&acc_addr(*a)))?,
            JOp::LoadCode(a) => {
                let a = ra(&acc_addr(*a));
                self.load(a)?;
                let l = self.js.load_code(a, &mut self.db).map_err(|e| fail1("C06|harness|db", format!("{e:?}")))?;
                let got = l.data.info.code.as_ref().map(|c| c.original_bytes().to_vec());
                let m = &self.m.accts[&a];
                if m.code_hash == KECCAK_EMPTY {
                    ensure!(got.as_ref().map(|c| c.is_empty()).unwrap_or(false), "C06|load_code", "step {i}: code of {a} should be empty");
                }
            }
            JOp::Sload(a, k) => {
                let a = ra(&acc_addr(*a));
                self.load(a)?;
                let k = key(*k);
                let got = self.js.sload(a, k, &mut self.db).map_err(|e| fail1("C06|harness|db", format!("{e:?}")))?;
                let dbv = self.db_slot(&a, k);
                let m = self.m.accts.get_mut(&a).unwrap();
                let known = m.slots.contains_key(&k);
                let want = if known { m.slots[&k] } else if m.db_backed { dbv } else { U256::ZERO };
                if !known {
                    m.slots.insert(k, want);
                    m.orig.entry(k).or_insert(want);
                }
                ensure!(got.data == want, "C06|sload|value", "step {i}: sload({a},{k}) = {} expected {want}", got.data);
                ensure!(got.is_cold == !known, "C06|sload|cold-flag", "step {i}: sload({a},{k}) is_cold={} expected {}", got.is_cold, !known);
            }
            JOp::Sstore(a, k, v) => {
                let a = ra(&acc_addr(*a));
                self.load(a)?;
                let k = key(*k);
                let v = U256::from((*v % 4) as u64);
                let got = self.js.sstore(a, k, v, &mut self.db).map_err(|e| fail1("C06|harness|db", format!("{e:?}")))?;
                let dbv = self.db_slot(&a, k);
                let m = self.m.accts.get_mut(&a).unwrap();
                let known = m.slots.contains_key(&k);
                let present = if known { m.slots[&k] } else if m.db_backed { dbv } else { U256::ZERO };
                let orig = *m.orig.entry(k).or_insert(present);
                m.slots.insert(k, v);
                let want = SStoreResult { original_value: orig, present_value: present, new_value: v };
                ensure!(got.data == want, "C06|sstore|result", "step {i}: sstore({a},{k},{v}) returned {:?} expected {want:?}", got.data);
                ensure!(got.is_cold == !known, "C06|sstore|cold-flag", "step {i}: sstore is_cold={} expected {}", got.is_cold, !known);
                self.kind("sstore");
            }
            JOp::Tstore(a, k, v) => {
                let a = ra(&acc_addr(*a));
                let (k, v) = (key(*k), U256::from((*v % 3) as u64));
                self.js.tstore(a, k, v);
                self.m.transient.insert((a, k), v);
                self.kind("tstore");
            }
            JOp::Tload(a, k) => {
                let a = ra(&acc_addr(*a));
                let k = key(*k);
                let got = self.js.tload(a, k);
                let want = self.m.transient.get(&(a, k)).copied().unwrap_or_default();
                ensure!(got == want, "C06|tload", "step {i}: tload({a},{k}) = {got} expected {want}");
            }
            JOp::Transfer(f, t, sel) => {
                if self.stack.is_empty() {
                    return Ok(()); // value transfers only happen inside a frame's checkpoint
                }
                let (f, t) = (ra(&acc_addr(*f)), ra(&acc_addr(*t)));
                self.load(f)?;
                self.load(t)?;
                let fb = self.m.accts[&f].balance;
                let amount = match sel % 6 {
                    0 => U256::ZERO,
                    1 => U256::from(1),
                    2 => fb / U256::from(2),
                    3 => fb,
                    4 => fb.saturating_add(U256::from(1)),
                    _ => U256::MAX,
                };
                let got = self.js.transfer(&f, &t, amount, &mut self.db).map_err(|e| fail1("C06|harness|db", format!("{e:?}")))?;
                let tb = self.m.accts[&t].balance;
                let want = if fb < amount {
                    Some(InstructionResult::OutOfFunds)
                } else if f != t && tb.checked_add(amount).is_none() {
                    Some(InstructionResult::OverflowPayment)
                } else {
                    None
                };
                ensure!(got == want, "C06|transfer|verdict", "step {i}: transfer({f},{t},{amount}) returned {got:?} expected {want:?}");
                match want {
                    None => {
                        self.m.accts.get_mut(&f).unwrap().balance -= amount;
                        self.m.accts.get_mut(&t).unwrap().balance += amount;
                        self.m.accts.get_mut(&f).unwrap().touched = true;
                        self.m.accts.get_mut(&t).unwrap().touched = true;
                        self.kind("transfer");
                    }
                    Some(r) => {
                        // the caller (make_call_frame) reverts the frame's checkpoint right away
                        self.labels.insert(if r == InstructionResult::OutOfFunds { "failed-transfer:funds" } else { "failed-transfer:overflow" });
                        self.kind("transfer");
                        // the frame touched the parties before failing (relevant only for the
                        // precompile-3 exception, everything else is undone by the revert)
                        self.m.accts.get_mut(&f).unwrap().touched = true;
                        if r == InstructionResult::OverflowPayment {
                            self.m.accts.get_mut(&t).unwrap().touched = true;
                        }
                        self.do_revert();
                    }
                }
            }
            JOp::IncNonce(a) => {
                let a = ra(&acc_addr(*a));
                self.load(a)?;
                let got = self.js.inc_nonce(a);
                let m = self.m.accts.get_mut(&a).unwrap();
                let want = if m.nonce == u64::MAX { None } else { Some(m.nonce + 1) };
                ensure!(got == want, "C06|inc_nonce", "step {i}: inc_nonce({a}) = {got:?} expected {want:?}");
                if let Some(n) = want {
                    m.nonce = n;
                    m.touched = true;
                    self.kind("nonce");
                } else {
                    self.labels.insert("nonce-overflow");
                }
            }
            JOp::SetCode(a, c) => {
                let a = ra(&acc_addr(*a));
                self.load(a)?;
                // callers only set code on accounts whose code is empty (a finished creation);
                // the journal entry documents that it restores "no code"
                if self.m.accts[&a].code_hash != KECCAK_EMPTY {
                    return Ok(());
                }
                let code = vec![0x60, *c, 0x00];
                let bc = Bytecode::new_legacy(Bytes::from(code.clone()));
                self.js.set_code(a, bc);
                let m = self.m.accts.get_mut(&a).unwrap();
                m.code_hash = code_hash(&code);
                m.touched = true;
                self.kind("code");
            }
            JOp::Touch(a) => {
                let a = ra(&acc_addr(*a));
                self.load(a)?;
                self.js.touch(&a);
                self.m.accts.get_mut(&a).unwrap().touched = true;
                self.kind("touch");
            }
            JOp::Log(x) => {
                self.js.log(Log { address: ra(&acc_addr(0)), data: LogData::new_unchecked(vec![], Bytes::from(vec![*x])) });
                self.m.logs += 1;
                self.kind("log");
            }
            JOp::Selfdestruct(a, t) => {
                let (a, t) = (ra(&acc_addr(*a)), ra(&acc_addr(*t)));
                self.load(a)?;
                let t_known = self.m.accts.contains_key(&t);
                let ab = self.m.accts[&a].balance;
                // the beneficiary credit has no defined overflow behaviour: stay inside 2^256
                let tb_now = if t_known { self.m.accts[&t].balance } else { self.db_acc(&t).map(|x| ru(x.balance)).unwrap_or_default() };
                if a != t && tb_now.checked_add(ab).is_none() {
                    return Ok(());
                }
                let got = self.js.selfdestruct(a, t, &mut self.db).map_err(|e| fail1("C06|harness|db", format!("{e:?}")))?;
                if !t_known {
                    // loaded by the operation itself
                    let d = self.db_acc(&t);
                    let mut macc = MAcc { balance: d.map(|x| ru(x.balance)).unwrap_or_default(), nonce: d.map(|x| x.nonce).unwrap_or(0), code_hash: d.map(|x| code_hash(&x.code)).unwrap_or(KECCAK_EMPTY), touched: false, created: false, destroyed: false, slots: BTreeMap::new(), orig: BTreeMap::new(), db_backed: true, existed: d.is_some() };
                    if let Some(acc) = self.js.state.get(&t) {
                        // touched flag that survived a revert (precompile 3)
                        if t == ra(&acc_addr(PRECOMPILE3)) && spurious && acc.is_touched() && a == t {
                            macc.touched = true;
                        }
                    }
                    self.m.accts.insert(t, macc);
                }
                let want_cold = !t_known && !self.preloaded.contains(&t);
                let tm = self.m.accts[&t].clone();
                let t_empty = if spurious { tm.balance.is_zero() && tm.nonce == 0 && tm.code_hash == KECCAK_EMPTY } else { !tm.existed && !tm.touched };
                let prev = self.m.accts[&a].destroyed;
                let want = SelfDestructResult { had_value: !ab.is_zero(), target_exists: !t_empty, previously_destroyed: prev };
                ensure!(got.data == want, "C06|selfdestruct|result", "step {i}: selfdestruct({a},{t}) returned {:?} expected {want:?}", got.data);
                ensure!(got.is_cold == want_cold, "C06|selfdestruct|cold-flag", "step {i}: selfdestruct target is_cold={} expected {want_cold}", got.is_cold);
                if a != t {
                    let tmut = self.m.accts.get_mut(&t).unwrap();
                    tmut.balance += ab;
                    tmut.touched = true;
                }
                let am = self.m.accts.get_mut(&a).unwrap();
                if am.created || !cancun {
                    am.destroyed = true;
                    am.balance = U256::ZERO;
                } else if a != t {
                    am.balance = U256::ZERO;
                }
                self.kind("selfdestruct");
            }
            JOp::Create(c, t, v) => {
                let (c, t) = (ra(&acc_addr(*c)), ra(&acc_addr(*t)));
                if c == t {
                    return Ok(());
                }
                self.load(c)?;
                self.load(t)?;
                // an address whose creation is still open cannot be derived a second time
                // (nonce-based addresses differ; CREATE2 arrives after EIP-161 sets nonce 1)
                if self.m.accts[&t].created && era(spec) < Era::Spurious {
                    return Ok(());
                }
                let cb = self.m.accts[&c].balance;
                let value = match v % 4 {
                    0 => U256::ZERO,
                    1 => U256::from(1),
                    2 => cb,
                    _ => cb / U256::from(2),
                };
                if cb < value {
                    return Ok(()); // create_inner checks the creator's balance before this call
                }
                let has_storage = self.db.has_storage(t).unwrap() && self.m.accts[&t].db_backed;
                let got = self.js.create_account_checkpoint(c, t, has_storage, value, spec);
                let tm = self.m.accts[&t].clone();
                let collision = tm.code_hash != KECCAK_EMPTY || tm.nonce != 0 || has_storage;
                let overflow = tm.balance.checked_add(value).is_none();
                match (&got, collision, overflow) {
                    (Err(InstructionResult::CreateCollision), true, _) => {
                        self.labels.insert("create-collision");
                    }
                    (Err(InstructionResult::OverflowPayment), false, true) => {
                        self.labels.insert("create-endowment-overflow");
                        if spurious && t == ra(&acc_addr(PRECOMPILE3)) {
                            self.m.accts.get_mut(&t).unwrap().touched = true; // EIP-161 erratum
                        }
                    }
                    (Ok(cp), false, false) => {
                        let snap = self.m.clone();
                        self.stack.push((*cp, snap));
                        self.entry_kinds_in_top.push(Default::default());
                        self.m.depth += 1;
                        let tmut = self.m.accts.get_mut(&t).unwrap();
                        tmut.created = true;
                        tmut.touched = true;
                        tmut.db_backed = false;
                        tmut.balance += value;
                        if spurious {
                            tmut.nonce = 1;
                        }
                        let cm = self.m.accts.get_mut(&c).unwrap();
                        cm.balance -= value;
                        self.kind("create");
                        if !value.is_zero() {
                            self.kind("transfer");
                        }
                    }
                    _ => return Err(fail1("C06|create_account_checkpoint|verdict", format!("step {i}: create_account_checkpoint({c},{t},{has_storage},{value}) returned {:?}; model: collision={collision} overflow={overflow}", got.as_ref().map(|_| "Ok")))),
                }
            }
            JOp::Checkpoint => {
                if self.stack.len() >= 12 {
                    return Ok(());
                }
                let snap = self.m.clone();
                let cp = self.js.checkpoint();
                self.stack.push((cp, snap));
                self.entry_kinds_in_top.push(Default::default());
                self.m.depth += 1;
            }
            JOp::Commit => {
                if self.stack.is_empty() {
                    return Ok(());
                }
                self.js.checkpoint_commit();
                self.stack.pop();
                let inner = self.entry_kinds_in_top.pop().unwrap_or_default();
                if let Some(t) = self.entry_kinds_in_top.last_mut() {
                    if !inner.is_empty() {
                        t.insert("commit-inner");
                    }
                    t.extend(inner);
                }
                self.m.depth -= 1;
            }
            JOp::Revert => {
                if self.stack.is_empty() {
                    return Ok(());
                }
                self.do_revert();
            }
        }
        Ok(())
    }
}

pub fn c06_case(c: &JournalCase) -> CaseResult {
    let spec = [SpecId::FRONTIER, SpecId::SPURIOUS_DRAGON, SpecId::LONDON, SpecId::CANCUN, SpecId::PRAGUE][c.spec as usize % 5];
    let preloaded = vec![ra(&acc_addr(PRECOMPILE3)), ra(&acc_addr(1))];
    let mut set = RHashSet::default();
    for a in &preloaded {
        set.insert(*a);
    }
    let mut sim = Sim {
        spec,
        js: JournaledState::new(spec, set),
        db: ModelDB::new(base_world()),
        m: Model { accts: BTreeMap::new(), transient: BTreeMap::new(), logs: 0, depth: 0 },
        preloaded,
        stack: vec![],
        entry_kinds_in_top: vec![],
        labels: Default::default(),
        nontrivial: false,
    };
    for (i, op) in c.ops.iter().enumerate() {
        sim.step(i, op)?;
        sim.compare(i, op)?;
    }
    let mut o = Outcome::new(sim.nontrivial);
    for l in sim.labels {
        o.labels.push(l);
    }
    Ok(o)
}

fn jop() -> impl Strategy<Value = JOp> {
    let a = || 0u8..N_ACC;
    prop_oneof![
        2 => a().prop_map(JOp::Load),
        1 => a().prop_map(JOp::LoadCode),
        3 => (a(), 0u8..4).prop_map(|(x, k)| JOp::Sload(x, k)),
        4 => (a(), 0u8..4, 0u8..4).prop_map(|(x, k, v)| JOp::Sstore(x, k, v)),
        2 => (a(), 0u8..4, 0u8..3).prop_map(|(x, k, v)| JOp::Tstore(x, k, v)),
        1 => (a(), 0u8..4).prop_map(|(x, k)| JOp::Tload(x, k)),
        5 => (a(), a(), 0u8..6).prop_map(|(f, t, s)| JOp::Transfer(f, t, s)),
        2 => a().prop_map(JOp::IncNonce),
        1 => (a(), any::<u8>()).prop_map(|(x, c)| JOp::SetCode(x, c)),
        1 => a().prop_map(JOp::Touch),
        1 => any::<u8>().prop_map(JOp::Log),
        3 => (a(), a()).prop_map(|(x, t)| JOp::Selfdestruct(x, t)),
        3 => (a(), a(), 0u8..4).prop_map(|(c, t, v)| JOp::Create(c, t, v)),
        5 => Just(JOp::Checkpoint),
        3 => Just(JOp::Commit),
        4 => Just(JOp::Revert),
    ]
}

pub fn journal_strategy() -> BoxedStrategy<JournalCase> {
    (0u8..5, prop::collection::vec(jop(), 1..45)).prop_map(|(spec, ops)| JournalCase { spec, ops }).boxed()
}

pub fn c06(ctx: &mut Ctx) {
    let n = ctx.tier.pick(150_000, 5_000_000);
    ctx.run_cases(
        "journal-model",
        "stateful histories (<= 45 ops: load_account, load_code, sload, sstore, tstore/tload, transfer incl. > balance and overflowing a 2^256-100 receiver, inc_nonce incl. at 2^64-1, set_code, touch, log, selfdestruct to self/other/non-existent, create_account_checkpoint incl. collisions by code/nonce/storage and endowment overflow, nested checkpoint/commit/revert innermost-first) run on the real JournaledState over a plain database and on a snapshot-based functional model (checkpoint = deep copy, revert = restore); after EVERY op: balances, nonces, code hashes, touched/created/selfdestructed flags, warm/cold of accounts and slots, slot values, transient storage, log count and depth are compared; accounts/slots first loaded inside a reverted frame must be cold, untouched and hold database values; specs FRONTIER, SPURIOUS_DRAGON, LONDON, CANCUN, PRAGUE; non-trivial = a revert of a frame containing >= 2 different kinds of changes",
        journal_strategy,
        n,
        c06_case,
    );
    ctx.expect_labels("journal-model", &["revert-of:transfer", "revert-of:selfdestruct", "revert-of:create", "revert-of:sstore", "revert-of:committed-inner-frame", "failed-transfer:funds", "failed-transfer:overflow", "create-collision", "create-endowment-overflow", "nonce-overflow"]);
    ctx.assumptions.push("preconditions taken from the callers in evm_context.rs: accounts are loaded before use, value transfers happen inside a frame checkpoint and a failed transfer is followed by the revert of that checkpoint, the creator's balance covers the endowment, the database's has_storage is truthful; the SELFDESTRUCT beneficiary credit is kept below 2^256 (no defined overflow behaviour)".into());
    ctx.assumptions.push("documented exceptions encoded in the oracle: transaction-level pre-warmed addresses stay warm; the touched flag of precompile 0x03 survives a revert from Spurious Dragon (EIP-161 erratum)".into());
}
