//! One recording/monitoring inspector serving C07, C08/C09 (flows), C10, C11(b), C25, C29, C30.
//! Every expectation is derived from what the callbacks *observe* (interpreter/journal state),
//! never from the code path being judged.
use crate::evmrun::*;
use refevm as r;
use revm::inspector_handle_register;
use revm::interpreter::{CallInputs, CallOutcome, CallValue, CreateInputs, CreateOutcome, EOFCreateInputs, InstructionResult, Interpreter};
use revm::primitives::{Address, Env, Log, ResultAndState, SpecId, B256, U256};
use revm::{Database, Evm, EvmContext, Inspector};
use std::collections::{BTreeMap, BTreeSet};
use vcore::Failure;

#[derive(Clone, Debug, PartialEq)]
pub enum Ev {
    Call { depth: u64, inputs: Box<CallInputs> },
    CallEnd { depth: u64, inputs: Box<CallInputs>, result: InstructionResult, had_interp: bool },
    Create { depth: u64, inputs: Box<CreateInputs> },
    CreateEnd { depth: u64, inputs: Box<CreateInputs>, result: InstructionResult, address: Option<Address>, had_interp: bool },
    EofCreate { depth: u64, inputs: Box<EOFCreateInputs> },
    EofCreateEnd { depth: u64, inputs: Box<EOFCreateInputs>, result: InstructionResult, address: Option<Address>, had_interp: bool },
    InitInterp { depth: u64 },
    /// recorded for LOGn / SELFDESTRUCT always
    Step { op: u8, addr: Address, top: Vec<U256>, balance: U256, is_static: bool },
    StepEnd { op: u8, result: InstructionResult, last_log: Option<Log> },
    Log { log: Log },
    Selfdestruct { contract: Address, target: Address, value: U256 },
}

#[derive(Clone, Debug, Default)]
pub struct RecCfg {
    /// scripted overrides for C29: the k-th call/create notification returns an outcome directly
    pub override_calls: BTreeSet<u32>,
    pub mem: bool,
    pub statics: bool,
    pub safety: bool,
}

#[derive(Clone, Debug)]
struct Snap {
    accounts: BTreeMap<Address, (U256, u64, B256, bool, bool, BTreeMap<U256, U256>)>,
    transient: BTreeMap<(Address, U256), U256>,
    logs: usize,
}

#[derive(Clone, Debug, PartialEq)]
enum Open {
    Call(CallInputs),
    Create(CreateInputs),
    Eof(EOFCreateInputs),
}

struct FrameLive {
    inputs: Open,
    kind: u8, // 0 call, 1 create, 2 eofcreate
    depth: u64,
    had_interp: bool,
    in_step: bool,
    is_static: bool,
    static_snap: Option<Snap>,
    // memory monitor
    steps_in_frame: u64,
    last_mem_len: usize,
    pending_parent_mem: Option<(Vec<u8>, usize, usize)>, // snapshot at the CALL's step_end + out window
    pending_op: Option<(u8, u64, usize)>,                  // (op, gas before, mem len before) for gas checks
}

pub struct Recorder {
    pub cfg: RecCfg,
    pub events: Vec<Ev>,
    pub fails: Vec<Failure>,
    pub steps: u64,
    pub step_ends: u64,
    pub max_depth: u64,
    pub ops: [u32; 256],
    pub flow_addrs: BTreeSet<Address>,
    pub created: BTreeSet<Address>,
    /// (address, balance at the time) of completed SELFDESTRUCTs naming themselves, per live frame
    burn_stack: Vec<Vec<(Address, U256)>>,
    pub self_burns: Vec<(Address, U256)>,
    pub static_write_attempts: u32,
    pub static_write_depth2: u32,
    pub static_frames: u32,
    pub truncated: bool,
    frames: Vec<FrameLive>,
    n_notifications: u32,
    pending_sd: Option<(Address, Address, U256)>,
    pending_static_write: bool,
    pub mem_nested_growth: bool,
    pub overridden: u32,
}

impl Recorder {
    pub fn new(cfg: RecCfg) -> Self {
        Recorder {
            cfg,
            events: vec![],
            fails: vec![],
            steps: 0,
            step_ends: 0,
            max_depth: 0,
            ops: [0; 256],
            flow_addrs: BTreeSet::new(),
            created: BTreeSet::new(),
            burn_stack: vec![vec![]],
            self_burns: vec![],
            static_write_attempts: 0,
            static_write_depth2: 0,
            static_frames: 0,
            truncated: false,
            frames: vec![],
            n_notifications: 0,
            pending_sd: None,
            pending_static_write: false,
            mem_nested_growth: false,
            overridden: 0,
        }
    }
    fn fail(&mut self, sig: &str, msg: String) {
        if self.fails.len() < 8 {
            self.fails.push(Failure::new(sig, msg));
        }
    }
    fn push(&mut self, e: Ev) {
        if self.events.len() < 100_000 {
            self.events.push(e);
        } else {
            self.truncated = true;
        }
    }
    fn snap<DB: Database>(ctx: &EvmContext<DB>) -> Snap {
        let mut accounts = BTreeMap::new();
        for (a, acc) in ctx.journaled_state.state.iter() {
            let st: BTreeMap<U256, U256> = acc.storage.iter().map(|(k, v)| (*k, v.present_value)).collect();
            accounts.insert(*a, (acc.info.balance, acc.info.nonce, acc.info.code_hash, acc.is_created(), acc.is_selfdestructed(), st));
        }
        let transient = ctx.journaled_state.transient_storage.iter().map(|(k, v)| (*k, *v)).collect();
        Snap { accounts, transient, logs: ctx.journaled_state.logs.len() }
    }
    fn begin(&mut self, inputs: Open, depth: u64, is_static: bool, snap: Option<Snap>) {
        self.max_depth = self.max_depth.max(depth);
        let kind = match inputs {
            Open::Call(_) => 0,
            Open::Create(_) => 1,
            Open::Eof(_) => 2,
        };
        self.frames.push(FrameLive { inputs, kind, depth, had_interp: false, in_step: false, is_static, static_snap: snap, steps_in_frame: 0, last_mem_len: 0, pending_parent_mem: None, pending_op: None });
        self.burn_stack.push(vec![]);
    }
    fn end<DB: Database>(&mut self, inputs: Open, ctx: &EvmContext<DB>, ok: bool, what: &str) -> bool {
        let kind = match inputs {
            Open::Call(_) => 0,
            Open::Create(_) => 1,
            Open::Eof(_) => 2,
        };
        let depth = ctx.journaled_state.depth() as u64;
        let burns = self.burn_stack.pop().unwrap_or_default();
        if ok {
            if let Some(p) = self.burn_stack.last_mut() {
                p.extend(burns);
            }
        }
        let Some(f) = self.frames.pop() else {
            self.fail("C29|end-without-start", format!("{what}_end without a matching start"));
            return false;
        };
        if f.kind != kind {
            self.fail("C29|end-kind-mismatch", format!("{what}_end closes a notification of another kind ({})", f.kind));
        } else if f.inputs != inputs {
            self.fail("C29|end-inputs-differ", format!("{what}_end carries inputs different from those of the matching {what} notification"));
        }
        if f.depth != depth {
            self.fail("C07|depth-not-restored", format!("journal depth {} at {what}_end, was {} at the matching start", depth, f.depth));
        }
        if f.in_step {
            // the frame ended while a step was open without step_end — only legal when the
            // inspector itself stopped the step (we never do)
            self.fail("C29|step-without-step_end", format!("frame closed by {what}_end with an open step"));
        }
        if let Some(snap) = f.static_snap {
            self.check_static(ctx, &snap);
        }
        f.had_interp
    }
    fn check_static<DB: Database>(&mut self, ctx: &EvmContext<DB>, snap: &Snap) {
        let now = Self::snap(ctx);
        if now.logs != snap.logs {
            self.fail("C10|static-frame-changed-state|logs", format!("log count {} -> {} across a static call", snap.logs, now.logs));
        }
        if now.transient != snap.transient {
            self.fail("C10|static-frame-changed-state|transient", "transient storage changed across a static call".into());
        }
        for (a, (bal, nonce, ch, created, sd, st)) in &now.accounts {
            match snap.accounts.get(a) {
                Some((b0, n0, c0, cr0, sd0, st0)) => {
                    if b0 != bal || n0 != nonce || c0 != ch || cr0 != created || sd0 != sd {
                        self.fail("C10|static-frame-changed-state|account", format!("account {a} changed across a static call: balance {b0}->{bal} nonce {n0}->{nonce} created {cr0}->{created} selfdestructed {sd0}->{sd}"));
                    }
                    for (k, v) in st {
                        if let Some(v0) = st0.get(k) {
                            if v0 != v {
                                self.fail("C10|static-frame-changed-state|storage", format!("slot {k} of {a} changed {v0}->{v} across a static call"));
                            }
                        }
                    }
                }
                None => {
                    if *created || *sd {
                        self.fail("C10|static-frame-changed-state|account", format!("account {a} first loaded inside a static call is created/selfdestructed"));
                    }
                }
            }
        }
        // slots first loaded inside the static frame must still hold their original value
        for (a, acc) in ctx.journaled_state.state.iter() {
            for (k, slot) in acc.storage.iter() {
                let known = snap.accounts.get(a).map(|x| x.5.contains_key(k)).unwrap_or(false);
                if !known && slot.present_value != slot.original_value {
                    // original_value is the value at transaction start: only a violation if nobody wrote it before
                    if !snap.accounts.contains_key(a) || !snap.accounts[a].5.contains_key(k) {
                        self.fail("C10|static-frame-changed-state|storage", format!("slot {k} of {a}, first loaded inside a static call, was written ({} -> {})", slot.original_value, slot.present_value));
                    }
                }
            }
        }
    }
}

fn low160(w: U256) -> Address {
    Address::from_slice(&w.to_be_bytes::<32>()[12..])
}

impl<DB: Database> Inspector<DB> for Recorder {
    fn initialize_interp(&mut self, _interp: &mut Interpreter, ctx: &mut EvmContext<DB>) {
        let depth = ctx.journaled_state.depth() as u64;
        match self.frames.last_mut() {
            Some(f) => {
                if f.had_interp {
                    self.fail("C29|initialize_interp-twice", "initialize_interp called twice for one frame".into());
                } else {
                    f.had_interp = true;
                }
            }
            None => self.fail("C29|initialize_interp-without-frame", "initialize_interp without an open call/create".into()),
        }
        self.push(Ev::InitInterp { depth });
    }

    fn step(&mut self, interp: &mut Interpreter, ctx: &mut EvmContext<DB>) {
        self.steps += 1;
        let op = interp.current_opcode();
        self.ops[op as usize] += 1;
        let stack = interp.stack.data();
        let mem_len = interp.shared_memory.len();
        // ---- C25 safety
        if self.cfg.safety {
            let base = interp.bytecode.as_ptr() as usize;
            let ip = interp.instruction_pointer as usize;
            if ip < base || ip >= base + interp.bytecode.len().max(1) {
                self.fail("C25|instruction-pointer-outside-code", format!("instruction pointer at offset {} of a {}-byte code buffer", ip.wrapping_sub(base), interp.bytecode.len()));
            }
            if stack.len() > 1024 {
                self.fail("C25|stack>1024", format!("stack length {}", stack.len()));
            }
            if mem_len % 32 != 0 {
                self.fail("C11|memory-not-word-aligned", format!("memory length {mem_len}"));
            }
        }
        let is_static = interp.is_static;
        let addr = interp.contract.target_address;
        let gas_before = interp.gas.remaining();
        // frame bookkeeping
        let nframes = self.frames.len();
        let parent_mem = if nframes >= 2 { self.frames[nframes - 2].last_mem_len } else { 0 };
        let mut fails: Vec<(&'static str, String)> = vec![];
        if let Some(f) = self.frames.last_mut() {
            if f.in_step {
                fails.push(("C29|step-twice", "step called twice without step_end".into()));
            }
            f.in_step = true;
            if !f.had_interp {
                fails.push(("C29|step-before-initialize_interp", "step in a frame whose initialize_interp was never called".into()));
            }
            if self.cfg.mem {
                if f.steps_in_frame == 0 && nframes > 1 && mem_len != 0 {
                    fails.push(("C11|child-memory-not-empty", format!("child frame starts with memory length {mem_len}")));
                }
                if mem_len < f.last_mem_len {
                    fails.push(("C11|memory-shrank", format!("memory length {} -> {}", f.last_mem_len, mem_len)));
                }
                if let Some((snap, off, len)) = f.pending_parent_mem.take() {
                    // first step after a call returned: memory equals the snapshot except the return window
                    let cur = interp.shared_memory.context_memory();
                    if cur.len() != snap.len() {
                        fails.push(("C11|parent-memory-size-changed", format!("parent memory size {} -> {} across a call", snap.len(), cur.len())));
                    } else {
                        let rd = &interp.return_data_buffer;
                        let n = len.min(rd.len());
                        for i in 0..cur.len() {
                            let in_window = i >= off && i < off.saturating_add(n);
                            if in_window {
                                if cur[i] != rd[i - off] {
                                    fails.push(("C11|return-window-content", format!("byte {i} of the return window is {:#x}, return data has {:#x}", cur[i], rd[i - off])));
                                    break;
                                }
                            } else if cur[i] != snap[i] {
                                fails.push(("C11|parent-memory-changed-outside-window", format!("parent memory byte {i} changed {:#x} -> {:#x} across a call (window {off}..{})", snap[i], cur[i], off.saturating_add(n))));
                                break;
                            }
                        }
                    }
                }
                if f.steps_in_frame > 0 && nframes >= 2 && mem_len > f.last_mem_len && parent_mem > 0 {
                    self.mem_nested_growth = true;
                }
            }
            f.pending_op = Some((op, gas_before, mem_len));
            f.steps_in_frame += 1;
            f.last_mem_len = mem_len;
        } else {
            fails.push(("C29|step-without-frame", "step without an open call/create".into()));
        }
        for (s, m) in fails {
            self.fail(s, m);
        }
        // ---- static write attempts (C10)
        self.pending_static_write = false;
        if is_static && self.cfg.statics {
            let n = stack.len();
            let write = match op {
                0x55 | 0x5d | 0xa0..=0xa4 | 0xf0 | 0xf5 | 0xff | 0xec => true,
                0xf1 => n >= 3 && !stack[n - 3].is_zero(),
                0xf8 => n >= 4 && !stack[n - 4].is_zero() && interp.is_eof,
                _ => false,
            };
            // EOF-only opcodes in legacy code (and vice versa) are undefined instructions, not writes
            let applicable = match op {
                0xec | 0xf8 => interp.is_eof,
                0xf0 | 0xf5 | 0xff | 0xf1 => !interp.is_eof,
                _ => true,
            };
            if write && applicable {
                self.pending_static_write = true;
                self.static_write_attempts += 1;
                if self.frames.iter().filter(|f| f.is_static).count() >= 2 {
                    self.static_write_depth2 += 1;
                }
            }
        }
        // ---- recorded steps
        if matches!(op, 0xa0..=0xa4 | 0xff) {
            let top: Vec<U256> = stack.iter().rev().take(6).copied().collect();
            let balance = ctx.journaled_state.state.get(&addr).map(|a| a.info.balance).unwrap_or_default();
            if op == 0xff && !interp.is_eof {
                self.pending_sd = top.first().map(|t| (addr, low160(*t), balance));
            }
            self.push(Ev::Step { op, addr, top, balance, is_static });
        }
    }

    fn step_end(&mut self, interp: &mut Interpreter, ctx: &mut EvmContext<DB>) {
        self.step_ends += 1;
        let res = interp.instruction_result;
        // pc was advanced; the executed opcode is not directly available: use the recorded one
        let mut fails: Vec<(&'static str, String)> = vec![];
        let mut op_done: Option<u8> = None;
        let mem_len = interp.shared_memory.len();
        let nframes = self.frames.len();
        let grew_in_child = nframes >= 2 && self.frames[nframes - 2].last_mem_len > 0;
        if let Some(f) = self.frames.last_mut() {
            if !f.in_step {
                fails.push(("C29|step_end-without-step", "step_end without a preceding step".into()));
            }
            f.in_step = false;
            if let Some((op, gas_before, mem_before)) = f.pending_op.take() {
                op_done = Some(op);
                if mem_len > mem_before && grew_in_child {
                    self.mem_nested_growth = true;
                }
                if self.cfg.mem {
                    // MLOAD / MSTORE / MSTORE8: gas = 3 + expansion (quadratic formula, u128)
                    if matches!(op, 0x51 | 0x52 | 0x53) && res == InstructionResult::Continue {
                        let w0 = (mem_before as u128) / 32;
                        let w1 = (mem_len as u128) / 32;
                        let cost = |w: u128| 3 * w + w * w / 512;
                        let want = 3 + cost(w1) - cost(w0);
                        let got = gas_before as u128 - interp.gas.remaining() as u128;
                        if got != want {
                            fails.push(("C11|memory-expansion-gas", format!("op {op:#x}: memory {mem_before}->{mem_len} bytes charged {got}, formula gives {want}")));
                        }
                    }
                    // a CALL-family instruction that really calls: snapshot parent memory + out window
                    if res == InstructionResult::CallOrCreate && matches!(op, 0xf1 | 0xf2 | 0xf4 | 0xfa) {
                        if let revm::interpreter::InterpreterAction::Call { inputs } = &interp.next_action {
                            let r = inputs.return_memory_offset.clone();
                            f.pending_parent_mem = Some((interp.shared_memory.context_memory().to_vec(), r.start, r.end - r.start));
                        }
                    }
                    if matches!(op, 0xf0 | 0xf5) && res == InstructionResult::CallOrCreate {
                        f.pending_parent_mem = Some((interp.shared_memory.context_memory().to_vec(), 0, 0));
                    }
                }
            } else {
                op_done = None;
            }
            f.last_mem_len = mem_len;
        } else {
            fails.push(("C29|step_end-without-frame", "step_end without an open call/create".into()));
        }
        for (s, m) in fails {
            self.fail(s, m);
        }
        if self.pending_static_write {
            self.pending_static_write = false;
            if !res.is_error() {
                self.fail("C10|write-in-static-frame-not-rejected", format!("a state-changing instruction ({:?}) executed in a static frame ended with {res:?}", op_done));
            }
        }
        let was_sd = self.pending_sd.take();
        if let Some(op) = op_done {
            if matches!(op, 0xa0..=0xa4 | 0xff) {
                let last_log = if matches!(op, 0xa0..=0xa4) && res == InstructionResult::Continue { ctx.journaled_state.logs.last().cloned() } else { None };
                self.push(Ev::StepEnd { op, result: res, last_log });
            }
            if op == 0xff && res == InstructionResult::SelfDestruct {
                if let Some((addr, target, balance)) = was_sd {
                    self.flow_addrs.insert(addr);
                    self.flow_addrs.insert(target);
                    if addr == target {
                        if let Some(b) = self.burn_stack.last_mut() {
                            b.push((addr, balance));
                        }
                    }
                }
            }
        }
    }

    fn log(&mut self, _interp: &mut Interpreter, _ctx: &mut EvmContext<DB>, log: &Log) {
        self.push(Ev::Log { log: log.clone() });
    }

    fn call(&mut self, ctx: &mut EvmContext<DB>, inputs: &mut CallInputs) -> Option<CallOutcome> {
        let depth = ctx.journaled_state.depth() as u64;
        if let CallValue::Transfer(v) = inputs.value {
            if !v.is_zero() {
                self.flow_addrs.insert(inputs.caller);
                self.flow_addrs.insert(inputs.target_address);
            }
        }
        let snap = if inputs.is_static && self.cfg.statics {
            self.static_frames += 1;
            Some(Self::snap(ctx))
        } else {
            None
        };
        self.push(Ev::Call { depth, inputs: Box::new(inputs.clone()) });
        self.begin(Open::Call(inputs.clone()), depth, inputs.is_static, snap);
        let k = self.n_notifications;
        self.n_notifications += 1;
        if self.cfg.override_calls.contains(&k) {
            self.overridden += 1;
            return Some(CallOutcome::new(
                revm::interpreter::InterpreterResult { result: InstructionResult::Stop, output: revm::primitives::Bytes::from_static(&[0xab; 5]), gas: revm::interpreter::Gas::new(inputs.gas_limit) },
                inputs.return_memory_offset.clone(),
            ));
        }
        None
    }

    fn call_end(&mut self, ctx: &mut EvmContext<DB>, inputs: &CallInputs, outcome: CallOutcome) -> CallOutcome {
        let depth = ctx.journaled_state.depth() as u64;
        let ok = outcome.result.result.is_ok();
        let had = self.end(Open::Call(inputs.clone()), ctx, ok, "call");
        self.push(Ev::CallEnd { depth, inputs: Box::new(inputs.clone()), result: outcome.result.result, had_interp: had });
        outcome
    }

    fn create(&mut self, ctx: &mut EvmContext<DB>, inputs: &mut CreateInputs) -> Option<CreateOutcome> {
        let depth = ctx.journaled_state.depth() as u64;
        if !inputs.value.is_zero() {
            self.flow_addrs.insert(inputs.caller);
            self.flow_addrs.insert(inputs.created_address(ctx.journaled_state.state.get(&inputs.caller).map(|a| a.info.nonce).unwrap_or(0)));
        }
        self.push(Ev::Create { depth, inputs: Box::new(inputs.clone()) });
        self.begin(Open::Create(inputs.clone()), depth, false, None);
        let k = self.n_notifications;
        self.n_notifications += 1;
        if self.cfg.override_calls.contains(&k) {
            self.overridden += 1;
            return Some(CreateOutcome::new(
                revm::interpreter::InterpreterResult { result: InstructionResult::Revert, output: revm::primitives::Bytes::new(), gas: revm::interpreter::Gas::new(inputs.gas_limit) },
                None,
            ));
        }
        None
    }

    fn create_end(&mut self, ctx: &mut EvmContext<DB>, inputs: &CreateInputs, outcome: CreateOutcome) -> CreateOutcome {
        let depth = ctx.journaled_state.depth() as u64;
        let ok = outcome.result.result.is_ok();
        let had = self.end(Open::Create(inputs.clone()), ctx, ok, "create");
        if ok {
            if let Some(a) = outcome.address {
                self.created.insert(a);
            }
        }
        self.push(Ev::CreateEnd { depth, inputs: Box::new(inputs.clone()), result: outcome.result.result, address: outcome.address, had_interp: had });
        outcome
    }

    fn eofcreate(&mut self, ctx: &mut EvmContext<DB>, inputs: &mut EOFCreateInputs) -> Option<CreateOutcome> {
        let depth = ctx.journaled_state.depth() as u64;
        self.push(Ev::EofCreate { depth, inputs: Box::new(inputs.clone()) });
        self.begin(Open::Eof(inputs.clone()), depth, false, None);
        self.n_notifications += 1;
        None
    }

    fn eofcreate_end(&mut self, ctx: &mut EvmContext<DB>, inputs: &EOFCreateInputs, outcome: CreateOutcome) -> CreateOutcome {
        let depth = ctx.journaled_state.depth() as u64;
        let ok = outcome.result.result.is_ok();
        let had = self.end(Open::Eof(inputs.clone()), ctx, ok, "eofcreate");
        if ok {
            if let Some(a) = outcome.address {
                self.created.insert(a);
            }
        }
        self.push(Ev::EofCreateEnd { depth, inputs: Box::new(inputs.clone()), result: outcome.result.result, address: outcome.address, had_interp: had });
        outcome
    }

    fn selfdestruct(&mut self, contract: Address, target: Address, value: U256) {
        self.push(Ev::Selfdestruct { contract, target, value });
    }
}

impl Recorder {
    /// To be called after the transaction: closes the books.
    pub fn finish(&mut self) {
        if !self.frames.is_empty() {
            let n = self.frames.len();
            self.fail("C29|start-without-end", format!("{n} call/create notifications were never closed by an end notification"));
        }
        if self.steps != self.step_ends {
            let (a, b) = (self.steps, self.step_ends);
            self.fail("C29|step-count-mismatch", format!("{a} step notifications but {b} step_end notifications"));
        }
        let root = self.burn_stack.first().cloned().unwrap_or_default();
        self.self_burns = root;
    }
}

/// Runs one transaction with the recorder attached (fresh Evm over ModelDB).
pub fn run_recorded(spec: SpecId, world: &r::World, env: Env, cfg: RecCfg) -> (Result<ResultAndState, String>, Recorder) {
    let db = ModelDB::new(world.clone());
    let mut evm = Evm::builder().with_db(db).with_spec_id(spec).with_env(Box::new(env)).with_external_context(Recorder::new(cfg)).append_handler_register(inspector_handle_register).build();
    let res = evm.transact().map_err(|e| format!("{e:?}"));
    let mut rec = std::mem::replace(&mut evm.context.external, Recorder::new(RecCfg::default()));
    rec.finish();
    (res, rec)
}
