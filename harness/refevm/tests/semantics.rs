//! Hand-computed scenarios for rules the shipped vectors barely exercise (Tangerine Whistle and
//! Spurious Dragon have no vectors at all).  Expected numbers are derived from the EIPs.
use primitive_types::U256;
use refevm::*;
use std::collections::BTreeMap;

struct Identity;
impl Externals for Identity {
    fn precompile(&self, _fork: Fork, _address: Address, input: &[u8], gas_limit: u64) -> PrecompileResult {
        let cost = 15 + 3 * ((input.len() as u64 + 31) / 32);
        if cost > gas_limit {
            PrecompileResult::Fail
        } else {
            PrecompileResult::Ok { gas_used: cost, output: input.to_vec() }
        }
    }
}

fn addr(n: u64) -> Address {
    let mut a = [0u8; 20];
    a[12..].copy_from_slice(&n.to_be_bytes());
    a
}

const SENDER: u64 = 0xaa;
const CONTRACT: u64 = 0x1000;
const COINBASE: u64 = 0xc0;

fn block() -> Block {
    Block {
        number: 1000,
        coinbase: addr(COINBASE),
        timestamp: 1_700_000_000,
        gas_limit: 30_000_000,
        base_fee: U256::zero(),
        difficulty: U256::from(1),
        prev_randao: [0u8; 32],
        excess_blob_gas: 0,
        chain_id: 1,
        block_hashes: BTreeMap::new(),
    }
}

fn tx(gas_limit: u64) -> Tx {
    Tx {
        tx_type: TxType::Legacy,
        caller: addr(SENDER),
        to: Some(addr(CONTRACT)),
        value: U256::zero(),
        data: vec![],
        gas_limit,
        gas_price: U256::from(1),
        max_priority_fee: None,
        nonce: Some(0),
        chain_id: Some(1),
        access_list: vec![],
        blob_hashes: vec![],
        max_fee_per_blob_gas: U256::zero(),
        authorization_list: vec![],
    }
}

fn world(code: &str) -> World {
    let mut w = World::new();
    w.insert(addr(SENDER), Account { balance: U256::from(1_000_000_000u64), ..Default::default() });
    w.insert(addr(CONTRACT), Account { code: hex::decode(code).unwrap(), nonce: 1, ..Default::default() });
    w
}

fn run(fork: Fork, w: &World, t: &Tx) -> Executed {
    match execute(fork, &block(), w, t, &Identity, &mut NoTracer) {
        TxOutcome::Executed(e) => e,
        TxOutcome::Rejected(r) => panic!("rejected: {}", r),
    }
}

#[test]
fn sstore_set_then_clear_per_fork() {
    // SSTORE(0,1); SSTORE(0,0)
    let w = world("6001600055600060005500");
    let t = tx(100_000);
    // Frontier rules: 20000 + 5000, refund 15000 capped at used/2
    for fork in [Fork::Frontier, Fork::Homestead, Fork::Tangerine, Fork::SpuriousDragon, Fork::Byzantium, Fork::Petersburg] {
        let e = run(fork, &w, &t);
        assert_eq!((e.gas_used, e.gas_refunded), (46012 - 15000, 15000), "{:?}", fork);
    }
    // EIP-2200: 20000 + 800, refund 19200
    let e = run(Fork::Istanbul, &w, &t);
    assert_eq!((e.gas_used, e.gas_refunded), (41812 - 19200, 19200));
    // EIP-2929: 22100 + 100, refund 19900
    let e = run(Fork::Berlin, &w, &t);
    assert_eq!((e.gas_used, e.gas_refunded), (43212 - 19900, 19900));
    // EIP-3529: cap = used / 5
    for fork in [Fork::London, Fork::Merge, Fork::Shanghai, Fork::Cancun, Fork::Prague] {
        let e = run(fork, &w, &t);
        assert_eq!((e.gas_used, e.gas_refunded), (43212 - 8642, 8642), "{:?}", fork);
    }
}

#[test]
fn sstore_clear_existing_slot_per_fork() {
    // SSTORE(0,0) on a slot holding 7
    let mut w = world("600060005500");
    w.get_mut(&addr(CONTRACT)).unwrap().storage.insert(U256::zero(), U256::from(7));
    let t = tx(100_000);
    let e = run(Fork::Petersburg, &w, &t);
    assert_eq!((e.gas_used, e.gas_refunded), (26006 - 13003, 13003)); // 15000 capped at half
    let e = run(Fork::Istanbul, &w, &t);
    assert_eq!((e.gas_used, e.gas_refunded), (26006 - 13003, 13003));
    let e = run(Fork::Berlin, &w, &t);
    assert_eq!((e.gas_used, e.gas_refunded), (26006 - 13003, 13003)); // 2100 + 2900
    let e = run(Fork::London, &w, &t);
    assert_eq!((e.gas_used, e.gas_refunded), (26006 - 4800, 4800));
    assert!(e.post[&addr(CONTRACT)].storage.is_empty());
}

#[test]
fn sstore_needs_more_than_the_stipend_from_istanbul() {
    // EIP-2200: fail if gas_left <= 2300.  21000 + 6 + 2300 leaves exactly 2300 at the SSTORE.
    let w = world("600160005500");
    assert_eq!(run(Fork::Istanbul, &w, &tx(21006 + 2300)).status, Status::Halt);
    // Petersburg has no such rule (it simply cannot afford 20000 either way)
    let mut w2 = world("600060005500");
    w2.get_mut(&addr(CONTRACT)).unwrap().storage.insert(U256::zero(), U256::from(7));
    // dirty-slot no-op write costs 800 in Istanbul but needs > 2300 left
    assert_eq!(run(Fork::Istanbul, &w2, &tx(21006 + 2300)).status, Status::Halt);
}

#[test]
fn zero_value_call_to_missing_account() {
    // CALL(gas 0xffff, 0xdead, value 0)
    let code = "6000600060006000600061dead61fffff100";
    let t = tx(200_000);
    let dead = addr(0xdead);
    // EIP-150: 700 + 25000 because the account does not exist; it comes into existence
    for fork in [Fork::Frontier, Fork::Homestead] {
        let e = run(fork, &world(code), &t);
        assert_eq!(e.gas_used, 21000 + 21 + 40 + 25000, "{:?}", fork);
        assert!(e.post.contains_key(&dead));
    }
    let e = run(Fork::Tangerine, &world(code), &t);
    assert_eq!(e.gas_used, 21000 + 21 + 700 + 25000);
    assert_eq!(e.post.get(&dead), Some(&Account::default()));
    // EIP-161: no charge without value, no account afterwards
    for fork in [Fork::SpuriousDragon, Fork::Byzantium, Fork::Petersburg, Fork::Istanbul] {
        let e = run(fork, &world(code), &t);
        assert_eq!(e.gas_used, 21000 + 21 + 700, "{:?}", fork);
        assert!(!e.post.contains_key(&dead));
    }
    let e = run(Fork::Berlin, &world(code), &t);
    assert_eq!(e.gas_used, 21000 + 21 + 2600);
    assert!(!e.post.contains_key(&dead));

    // The same with a pre-existing empty account: kept before EIP-161, deleted after.
    let mut w = world(code);
    w.insert(dead, Account::default());
    let e = run(Fork::Tangerine, &w, &t);
    assert_eq!(e.gas_used, 21000 + 21 + 700);
    assert!(e.post.contains_key(&dead));
    let e = run(Fork::SpuriousDragon, &w, &t);
    assert_eq!(e.gas_used, 21000 + 21 + 700);
    assert!(!e.post.contains_key(&dead));
    // an untouched empty account stays
    w.insert(addr(0xbeef), Account::default());
    assert!(run(Fork::Prague, &w, &t).post.contains_key(&addr(0xbeef)));
}

#[test]
fn value_call_to_missing_account() {
    // CALL(gas 0, 0xdead, value 1): 9000 + 25000 in every fork, stipend 2300 comes back
    let code = "6000600060006000600161dead6000f100";
    let mut w = world(code);
    w.get_mut(&addr(CONTRACT)).unwrap().balance = U256::from(5);
    let t = tx(200_000);
    for (fork, base) in [(Fork::Homestead, 40), (Fork::Tangerine, 700), (Fork::SpuriousDragon, 700), (Fork::Istanbul, 700), (Fork::Berlin, 2600), (Fork::Prague, 2600)] {
        let e = run(fork, &w, &t);
        assert_eq!(e.gas_used, 21000 + 21 + base + 9000 + 25000 - 2300, "{:?}", fork);
        assert_eq!(e.post[&addr(0xdead)].balance, U256::one());
    }
}

#[test]
fn ripemd_touch_survives_a_failed_frame() {
    // B (0x2000): CALL(0xffff, target, 0) then INVALID.  A: CALL(B) and ignore the failure.
    for (target, deleted) in [(3u64, true), (4u64, false)] {
        let b_code = format!("6000600060006000600060{:02x}61fffff1fe", target);
        let a_code = "600060006000600060006120006201fffff100";
        let mut w = world(a_code);
        w.insert(addr(0x2000), Account { code: hex::decode(&b_code).unwrap(), nonce: 1, ..Default::default() });
        w.insert(addr(target), Account::default());
        let e = run(Fork::Byzantium, &w, &tx(1_000_000));
        assert_eq!(e.status, Status::Success);
        assert_eq!(!e.post.contains_key(&addr(target)), deleted, "precompile {}", target);
        // before EIP-161 nothing is ever deleted
        let e = run(Fork::Tangerine, &w, &tx(1_000_000));
        assert!(e.post.contains_key(&addr(target)));
    }
}

#[test]
fn selfdestruct_per_fork() {
    // SELFDESTRUCT(0xbeef) from a contract holding 100 wei; 0xbeef does not exist
    let mut w = world("61beefff");
    w.get_mut(&addr(CONTRACT)).unwrap().balance = U256::from(100);
    let t = tx(200_000);
    let beef = addr(0xbeef);
    // Frontier/Homestead: free, refund 24000 capped at half
    let e = run(Fork::Homestead, &w, &t);
    assert_eq!((e.gas_used, e.gas_refunded), (21003 - 10501, 10501));
    assert!(!e.post.contains_key(&addr(CONTRACT)));
    assert_eq!(e.post[&beef].balance, U256::from(100));
    // EIP-150: 5000 + 25000 (new account)
    for fork in [Fork::Tangerine, Fork::SpuriousDragon, Fork::Petersburg, Fork::Istanbul] {
        let e = run(fork, &w, &t);
        assert_eq!((e.gas_used, e.gas_refunded), (51003 - 24000, 24000), "{:?}", fork);
        assert!(!e.post.contains_key(&addr(CONTRACT)));
    }
    // EIP-2929: + 2600 cold
    let e = run(Fork::Berlin, &w, &t);
    assert_eq!((e.gas_used, e.gas_refunded), (53603 - 24000, 24000));
    // EIP-3529: no refund
    let e = run(Fork::London, &w, &t);
    assert_eq!((e.gas_used, e.gas_refunded), (53603, 0));
    assert!(!e.post.contains_key(&addr(CONTRACT)));
    // EIP-6780: the balance moves, the account stays
    let e = run(Fork::Cancun, &w, &t);
    assert_eq!((e.gas_used, e.gas_refunded), (53603, 0));
    assert_eq!(e.post[&addr(CONTRACT)].balance, U256::zero());
    assert_eq!(e.post[&addr(CONTRACT)].code, hex::decode("61beefff").unwrap());
    assert_eq!(e.post[&beef].balance, U256::from(100));

    // zero balance: EIP-150 still charges for the missing beneficiary, EIP-161 does not
    let w0 = world("61beefff");
    assert_eq!(run(Fork::Tangerine, &w0, &t).gas_used, 51003 - 24000);
    assert!(run(Fork::Tangerine, &w0, &t).post.contains_key(&beef));
    assert_eq!(run(Fork::SpuriousDragon, &w0, &t).gas_used, 26003 - 13001);
    assert!(!run(Fork::SpuriousDragon, &w0, &t).post.contains_key(&beef));
}

#[test]
fn create_out_of_gas_on_code_deposit() {
    // initcode returning 32 bytes of zeros: PUSH1 32 PUSH1 0 RETURN; deposit = 6400
    let init = hex::decode("60206000f3").unwrap();
    let mut t = tx(0);
    t.to = None;
    t.data = init;
    let w = world("00");
    let new = create_address(addr(SENDER), 0);
    let exec_gas = 3 + 3 + 3; // pushes + memory expansion (3) + RETURN (0)
    let data_gas = |nz: u64| 21000 + 4 + 4 * nz; // one zero byte, four non-zero bytes
    // Frontier: no creation surcharge; short of the deposit => account without code, success
    t.gas_limit = data_gas(68) + exec_gas + 6399;
    let e = run(Fork::Frontier, &w, &t);
    assert_eq!(e.status, Status::Success);
    assert_eq!(e.post[&new], Account::default());
    assert_eq!(e.gas_used, data_gas(68) + exec_gas);
    // Homestead: the creation fails and consumes everything
    t.gas_limit = data_gas(68) + 32000 + exec_gas + 6399;
    let e = run(Fork::Homestead, &w, &t);
    assert_eq!(e.status, Status::Halt);
    assert_eq!(e.gas_used, t.gas_limit);
    assert!(!e.post.contains_key(&new));
    // with one more gas it succeeds
    t.gas_limit += 1;
    let e = run(Fork::Homestead, &w, &t);
    assert_eq!(e.status, Status::Success);
    assert_eq!(e.post[&new].code, vec![0u8; 32]);
    assert_eq!(e.post[&new].nonce, 0);
    assert_eq!(e.created, Some(new));
    // EIP-161: the new contract starts with nonce 1
    let e = run(Fork::SpuriousDragon, &w, &t);
    assert_eq!(e.post[&new].nonce, 1);
}

#[test]
fn exp_and_account_access_costs() {
    // EXP(2, 0x0100): exponent has 2 bytes
    let w = world("6101006002 0a00".replace(' ', "").as_str());
    let t = tx(100_000);
    assert_eq!(run(Fork::Tangerine, &w, &t).gas_used, 21000 + 6 + 10 + 2 * 10);
    assert_eq!(run(Fork::SpuriousDragon, &w, &t).gas_used, 21000 + 6 + 10 + 2 * 50);
    // BALANCE / EXTCODESIZE / SLOAD of something
    let w = world("6001315060013b50600154 5000".replace(' ', "").as_str());
    let fixed = 21000 + 3 * 3 + 3 * 2;
    assert_eq!(run(Fork::Homestead, &w, &t).gas_used, fixed + 20 + 20 + 50);
    assert_eq!(run(Fork::Tangerine, &w, &t).gas_used, fixed + 400 + 700 + 200);
    assert_eq!(run(Fork::Petersburg, &w, &t).gas_used, fixed + 400 + 700 + 200);
    assert_eq!(run(Fork::Istanbul, &w, &t).gas_used, fixed + 700 + 700 + 800);
    // Berlin: precompile 0x01 is warm (100 + 100), slot cold (2100)
    assert_eq!(run(Fork::Berlin, &w, &t).gas_used, fixed + 100 + 100 + 2100);
}

#[test]
fn opcode_availability() {
    let t = tx(100_000);
    let cases: [(&str, Fork); 10] = [
        ("6000600060006000609961fffff450", Fork::Homestead),      // DELEGATECALL to an empty account
        ("3d50", Fork::Byzantium),                                 // RETURNDATASIZE
        ("600160011b50", Fork::Petersburg),                        // SHL
        ("4650", Fork::Istanbul),                                  // CHAINID
        ("4750", Fork::Istanbul),                                  // SELFBALANCE
        ("4850", Fork::London),                                    // BASEFEE
        ("5f50", Fork::Shanghai),                                  // PUSH0
        ("60005c50", Fork::Cancun),                                // TLOAD
        ("4a50", Fork::Cancun),                                    // BLOBBASEFEE
        ("6000600060005e", Fork::Cancun),                          // MCOPY
    ];
    for (code, since) in cases {
        let w = world(code);
        for fork in Fork::ALL {
            let status = run(fork, &w, &t).status;
            let expected = if fork >= since { Status::Success } else { Status::Halt };
            assert_eq!(status, expected, "code {} in {:?}", code, fork);
        }
    }
}

#[test]
fn validation_rules() {
    let w = world("00");
    let b = block();
    let ok = tx(100_000);
    assert!(validate(Fork::Prague, &b, &w, &ok).is_ok());
    let mut t = ok.clone();
    t.nonce = Some(1);
    assert!(validate(Fork::Prague, &b, &w, &t).is_err());
    let mut t = ok.clone();
    t.chain_id = Some(2);
    assert!(validate(Fork::Prague, &b, &w, &t).is_err());
    let mut t = ok.clone();
    t.gas_limit = 20_999;
    assert!(validate(Fork::Prague, &b, &w, &t).is_err());
    let mut t = ok.clone();
    t.gas_limit = b.gas_limit + 1;
    assert!(validate(Fork::Prague, &b, &w, &t).is_err());
    let mut t = ok.clone();
    t.gas_price = U256::MAX; // gas_limit * price overflows 256 bits
    assert!(validate(Fork::Prague, &b, &w, &t).is_err());
    let mut t = ok.clone();
    t.value = U256::from(1_000_000_000u64); // balance cannot cover value + gas
    assert!(validate(Fork::Prague, &b, &w, &t).is_err());
    // EIP-3607, with the EIP-7702 exception
    let mut t = ok.clone();
    t.caller = addr(CONTRACT);
    let mut w2 = w.clone();
    w2.get_mut(&addr(CONTRACT)).unwrap().balance = U256::from(1_000_000_000u64);
    w2.get_mut(&addr(CONTRACT)).unwrap().nonce = 0;
    assert!(validate(Fork::Prague, &b, &w2, &t).is_err());
    let mut code = vec![0xef, 0x01, 0x00];
    code.extend_from_slice(&addr(0x77));
    w2.get_mut(&addr(CONTRACT)).unwrap().code = code;
    assert!(validate(Fork::Prague, &b, &w2, &t).is_ok());
    assert!(validate(Fork::Cancun, &b, &w2, &t).is_err());
    // transaction types per fork
    let mut t = ok.clone();
    t.tx_type = TxType::Eip2930;
    assert!(validate(Fork::Istanbul, &b, &w, &t).is_err());
    assert!(validate(Fork::Berlin, &b, &w, &t).is_ok());
    t.tx_type = TxType::Eip1559;
    t.max_priority_fee = Some(U256::one());
    assert!(validate(Fork::Berlin, &b, &w, &t).is_err());
    assert!(validate(Fork::London, &b, &w, &t).is_ok());
    t.max_priority_fee = Some(U256::from(2)); // > max fee (1)
    assert!(validate(Fork::London, &b, &w, &t).is_err());
    // EIP-7702: empty list / create are invalid
    let mut t = ok.clone();
    t.tx_type = TxType::Eip7702;
    t.max_priority_fee = Some(U256::zero());
    assert!(validate(Fork::Prague, &b, &w, &t).is_err());
    t.authorization_list.push(Authorization { chain_id: U256::zero(), address: addr(1), nonce: 0, authority: None });
    assert!(validate(Fork::Prague, &b, &w, &t).is_ok());
    t.to = None;
    assert!(validate(Fork::Prague, &b, &w, &t).is_err());
    // EIP-7623 floor: 100 non-zero bytes => 21000 + 400 * 10 > intrinsic 21000 + 1600
    let mut t = ok.clone();
    t.data = vec![1u8; 100];
    assert_eq!(intrinsic_gas(Fork::Prague, &t), 22_600);
    assert_eq!(floor_gas(Fork::Prague, &t), 25_000);
    assert_eq!(floor_gas(Fork::Cancun, &t), 0);
    t.gas_limit = 24_999;
    assert!(validate(Fork::Prague, &b, &w, &t).is_err());
    assert!(validate(Fork::Cancun, &b, &w, &t).is_ok());
    t.gas_limit = 25_000;
    assert_eq!(run(Fork::Prague, &w, &t).gas_used, 25_000);
    assert_eq!(intrinsic_gas(Fork::Petersburg, &t), 21_000 + 6_800);
}
