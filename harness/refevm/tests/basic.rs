//! Sanity, robustness and speed checks that do not need the test vectors.
use primitive_types::U256;
use refevm::*;
use std::collections::BTreeMap;

struct NoPrecompiles;
impl Externals for NoPrecompiles {
    fn precompile(&self, _fork: Fork, _address: Address, input: &[u8], gas_limit: u64) -> PrecompileResult {
        // behave like identity so that precompile calls do something
        let cost = 15 + 3 * ((input.len() as u64 + 31) / 32);
        if cost > gas_limit {
            PrecompileResult::Fail
        } else {
            PrecompileResult::Ok { gas_used: cost, output: input.to_vec() }
        }
    }
}

fn addr(n: u64) -> Address {
    let mut a = [0u8; 20];
    a[12..].copy_from_slice(&n.to_be_bytes());
    a
}

fn block() -> Block {
    Block {
        number: 1000,
        coinbase: addr(0xc0),
        timestamp: 1_700_000_000,
        gas_limit: u64::MAX >> 1,
        base_fee: U256::from(7),
        difficulty: U256::from(1),
        prev_randao: [7u8; 32],
        excess_blob_gas: 0,
        chain_id: 1,
        block_hashes: BTreeMap::new(),
    }
}

fn call_tx(to: Option<Address>, gas_limit: u64, data: Vec<u8>) -> Tx {
    Tx {
        tx_type: TxType::Legacy,
        caller: addr(0xaa),
        to,
        value: U256::zero(),
        data,
        gas_limit,
        gas_price: U256::from(10),
        max_priority_fee: None,
        nonce: None,
        chain_id: None,
        access_list: vec![],
        blob_hashes: vec![],
        max_fee_per_blob_gas: U256::zero(),
        authorization_list: vec![],
    }
}

fn world_with(code: Vec<u8>) -> World {
    let mut w = World::new();
    w.insert(addr(0xaa), Account { balance: U256::MAX >> 1, ..Default::default() });
    w.insert(addr(0x1000), Account { code, nonce: 1, ..Default::default() });
    w
}

fn hex(s: &str) -> Vec<u8> {
    hex::decode(s).unwrap()
}

#[test]
fn known_answers() {
    assert_eq!(
        hex::encode(keccak256(b"")),
        "c5d2460186f7233c927e7db2dcc703c0e500b653ca82273b7bfad8045d85a470"
    );
    assert_eq!(hex::encode(keccak256(b"")), hex::encode(refevm::util::EMPTY_CODE_HASH));
    assert_eq!(
        hex::encode(state_root(&World::new())),
        "56e81f171bcc55a6ff8345e692c0f86e5b48e01b996cadc001622fb5e363b421"
    );
    // well-known: first contract of 0x6ac7ea33f8831ea9dcc53393aaa88b25a785dbf0
    let sender: Address = hex("6ac7ea33f8831ea9dcc53393aaa88b25a785dbf0").try_into().unwrap();
    assert_eq!(hex::encode(create_address(sender, 0)), "cd234a471b72ba2f1ccf0a70fcaba648a5eecd8d");
    assert_eq!(hex::encode(create_address(sender, 1)), "343c43a37d37dff08ae8c4a11544c718abb4fcf8");
    // EIP-1014 example 1 and 5
    assert_eq!(
        hex::encode(create2_address([0u8; 20], U256::zero(), &[0u8])),
        "4d1a2e2bb4f88f0250f26ffff098b0b30b26bf38"
    );
    let deadbeef: Address = hex("00000000000000000000000000000000deadbeef").try_into().unwrap();
    assert_eq!(
        hex::encode(create2_address(deadbeef, U256::from(0xcafebabeu64), &hex("deadbeef"))),
        "60f3f640a8508fc6a86d45df051962668e1e8ac7"
    );
    // EIP-4844: price is 1 at zero excess and grows
    assert_eq!(blob_gas_price(Fork::Cancun, 0), U256::one());
    assert_eq!(blob_gas_price(Fork::Cancun, 3338477), U256::from(2)); // e^1 = 2.71 -> 2
    assert_eq!(blob_gas_price(Fork::Prague, u64::MAX), U256::MAX);
}

#[test]
fn plain_transfer_costs_21000() {
    let mut w = World::new();
    w.insert(addr(0xaa), Account { balance: U256::from(10_000_000u64), ..Default::default() });
    let mut tx = call_tx(Some(addr(0xbb)), 50_000, vec![]);
    tx.value = U256::from(5);
    for fork in Fork::ALL {
        match execute(fork, &block(), &w, &tx, &NoPrecompiles, &mut NoTracer) {
            TxOutcome::Executed(e) => {
                assert_eq!(e.status, Status::Success);
                assert_eq!(e.gas_used, 21000, "{:?}", fork);
                assert_eq!(e.post[&addr(0xbb)].balance, U256::from(5));
                assert_eq!(e.post[&addr(0xaa)].balance, U256::from(10_000_000u64 - 5 - 210_000));
                let tip = if fork >= Fork::London { 3 } else { 10 };
                assert_eq!(e.post[&addr(0xc0)].balance, U256::from(21000u64 * tip));
            }
            TxOutcome::Rejected(r) => panic!("{:?}: {}", fork, r),
        }
    }
}

/// A contract that calls itself until the depth limit is hit: 1025 frames must neither
/// overflow the native stack nor be slow.
#[test]
fn deep_recursion() {
    // PUSH0-free: 6000 6000 6000 6000 6000 30 5a f1 (CALL self with all gas), then
    // SLOAD(0)+1 -> SSTORE(0) to count the frames that completed.
    // Before EIP-150 the requested gas must be affordable: ask for GAS - 100000 there.
    for fork in [Fork::Frontier, Fork::Tangerine, Fork::Berlin, Fork::Prague] {
        let gas_expr = if fork >= Fork::Tangerine { "5a" } else { "620186a05a03" };
        let code = hex(&format!("6000600060006000600030{}f150600054600101600055", gas_expr));
        let w = world_with(code);
        let tx = call_tx(Some(addr(0x1000)), 1 << 62, vec![]); // (63/64)^1024 of it must still pay for a frame
        let started = std::time::Instant::now();
        let out = execute(fork, &block(), &w, &tx, &NoPrecompiles, &mut NoTracer);
        let elapsed = started.elapsed();
        match out {
            TxOutcome::Executed(e) => {
                assert_eq!(e.status, Status::Success, "{:?}", fork);
                // frames at depth 0..=1024 run; the call from depth 1024 is refused
                assert_eq!(e.post[&addr(0x1000)].storage[&U256::zero()], U256::from(1025), "{:?}", fork);
            }
            TxOutcome::Rejected(r) => panic!("{}", r),
        }
        assert!(elapsed.as_secs_f64() < 1.0, "deep recursion took {:?}", elapsed);
    }
}

/// Same with CREATE recursion (initcode that CREATEs a copy of itself).
#[test]
fn deep_create_recursion() {
    // CODECOPY the whole initcode to memory, CREATE(0, 0, codesize), STOP
    let code = hex("3860006000393860006000f000");
    let mut tx = call_tx(None, 1 << 62, code);
    tx.gas_price = U256::from(10);
    let mut w = World::new();
    w.insert(addr(0xaa), Account { balance: U256::MAX >> 1, ..Default::default() });
    for fork in [Fork::Homestead, Fork::Prague] {
        let started = std::time::Instant::now();
        match execute(fork, &block(), &w, &tx, &NoPrecompiles, &mut NoTracer) {
            TxOutcome::Executed(e) => {
                assert_eq!(e.status, Status::Success);
                // sender + coinbase + 1025 created contracts
                assert_eq!(e.post.len(), 2 + 1025, "{:?}", fork);
            }
            TxOutcome::Rejected(r) => panic!("{}", r),
        }
        assert!(started.elapsed().as_secs_f64() < 2.0);
    }
}

#[test]
fn huge_memory_is_out_of_gas_not_allocation() {
    // MSTORE at offset 2^64-1, 2^200, 2^31 with absurd gas
    for offset in ["67ffffffffffffffff", "7801000000000000000000000000000000000000000000000000", "6380000000"] {
        let code = hex(&format!("6001{}5200", offset));
        let w = world_with(code);
        let tx = call_tx(Some(addr(0x1000)), (1 << 63) - 1, vec![]);
        match execute(Fork::Prague, &block(), &w, &tx, &NoPrecompiles, &mut NoTracer) {
            TxOutcome::Executed(e) => assert_eq!(e.status, Status::Halt),
            TxOutcome::Rejected(r) => panic!("{}", r),
        }
    }
}

struct Rng(u64);
impl Rng {
    fn next(&mut self) -> u64 {
        self.0 ^= self.0 << 13;
        self.0 ^= self.0 >> 7;
        self.0 ^= self.0 << 17;
        self.0
    }
    fn below(&mut self, n: u64) -> u64 {
        self.next() % n
    }
}

/// Opcode soup biased toward interesting instructions.
fn random_code(rng: &mut Rng, len: usize) -> Vec<u8> {
    const INTERESTING: [u8; 40] = [
        0xf0, 0xf1, 0xf2, 0xf4, 0xf5, 0xfa, 0xff, 0xfd, 0xf3, 0x55, 0x54, 0x5c, 0x5d, 0x5e, 0x37, 0x39, 0x3c, 0x3e, 0x3f,
        0x3b, 0x31, 0x20, 0xa0, 0xa4, 0x51, 0x52, 0x53, 0x56, 0x57, 0x5b, 0x5a, 0x30, 0x33, 0x80, 0x81, 0x90, 0x0a, 0x40,
        0x49, 0x5f,
    ];
    let mut code = Vec::with_capacity(len);
    while code.len() < len {
        match rng.below(10) {
            0..=3 => {
                // small push
                code.push(0x60);
                code.push(match rng.below(4) {
                    0 => 0,
                    1 => rng.below(8) as u8,
                    2 => 0x10 + rng.below(8) as u8,
                    _ => rng.next() as u8,
                });
            }
            4 => {
                let n = rng.below(32) as u8;
                code.push(0x60 + n);
                for _ in 0..=n {
                    code.push(if rng.below(3) == 0 { 0xff } else { rng.next() as u8 });
                }
            }
            5..=7 => code.push(INTERESTING[rng.below(INTERESTING.len() as u64) as usize]),
            _ => code.push(rng.next() as u8),
        }
    }
    code
}

/// Random bytes as code on every fork with silly parameters: must not panic, must be
/// deterministic, and must conserve ether up to the burnt base fee.
#[test]
fn random_code_never_panics() {
    let mut rng = Rng(0x9e3779b97f4a7c15);
    let forks = Fork::ALL;
    let iterations: u64 = std::env::var("REFEVM_FUZZ_ITERS").ok().and_then(|s| s.parse().ok()).unwrap_or(6000);
    for i in 0..iterations {
        let fork = forks[rng.below(forks.len() as u64) as usize];
        let len = 1 + rng.below(96) as usize;
        let code = random_code(&mut rng, len);
        let mut w = World::new();
        w.insert(addr(0xaa), Account { balance: U256::MAX >> 2, nonce: rng.below(3), ..Default::default() });
        w.insert(addr(0x1000), Account { code: code.clone(), nonce: 1, balance: U256::from(rng.below(1000)), ..Default::default() });
        w.insert(addr(0x10), Account { code: random_code(&mut rng, 16), nonce: 1, ..Default::default() });
        let gas_limit = match rng.below(4) {
            0 => 21000 + rng.below(100_000),
            1 => 1_000_000,
            2 => 30_000_000,
            _ => 100_000 + rng.below(1 << 22),
        };
        let mut tx = if rng.below(5) == 0 {
            call_tx(None, gas_limit + 100_000, code)
        } else {
            call_tx(Some(addr(0x1000)), gas_limit, random_code(&mut rng, 8))
        };
        tx.value = U256::from(rng.below(3));
        let mut b = block();
        b.gas_limit = 1 << 62;
        let a = execute(fork, &b, &w, &tx, &NoPrecompiles, &mut NoTracer);
        let c = execute(fork, &b, &w, &tx, &NoPrecompiles, &mut NoTracer);
        assert_eq!(a, c, "non-deterministic at iteration {}", i);
        if let TxOutcome::Executed(e) = a {
            assert!(e.gas_used <= tx.gas_limit);
            let before: U256 = w.values().fold(U256::zero(), |s, a| s + a.balance);
            let after: U256 = e.post.values().fold(U256::zero(), |s, a| s + a.balance);
            assert!(after <= before, "ether created at iteration {} ({:?})", i, fork);
            if fork >= Fork::London && fork < Fork::Cancun {
                // only the base fee (and selfdestructed-to-self balances) may vanish
                let burnt = before - after;
                assert!(burnt >= b.base_fee * U256::from(e.gas_used), "iteration {}", i);
            }
        }
    }
}

#[test]
fn absurd_gas_limit_is_fine() {
    // infinite-loop-free code with gas limit 2^63-1
    let code = hex("5a600055"); // GAS PUSH1 0 SSTORE
    let w = world_with(code);
    let tx = call_tx(Some(addr(0x1000)), (1 << 63) - 1, vec![]);
    match execute(Fork::Prague, &block(), &w, &tx, &NoPrecompiles, &mut NoTracer) {
        TxOutcome::Executed(e) => assert_eq!(e.status, Status::Success),
        TxOutcome::Rejected(r) => panic!("{}", r),
    }
}

#[test]
fn throughput_simple_transactions() {
    let code = hex("6001600055600160015401600155"); // two SSTOREs
    let w = world_with(code);
    let tx = call_tx(Some(addr(0x1000)), 200_000, vec![1, 2, 3]);
    let n = 20_000;
    let started = std::time::Instant::now();
    for _ in 0..n {
        let out = execute(Fork::Prague, &block(), &w, &tx, &NoPrecompiles, &mut NoTracer);
        assert!(matches!(out, TxOutcome::Executed(_)));
    }
    let per_sec = n as f64 / started.elapsed().as_secs_f64();
    eprintln!("throughput: {:.0} simple tx/s", per_sec);
    assert!(per_sec > 2000.0, "too slow: {:.0} tx/s", per_sec);
}
