//! 256-bit arithmetic of the EVM on top of `primitive_types::U256`.
use primitive_types::{U256, U512};

pub fn is_negative(v: U256) -> bool {
    v.bit(255)
}

pub fn neg(v: U256) -> U256 {
    (!v).overflowing_add(U256::one()).0
}

pub fn abs(v: U256) -> U256 {
    if is_negative(v) {
        neg(v)
    } else {
        v
    }
}

pub fn div(a: U256, b: U256) -> U256 {
    if b.is_zero() {
        U256::zero()
    } else {
        a / b
    }
}

pub fn rem(a: U256, b: U256) -> U256 {
    if b.is_zero() {
        U256::zero()
    } else {
        a % b
    }
}

/// Signed division truncating toward zero; x / 0 = 0; MIN / -1 = MIN.
pub fn sdiv(a: U256, b: U256) -> U256 {
    if b.is_zero() {
        return U256::zero();
    }
    let q = abs(a) / abs(b);
    if is_negative(a) != is_negative(b) {
        neg(q)
    } else {
        q
    }
}

/// Signed remainder; the result takes the sign of the dividend.
pub fn smod(a: U256, b: U256) -> U256 {
    if b.is_zero() {
        return U256::zero();
    }
    let r = abs(a) % abs(b);
    if is_negative(a) {
        neg(r)
    } else {
        r
    }
}

fn low256(v: U512) -> U256 {
    let mut buf = [0u8; 64];
    v.to_big_endian(&mut buf);
    U256::from_big_endian(&buf[32..])
}

pub fn addmod(a: U256, b: U256, n: U256) -> U256 {
    if n.is_zero() {
        return U256::zero();
    }
    low256((U512::from(a) + U512::from(b)) % U512::from(n))
}

pub fn mulmod(a: U256, b: U256, n: U256) -> U256 {
    if n.is_zero() {
        return U256::zero();
    }
    low256(a.full_mul(b) % U512::from(n))
}

/// Square-and-multiply modulo 2^256.
pub fn exp(base: U256, exponent: U256) -> U256 {
    let mut result = U256::one();
    let mut b = base;
    let mut e = exponent;
    while !e.is_zero() {
        if e.bit(0) {
            result = result.overflowing_mul(b).0;
        }
        b = b.overflowing_mul(b).0;
        e = e >> 1usize;
    }
    result
}

/// Number of significant bytes.
pub fn byte_len(v: U256) -> u64 {
    ((v.bits() + 7) / 8) as u64
}

/// SIGNEXTEND: `k` = index of the byte holding the sign bit (0 = least significant).
pub fn signextend(k: U256, v: U256) -> U256 {
    if k >= U256::from(31) {
        return v;
    }
    let bit = k.low_u64() as usize * 8 + 7;
    let mask = (U256::one() << (bit + 1)).overflowing_sub(U256::one()).0;
    if v.bit(bit) {
        v | !mask
    } else {
        v & mask
    }
}

/// BYTE: i-th byte counting from the most significant.
pub fn byte(i: U256, v: U256) -> U256 {
    if i >= U256::from(32) {
        return U256::zero();
    }
    U256::from(v.byte(31 - i.low_u64() as usize))
}

pub fn shl(shift: U256, v: U256) -> U256 {
    if shift >= U256::from(256) {
        U256::zero()
    } else {
        v << shift.low_u64() as usize
    }
}

pub fn shr(shift: U256, v: U256) -> U256 {
    if shift >= U256::from(256) {
        U256::zero()
    } else {
        v >> shift.low_u64() as usize
    }
}

pub fn sar(shift: U256, v: U256) -> U256 {
    let negative = is_negative(v);
    if shift >= U256::from(256) {
        return if negative { U256::MAX } else { U256::zero() };
    }
    let s = shift.low_u64() as usize;
    let shifted = v >> s;
    if negative && s > 0 {
        // fill the vacated high bits with ones
        shifted | (U256::MAX << (256 - s))
    } else {
        shifted
    }
}

pub fn slt(a: U256, b: U256) -> bool {
    match (is_negative(a), is_negative(b)) {
        (true, false) => true,
        (false, true) => false,
        _ => a < b,
    }
}

#[cfg(test)]
mod tests {
    use super::*;

    #[test]
    fn signed_ops() {
        let m1 = U256::MAX; // -1
        let min = U256::one() << 255;
        assert_eq!(sdiv(min, m1), min);
        assert_eq!(sdiv(neg(U256::from(7)), U256::from(2)), neg(U256::from(3)));
        assert_eq!(smod(neg(U256::from(7)), U256::from(2)), m1);
        assert_eq!(sar(U256::from(1), m1), m1);
        assert_eq!(sar(U256::from(255), min), m1);
        assert_eq!(sar(U256::from(4), U256::from(0x100)), U256::from(0x10));
        assert_eq!(signextend(U256::zero(), U256::from(0xff)), m1);
        assert_eq!(signextend(U256::zero(), U256::from(0x17f)), U256::from(0x7f));
        assert_eq!(byte(U256::from(31), U256::from(0xab)), U256::from(0xab));
        assert_eq!(exp(U256::from(2), U256::from(256)), U256::zero());
        assert_eq!(exp(U256::from(3), U256::from(5)), U256::from(243));
        assert_eq!(mulmod(U256::MAX, U256::MAX, U256::from(7)), (U256::MAX % 7) * (U256::MAX % 7) % 7);
        assert!(slt(m1, U256::zero()));
    }
}
