//! Loading of execution-spec-tests state vectors into reference types (shared by the refevm-vectors binary's
//! logic and by the golden-replay part of the revm check C01).
use crate::*;
use primitive_types::U256;
use serde_json::Value;
use std::collections::BTreeMap;
use std::path::Path;

pub fn strip0x(s: &str) -> &str {
    s.strip_prefix("0x").or_else(|| s.strip_prefix("0X")).unwrap_or(s)
}

pub fn parse_u256(v: &Value) -> Result<U256, String> {
    let s = v.as_str().ok_or_else(|| format!("expected string, got {}", v))?;
    if s.starts_with("0x") || s.starts_with("0X") {
        let h = strip0x(s);
        if h.is_empty() {
            return Ok(U256::zero());
        }
        if h.len() > 64 {
            return Err(format!("number too large: {}", s));
        }
        U256::from_str_radix(h, 16).map_err(|e| format!("bad number {}: {:?}", s, e))
    } else {
        U256::from_dec_str(s).map_err(|e| format!("bad number {}: {:?}", s, e))
    }
}

pub fn parse_u64(v: &Value) -> Result<u64, String> {
    let x = parse_u256(v)?;
    if x > U256::from(u64::MAX) {
        return Err(format!("does not fit u64: {}", v));
    }
    Ok(x.low_u64())
}

pub fn parse_bytes(v: &Value) -> Result<Vec<u8>, String> {
    let s = v.as_str().ok_or_else(|| format!("expected string, got {}", v))?;
    hex::decode(strip0x(s)).map_err(|e| format!("bad hex: {}", e))
}

pub fn parse_address(v: &Value) -> Result<Address, String> {
    let b = parse_bytes(v)?;
    if b.len() != 20 {
        return Err(format!("bad address {}", v));
    }
    let mut a = [0u8; 20];
    a.copy_from_slice(&b);
    Ok(a)
}

pub fn parse_hash(v: &Value) -> Result<Hash, String> {
    let b = parse_bytes(v)?;
    if b.len() != 32 {
        return Err(format!("bad hash {}", v));
    }
    let mut a = [0u8; 32];
    a.copy_from_slice(&b);
    Ok(a)
}

pub fn parse_world(v: &Value) -> Result<World, String> {
    let mut world = World::new();
    for (k, acc) in v.as_object().ok_or("pre is not an object")? {
        let address = parse_address(&Value::String(k.clone()))?;
        let mut storage = BTreeMap::new();
        if let Some(st) = acc.get("storage").and_then(|s| s.as_object()) {
            for (sk, sv) in st {
                let value = parse_u256(sv)?;
                if !value.is_zero() {
                    storage.insert(parse_u256(&Value::String(sk.clone()))?, value);
                }
            }
        }
        world.insert(
            address,
            Account {
                balance: parse_u256(&acc["balance"])?,
                nonce: parse_u64(&acc["nonce"])?,
                code: parse_bytes(&acc["code"])?,
                storage,
            },
        );
    }
    Ok(world)
}

pub fn fork_by_name(name: &str) -> Option<Fork> {
    Some(match name {
        "Frontier" => Fork::Frontier,
        "Homestead" => Fork::Homestead,
        "EIP150" => Fork::Tangerine,
        "EIP158" => Fork::SpuriousDragon,
        "Byzantium" => Fork::Byzantium,
        "ConstantinopleFix" | "Petersburg" => Fork::Petersburg,
        "Istanbul" => Fork::Istanbul,
        "Berlin" => Fork::Berlin,
        "London" => Fork::London,
        "Paris" | "Merge" => Fork::Merge,
        "Shanghai" => Fork::Shanghai,
        "Cancun" => Fork::Cancun,
        "Prague" => Fork::Prague,
        _ => return None,
    })
}

/// secp256k1 group order and its half (EIP-2 / EIP-7702 low-s rule).
pub fn secp256k1_n() -> U256 {
    U256::from_str_radix("fffffffffffffffffffffffffffffffebaaedce6af48a03bbfd25e8cd0364141", 16).unwrap()
}

pub fn parse_authorization(v: &Value) -> Result<Authorization, String> {
    let chain_id = parse_u256(&v["chainId"])?;
    let address = parse_address(&v["address"])?;
    let nonce256 = parse_u256(&v["nonce"])?;
    let y_parity = parse_u256(v.get("v").or_else(|| v.get("yParity")).ok_or("authorization without v")?)?;
    let r = parse_u256(&v["r"])?;
    let s = parse_u256(&v["s"])?;
    let n = secp256k1_n();
    let signature_well_formed =
        y_parity <= U256::one() && !r.is_zero() && r < n && !s.is_zero() && s <= n / 2 && nonce256 <= U256::from(u64::MAX);
    // No ECDSA here: the vectors carry the recovered `signer`; an absent signer means the
    // signature does not recover.
    let authority = match v.get("signer") {
        Some(sg) if signature_well_formed => Some(parse_address(sg)?),
        _ => None,
    };
    Ok(Authorization { chain_id, address, nonce: nonce256.low_u64(), authority })
}


/// Files that encode the superseded devnet-5 EXTCODE* rule for delegated accounts.
pub const EXPECTED_FAIL_FILES: [&str; 4] = ["ext_code_on_chain_delegating_set_code.json", "ext_code_on_self_delegating_set_code.json", "ext_code_on_self_set_code.json", "ext_code_on_set_code.json"];

/// One (test, fork, index) of a state-test file, ready to execute.
#[derive(Clone, Debug)]
pub struct VectorCase {
    pub name: String,
    pub fork_name: String,
    pub index: usize,
    pub pre: World,
    pub block: Block,
    pub tx: Tx,
    pub expected_root: Hash,
    pub expected_logs: Hash,
    pub expect_exception: Option<String>,
}

fn build_case(name: &str, fork_name: &str, index: usize, unit: &Value, pre: &World, post: &Value) -> Result<VectorCase, String> {
    let env = &unit["env"];
    let txv = &unit["transaction"];
    let idx = &post["indexes"];
    let (di, gi, vi) = (idx["data"].as_u64().ok_or("bad index")? as usize, idx["gas"].as_u64().ok_or("bad index")? as usize, idx["value"].as_u64().ok_or("bad index")? as usize);
    let mut prev_randao = [0u8; 32];
    if let Some(r) = env.get("currentRandom") {
        prev_randao = parse_hash(r)?;
    }
    let block = Block {
        number: parse_u64(&env["currentNumber"])?,
        coinbase: parse_address(&env["currentCoinbase"])?,
        timestamp: parse_u64(&env["currentTimestamp"])?,
        gas_limit: parse_u64(&env["currentGasLimit"])?,
        base_fee: env.get("currentBaseFee").map(parse_u256).transpose()?.unwrap_or_default(),
        difficulty: env.get("currentDifficulty").map(parse_u256).transpose()?.unwrap_or_default(),
        prev_randao,
        excess_blob_gas: env.get("currentExcessBlobGas").map(parse_u64).transpose()?.unwrap_or(0),
        chain_id: 1,
        block_hashes: BTreeMap::new(),
    };
    let txbytes = post.get("txbytes").map(parse_bytes).transpose()?.unwrap_or_default();
    let tx_type = match txbytes.first() {
        Some(1) => TxType::Eip2930,
        Some(2) => TxType::Eip1559,
        Some(3) => TxType::Eip4844,
        Some(4) => TxType::Eip7702,
        _ => TxType::Legacy,
    };
    let to = match txv.get("to").and_then(|t| t.as_str()) {
        None | Some("") => None,
        Some(s) => Some(parse_address(&Value::String(s.to_string()))?),
    };
    let mut access_list = Vec::new();
    if let Some(al) = txv.get("accessLists").and_then(|a| a.get(di)).and_then(|a| a.as_array()) {
        for item in al {
            let mut keys = Vec::new();
            for k in item["storageKeys"].as_array().ok_or("bad access list")? {
                keys.push(parse_u256(k)?);
            }
            access_list.push((parse_address(&item["address"])?, keys));
        }
    }
    let mut blob_hashes = Vec::new();
    if let Some(hs) = txv.get("blobVersionedHashes").and_then(|h| h.as_array()) {
        for h in hs {
            blob_hashes.push(parse_hash(h)?);
        }
    }
    let mut authorization_list = Vec::new();
    if let Some(list) = txv.get("authorizationList").and_then(|a| a.as_array()) {
        for a in list {
            authorization_list.push(parse_authorization(a)?);
        }
    }
    let gas_price = match (txv.get("gasPrice"), txv.get("maxFeePerGas")) {
        (Some(p), _) => parse_u256(p)?,
        (None, Some(p)) => parse_u256(p)?,
        _ => U256::zero(),
    };
    let gas_limit = parse_u256(&txv["gasLimit"][gi])?;
    let tx = Tx {
        tx_type,
        caller: parse_address(&txv["sender"])?,
        to,
        value: parse_u256(&txv["value"][vi])?,
        data: parse_bytes(&txv["data"][di])?,
        gas_limit: if gas_limit > U256::from(u64::MAX) { u64::MAX } else { gas_limit.low_u64() },
        gas_price,
        max_priority_fee: txv.get("maxPriorityFeePerGas").map(parse_u256).transpose()?,
        nonce: Some(parse_u64(&txv["nonce"])?),
        chain_id: Some(1),
        access_list,
        blob_hashes,
        max_fee_per_blob_gas: txv.get("maxFeePerBlobGas").map(parse_u256).transpose()?.unwrap_or_default(),
        authorization_list,
    };
    Ok(VectorCase {
        name: name.to_string(),
        fork_name: fork_name.to_string(),
        index,
        pre: pre.clone(),
        block,
        tx,
        expected_root: parse_hash(&post["hash"])?,
        expected_logs: parse_hash(&post["logs"])?,
        expect_exception: post.get("expectException").and_then(|e| e.as_str()).map(|s| s.to_string()),
    })
}

/// Every case of one state-test file (unparsable files and cases are skipped).
pub fn load_file(path: &Path) -> Vec<VectorCase> {
    let mut out = vec![];
    let Ok(txt) = std::fs::read_to_string(path) else { return out };
    let Ok(v) = serde_json::from_str::<Value>(&txt) else { return out };
    let Some(obj) = v.as_object() else { return out };
    for (name, unit) in obj {
        let Ok(pre) = parse_world(&unit["pre"]) else { continue };
        let Some(posts) = unit["post"].as_object() else { continue };
        for (fork_name, list) in posts {
            for (i, post) in list.as_array().cloned().unwrap_or_default().iter().enumerate() {
                if let Ok(c) = build_case(name, fork_name, i, unit, &pre, post) {
                    out.push(c);
                }
            }
        }
    }
    out
}
