pub mod types; pub use types::*;
