//! refevm: an independent, deliberately plain reference implementation of the (legacy, non-EOF)
//! Ethereum Virtual Machine for the forks Frontier..Prague, written from the Yellow Paper, the
//! EIPs and the execution-specs.  It is used as a differential-testing oracle.
pub mod arith;
pub mod gas;
pub mod interp;
pub mod state;
pub mod tx;
pub mod types;
pub mod util;

pub use tx::{blob_gas_price, effective_gas_price, execute, floor_gas, intrinsic_gas, validate};
pub use types::*;
pub use util::{create2_address, create_address, default_block_hash, keccak256, logs_hash, state_root, storage_root};
pub mod vectors;
