//! Gas constants and the per-fork schedule.
use crate::types::*;

pub const G_ZERO: u64 = 0;
pub const G_JUMPDEST: u64 = 1;
pub const G_BASE: u64 = 2;
pub const G_VERYLOW: u64 = 3;
pub const G_LOW: u64 = 5;
pub const G_MID: u64 = 8;
pub const G_HIGH: u64 = 10;
pub const G_EXP: u64 = 10;
pub const G_KECCAK: u64 = 30;
pub const G_KECCAK_WORD: u64 = 6;
pub const G_COPY_WORD: u64 = 3;
pub const G_BLOCKHASH: u64 = 20;
pub const G_LOG: u64 = 375;
pub const G_LOG_TOPIC: u64 = 375;
pub const G_LOG_DATA: u64 = 8;
pub const G_CREATE: u64 = 32000;
pub const G_CODE_DEPOSIT: u64 = 200;
pub const G_CALL_VALUE: u64 = 9000;
pub const G_CALL_STIPEND: u64 = 2300;
pub const G_NEW_ACCOUNT: u64 = 25000;
pub const G_SSTORE_SET: u64 = 20000;
pub const G_SSTORE_RESET: u64 = 5000;
pub const R_SSTORE_CLEAR: u64 = 15000;
pub const R_SELFDESTRUCT: u64 = 24000;
pub const G_SELFDESTRUCT: u64 = 5000;
pub const G_INITCODE_WORD: u64 = 2;
pub const G_MEMORY: u64 = 3;
// EIP-2929
pub const G_COLD_SLOAD: u64 = 2100;
pub const G_COLD_ACCOUNT: u64 = 2600;
pub const G_WARM_ACCESS: u64 = 100;
// EIP-1153 / 5656 / 4844
pub const G_TLOAD: u64 = 100;
pub const G_TSTORE: u64 = 100;
pub const G_BLOBHASH: u64 = 3;
// Transactions
pub const G_TX: u64 = 21000;
pub const G_TX_CREATE: u64 = 32000;
pub const G_TX_DATA_ZERO: u64 = 4;
pub const G_TX_ACCESS_LIST_ADDRESS: u64 = 2400;
pub const G_TX_ACCESS_LIST_KEY: u64 = 1900;
pub const G_PER_EMPTY_ACCOUNT: u64 = 25000;
pub const G_PER_AUTH_BASE: u64 = 12500;
pub const G_FLOOR_TOKEN: u64 = 10;
pub const G_STANDARD_TOKEN: u64 = 4;
pub const GAS_PER_BLOB: u64 = 131072;

pub const MAX_CODE_SIZE: usize = 24576;
pub const MAX_INITCODE_SIZE: usize = 2 * MAX_CODE_SIZE;
pub const STACK_LIMIT: usize = 1024;
pub const CALL_DEPTH_LIMIT: usize = 1024;

impl Fork {
    pub fn is(self, at_least: Fork) -> bool {
        self >= at_least
    }

    pub fn g_sload(self) -> u64 {
        if self.is(Fork::Istanbul) {
            800
        } else if self.is(Fork::Tangerine) {
            200
        } else {
            50
        }
    }

    pub fn g_balance(self) -> u64 {
        if self.is(Fork::Istanbul) {
            700
        } else if self.is(Fork::Tangerine) {
            400
        } else {
            20
        }
    }

    /// EXTCODESIZE and the base of EXTCODECOPY.
    pub fn g_extcode(self) -> u64 {
        if self.is(Fork::Tangerine) {
            700
        } else {
            20
        }
    }

    pub fn g_extcodehash(self) -> u64 {
        if self.is(Fork::Istanbul) {
            700
        } else {
            400
        }
    }

    pub fn g_call(self) -> u64 {
        if self.is(Fork::Tangerine) {
            700
        } else {
            40
        }
    }

    pub fn g_exp_byte(self) -> u64 {
        if self.is(Fork::SpuriousDragon) {
            50
        } else {
            10
        }
    }

    pub fn g_tx_data_nonzero(self) -> u64 {
        if self.is(Fork::Istanbul) {
            16
        } else {
            68
        }
    }

    pub fn sstore_clear_refund(self) -> u64 {
        if self.is(Fork::London) {
            4800 // EIP-3529: SSTORE_RESET_GAS + ACCESS_LIST_STORAGE_KEY_COST
        } else {
            R_SSTORE_CLEAR
        }
    }

    pub fn max_refund_quotient(self) -> u64 {
        if self.is(Fork::London) {
            5
        } else {
            2
        }
    }

    pub fn max_blobs_per_tx(self) -> usize {
        if self.is(Fork::Prague) {
            9
        } else {
            6
        }
    }

    pub fn blob_base_fee_update_fraction(self) -> u64 {
        if self.is(Fork::Prague) {
            5007716 // EIP-7691
        } else {
            3338477
        }
    }

    /// The activation table of precompiled contracts.
    pub fn is_precompile(self, a: &Address) -> bool {
        if a[..19] != [0u8; 19] {
            return false;
        }
        let n = a[19];
        let max = if self.is(Fork::Prague) {
            0x11
        } else if self.is(Fork::Cancun) {
            0x0a
        } else if self.is(Fork::Istanbul) {
            0x09
        } else if self.is(Fork::Byzantium) {
            0x08
        } else {
            0x04
        };
        n >= 1 && n <= max
    }

    pub fn precompile_addresses(self) -> Vec<Address> {
        (1u8..=0x11)
            .map(|n| {
                let mut a = [0u8; 20];
                a[19] = n;
                a
            })
            .filter(|a| self.is_precompile(a))
            .collect()
    }

    /// Is `op` an assigned opcode in this fork?
    pub fn has_opcode(self, op: u8) -> bool {
        match op {
            0x00..=0x0b => true,
            0x10..=0x1a => true,
            0x1b..=0x1d => self.is(Fork::Petersburg),
            0x20 => true,
            0x30..=0x3c => true,
            0x3d | 0x3e => self.is(Fork::Byzantium),
            0x3f => self.is(Fork::Petersburg),
            0x40..=0x45 => true,
            0x46 | 0x47 => self.is(Fork::Istanbul),
            0x48 => self.is(Fork::London),
            0x49 | 0x4a => self.is(Fork::Cancun),
            0x50..=0x5b => true,
            0x5c..=0x5e => self.is(Fork::Cancun),
            0x5f => self.is(Fork::Shanghai),
            0x60..=0x9f => true,
            0xa0..=0xa4 => true,
            0xf0..=0xf3 => true,
            0xf4 => self.is(Fork::Homestead),
            0xf5 => self.is(Fork::Petersburg),
            0xfa | 0xfd => self.is(Fork::Byzantium),
            0xff => true,
            _ => false,
        }
    }
}

/// Words needed for `bytes` bytes.
pub fn words(bytes: u64) -> u64 {
    bytes / 32 + (bytes % 32 != 0) as u64
}

/// Total memory cost for `w` words: 3w + w^2/512 (saturating at u64::MAX, i.e. unaffordable).
pub fn memory_cost(w: u64) -> u64 {
    let w = w as u128;
    let c = G_MEMORY as u128 * w + w * w / 512;
    if c > u64::MAX as u128 {
        u64::MAX
    } else {
        c as u64
    }
}
