//! Plain data types of the reference EVM (shared with the generators; no revm types).
pub use primitive_types::U256;
use serde::{Deserialize, Serialize};
use std::collections::BTreeMap;

pub type Address = [u8; 20];
pub type Hash = [u8; 32];

/// Mainnet rule sets, ordered by activation.
#[derive(Clone, Copy, Debug, PartialEq, Eq, PartialOrd, Ord, Hash, Serialize, Deserialize)]
pub enum Fork {
    Frontier,
    Homestead,
    Tangerine,
    SpuriousDragon,
    Byzantium,
    /// Constantinople as activated on mainnet (== Petersburg: EIP-1283 removed).
    Petersburg,
    Istanbul,
    Berlin,
    London,
    /// The Merge (Paris).
    Merge,
    Shanghai,
    Cancun,
    Prague,
}

impl Fork {
    pub const ALL: [Fork; 13] = [
        Fork::Frontier,
        Fork::Homestead,
        Fork::Tangerine,
        Fork::SpuriousDragon,
        Fork::Byzantium,
        Fork::Petersburg,
        Fork::Istanbul,
        Fork::Berlin,
        Fork::London,
        Fork::Merge,
        Fork::Shanghai,
        Fork::Cancun,
        Fork::Prague,
    ];
}

#[derive(Clone, Debug, Default, PartialEq, Eq, Serialize, Deserialize)]
pub struct Account {
    pub balance: U256,
    pub nonce: u64,
    pub code: Vec<u8>,
    /// Only non-zero slots are stored.
    pub storage: BTreeMap<U256, U256>,
}

impl Account {
    /// EIP-161 emptiness.
    pub fn is_empty(&self) -> bool {
        self.balance.is_zero() && self.nonce == 0 && self.code.is_empty()
    }
}

/// World state: an address is *existing* iff it is a key of the map.
pub type World = BTreeMap<Address, Account>;

#[derive(Clone, Debug, PartialEq, Eq, Serialize, Deserialize)]
pub struct Block {
    pub number: u64,
    pub coinbase: Address,
    pub timestamp: u64,
    pub gas_limit: u64,
    /// Ignored before London.
    pub base_fee: U256,
    /// DIFFICULTY before the Merge.
    pub difficulty: U256,
    /// PREVRANDAO from the Merge.
    pub prev_randao: Hash,
    /// From Cancun.  The blob gas price is derived from it by the reference itself.
    pub excess_blob_gas: u64,
    pub chain_id: u64,
    /// Known ancestor hashes; BLOCKHASH of an in-window number absent from this map is
    /// `default_block_hash(number)`.
    pub block_hashes: BTreeMap<u64, Hash>,
}

#[derive(Clone, Debug, PartialEq, Eq, Serialize, Deserialize)]
pub struct Authorization {
    pub chain_id: U256,
    pub address: Address,
    pub nonce: u64,
    /// Recovered signer; `None` = signature invalid (tuple skipped).
    pub authority: Option<Address>,
}

#[derive(Clone, Copy, Debug, PartialEq, Eq, Hash, Serialize, Deserialize)]
pub enum TxType {
    Legacy,
    Eip2930,
    Eip1559,
    Eip4844,
    Eip7702,
}

#[derive(Clone, Debug, PartialEq, Eq, Serialize, Deserialize)]
pub struct Tx {
    pub tx_type: TxType,
    pub caller: Address,
    /// `None` = contract creation.
    pub to: Option<Address>,
    pub value: U256,
    pub data: Vec<u8>,
    pub gas_limit: u64,
    /// Legacy/2930: gas price.  1559+: max_fee_per_gas.
    pub gas_price: U256,
    /// 1559+: max_priority_fee_per_gas (`None` for legacy/2930).
    pub max_priority_fee: Option<U256>,
    /// `None` = nonce check disabled (the reference then uses the account nonce).
    pub nonce: Option<u64>,
    /// `None` = chain-id check disabled.
    pub chain_id: Option<u64>,
    pub access_list: Vec<(Address, Vec<U256>)>,
    pub blob_hashes: Vec<Hash>,
    pub max_fee_per_blob_gas: U256,
    pub authorization_list: Vec<Authorization>,
}

#[derive(Clone, Debug, PartialEq, Eq, Serialize, Deserialize)]
pub struct Log {
    pub address: Address,
    pub topics: Vec<Hash>,
    pub data: Vec<u8>,
}

#[derive(Clone, Copy, Debug, PartialEq, Eq, Hash, Serialize, Deserialize)]
pub enum Status {
    Success,
    Revert,
    /// Exceptional halt (all gas consumed).
    Halt,
}

#[derive(Clone, Debug, PartialEq, Eq)]
pub struct Executed {
    pub status: Status,
    /// Gas charged to the sender after refunds (and after the EIP-7623 floor).
    pub gas_used: u64,
    /// Refund actually granted (after the cap).
    pub gas_refunded: u64,
    /// Return data of the top frame (runtime code is NOT the output of a create tx: for a
    /// successful create transaction this is the deployed code, as execution clients report).
    pub output: Vec<u8>,
    pub logs: Vec<Log>,
    /// Address a create transaction deployed to (set on success only).
    pub created: Option<Address>,
    pub post: World,
}

#[derive(Clone, Debug, PartialEq, Eq)]
pub enum TxOutcome {
    /// The transaction is invalid; the state is unchanged.  The string names the rule.
    Rejected(String),
    Executed(Executed),
}

/// Result of one precompile invocation, provided by the embedder.
#[derive(Clone, Debug, PartialEq, Eq)]
pub enum PrecompileResult {
    Ok { gas_used: u64, output: Vec<u8> },
    /// Failure of any kind (out of gas, malformed input): the call fails and consumes all gas
    /// passed to it.
    Fail,
}

/// What the embedder supplies.
pub trait Externals {
    /// Run the precompile living at `address` (the reference has already decided, by its own
    /// activation table, that `address` is a precompile in `fork`).
    fn precompile(&self, fork: Fork, address: Address, input: &[u8], gas_limit: u64) -> PrecompileResult;
}

/// Optional per-instruction observer (used for trace diffing).
pub trait Tracer {
    /// Called before each instruction executes.  `depth` is 0 for the transaction's top frame.
    fn step(&mut self, _depth: usize, _pc: usize, _op: u8, _gas_left: u64, _stack: &[U256], _mem_len: usize) {}
}

pub struct NoTracer;
impl Tracer for NoTracer {}
