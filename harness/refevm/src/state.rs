//! Transaction-scoped state with an undo journal.
//!
//! Everything a frame can modify and that must be restored when the frame fails lives here:
//! the world, the EIP-2929 access sets, EIP-1153 transient storage, the refund counter, the
//! logs, the selfdestruct set, the created-in-this-transaction set and the touched set.
//! A snapshot is simply the journal length; reverting pops and undoes entries.
use crate::types::*;
use primitive_types::U256;
use std::collections::{BTreeMap, BTreeSet};

pub const RIPEMD_ADDRESS: Address = [0, 0, 0, 0, 0, 0, 0, 0, 0, 0, 0, 0, 0, 0, 0, 0, 0, 0, 0, 3];

enum Entry {
    /// The account did not exist before and was inserted (undo = remove).
    Inserted(Address),
    /// The whole account was replaced or removed (undo = put the old value back).
    Replaced(Address, Option<Box<Account>>),
    Balance(Address, U256),
    Nonce(Address, u64),
    Code(Address, Vec<u8>),
    Storage(Address, U256, U256),
    Transient(Address, U256, U256),
    WarmAddress(Address),
    WarmSlot(Address, U256),
    Refund(i64),
    Log,
    SelfDestructed(Address),
    Created(Address),
    Touched(Address),
}

pub struct State<'a> {
    /// The pre-state: source of the "original" storage values of EIP-2200.
    pub pre: &'a World,
    pub world: World,
    pub warm_addresses: BTreeSet<Address>,
    pub warm_slots: BTreeSet<(Address, U256)>,
    pub transient: BTreeMap<(Address, U256), U256>,
    /// May be transiently negative inside a transaction under EIP-2200 (never at the end).
    pub refund: i64,
    pub logs: Vec<Log>,
    pub selfdestructed: BTreeSet<Address>,
    pub created: BTreeSet<Address>,
    pub touched: BTreeSet<Address>,
    journal: Vec<Entry>,
}

impl<'a> State<'a> {
    pub fn new(pre: &'a World) -> Self {
        State {
            pre,
            world: pre.clone(),
            warm_addresses: BTreeSet::new(),
            warm_slots: BTreeSet::new(),
            transient: BTreeMap::new(),
            refund: 0,
            logs: Vec::new(),
            selfdestructed: BTreeSet::new(),
            created: BTreeSet::new(),
            touched: BTreeSet::new(),
            journal: Vec::new(),
        }
    }

    // ----- snapshots -------------------------------------------------------------------------

    pub fn snapshot(&self) -> usize {
        self.journal.len()
    }

    pub fn revert(&mut self, snapshot: usize) {
        while self.journal.len() > snapshot {
            match self.journal.pop().unwrap() {
                Entry::Inserted(a) => {
                    self.world.remove(&a);
                }
                Entry::Replaced(a, old) => match old {
                    Some(acc) => {
                        self.world.insert(a, *acc);
                    }
                    None => {
                        self.world.remove(&a);
                    }
                },
                Entry::Balance(a, v) => self.world.get_mut(&a).unwrap().balance = v,
                Entry::Nonce(a, v) => self.world.get_mut(&a).unwrap().nonce = v,
                Entry::Code(a, v) => self.world.get_mut(&a).unwrap().code = v,
                Entry::Storage(a, k, v) => {
                    let acc = self.world.get_mut(&a).unwrap();
                    if v.is_zero() {
                        acc.storage.remove(&k);
                    } else {
                        acc.storage.insert(k, v);
                    }
                }
                Entry::Transient(a, k, v) => {
                    if v.is_zero() {
                        self.transient.remove(&(a, k));
                    } else {
                        self.transient.insert((a, k), v);
                    }
                }
                Entry::WarmAddress(a) => {
                    self.warm_addresses.remove(&a);
                }
                Entry::WarmSlot(a, k) => {
                    self.warm_slots.remove(&(a, k));
                }
                Entry::Refund(v) => self.refund = v,
                Entry::Log => {
                    self.logs.pop();
                }
                Entry::SelfDestructed(a) => {
                    self.selfdestructed.remove(&a);
                }
                Entry::Created(a) => {
                    self.created.remove(&a);
                }
                Entry::Touched(a) => {
                    self.touched.remove(&a);
                }
            }
        }
    }

    /// Revert of a *child* message.  Identical to `revert` except for the historical exception
    /// kept by the execution-specs (`incorporate_child_on_error`): a touch of the RIPEMD-160
    /// precompile (0x03) made inside the failed child survives in the parent.
    pub fn revert_child(&mut self, snapshot: usize) {
        let ripemd_touched = self.touched.contains(&RIPEMD_ADDRESS);
        self.revert(snapshot);
        if ripemd_touched {
            self.touch(RIPEMD_ADDRESS);
        }
    }

    // ----- reads -----------------------------------------------------------------------------

    pub fn exists(&self, a: &Address) -> bool {
        self.world.contains_key(a)
    }

    /// Exists and is not EIP-161-empty.
    pub fn is_alive(&self, a: &Address) -> bool {
        self.world.get(a).map_or(false, |acc| !acc.is_empty())
    }

    pub fn balance(&self, a: &Address) -> U256 {
        self.world.get(a).map_or(U256::zero(), |acc| acc.balance)
    }

    pub fn nonce(&self, a: &Address) -> u64 {
        self.world.get(a).map_or(0, |acc| acc.nonce)
    }

    pub fn code(&self, a: &Address) -> &[u8] {
        self.world.get(a).map_or(&[][..], |acc| &acc.code[..])
    }

    pub fn has_storage(&self, a: &Address) -> bool {
        self.world.get(a).map_or(false, |acc| !acc.storage.is_empty())
    }

    pub fn storage(&self, a: &Address, k: &U256) -> U256 {
        self.world.get(a).and_then(|acc| acc.storage.get(k).copied()).unwrap_or_default()
    }

    /// Value of the slot at the start of the transaction (zero for accounts created in it).
    pub fn original_storage(&self, a: &Address, k: &U256) -> U256 {
        if self.created.contains(a) {
            return U256::zero();
        }
        self.pre.get(a).and_then(|acc| acc.storage.get(k).copied()).unwrap_or_default()
    }

    pub fn transient(&self, a: &Address, k: &U256) -> U256 {
        self.transient.get(&(*a, *k)).copied().unwrap_or_default()
    }

    // ----- writes ----------------------------------------------------------------------------

    /// Make sure the account exists (as an empty account if it did not).
    pub fn ensure_exists(&mut self, a: Address) {
        if !self.world.contains_key(&a) {
            self.world.insert(a, Account::default());
            self.journal.push(Entry::Inserted(a));
        }
    }

    pub fn set_balance(&mut self, a: Address, v: U256) {
        self.ensure_exists(a);
        let acc = self.world.get_mut(&a).unwrap();
        if acc.balance != v {
            self.journal.push(Entry::Balance(a, acc.balance));
            acc.balance = v;
        }
    }

    pub fn set_nonce(&mut self, a: Address, v: u64) {
        self.ensure_exists(a);
        let acc = self.world.get_mut(&a).unwrap();
        if acc.nonce != v {
            self.journal.push(Entry::Nonce(a, acc.nonce));
            acc.nonce = v;
        }
    }

    pub fn set_code(&mut self, a: Address, code: Vec<u8>) {
        self.ensure_exists(a);
        let acc = self.world.get_mut(&a).unwrap();
        let old = std::mem::replace(&mut acc.code, code);
        self.journal.push(Entry::Code(a, old));
    }

    pub fn set_storage(&mut self, a: Address, k: U256, v: U256) {
        self.ensure_exists(a);
        let acc = self.world.get_mut(&a).unwrap();
        let old = acc.storage.get(&k).copied().unwrap_or_default();
        if old != v {
            self.journal.push(Entry::Storage(a, k, old));
            if v.is_zero() {
                acc.storage.remove(&k);
            } else {
                acc.storage.insert(k, v);
            }
        }
    }

    pub fn set_transient(&mut self, a: Address, k: U256, v: U256) {
        let old = self.transient(&a, &k);
        if old != v {
            self.journal.push(Entry::Transient(a, k, old));
            if v.is_zero() {
                self.transient.remove(&(a, k));
            } else {
                self.transient.insert((a, k), v);
            }
        }
    }

    /// Remove the account entirely (journaled).
    pub fn destroy(&mut self, a: Address) {
        if let Some(old) = self.world.remove(&a) {
            self.journal.push(Entry::Replaced(a, Some(Box::new(old))));
        }
    }

    /// Returns true if the address was already warm.
    pub fn warm_address(&mut self, a: Address) -> bool {
        if self.warm_addresses.insert(a) {
            self.journal.push(Entry::WarmAddress(a));
            false
        } else {
            true
        }
    }

    /// Returns true if the slot was already warm.
    pub fn warm_slot(&mut self, a: Address, k: U256) -> bool {
        if self.warm_slots.insert((a, k)) {
            self.journal.push(Entry::WarmSlot(a, k));
            false
        } else {
            true
        }
    }

    pub fn add_refund(&mut self, delta: i64) {
        self.journal.push(Entry::Refund(self.refund));
        self.refund = self.refund.saturating_add(delta);
    }

    pub fn add_log(&mut self, log: Log) {
        self.logs.push(log);
        self.journal.push(Entry::Log);
    }

    pub fn mark_selfdestructed(&mut self, a: Address) {
        if self.selfdestructed.insert(a) {
            self.journal.push(Entry::SelfDestructed(a));
        }
    }

    pub fn mark_created(&mut self, a: Address) {
        if self.created.insert(a) {
            self.journal.push(Entry::Created(a));
        }
    }

    pub fn touch(&mut self, a: Address) {
        if self.touched.insert(a) {
            self.journal.push(Entry::Touched(a));
        }
    }
}
