//! Hashing, RLP, address derivation and state-root helpers.
use crate::types::*;
use primitive_types::U256;
use rlp::RlpStream;
use sha3::{Digest, Keccak256};

pub fn keccak256(data: &[u8]) -> Hash {
    let mut h = Keccak256::new();
    h.update(data);
    h.finalize().into()
}

/// keccak256 of the empty string.
pub const EMPTY_CODE_HASH: Hash = [
    0xc5, 0xd2, 0x46, 0x01, 0x86, 0xf7, 0x23, 0x3c, 0x92, 0x7e, 0x7d, 0xb2, 0xdc, 0xc7, 0x03, 0xc0, 0xe5, 0x00, 0xb6,
    0x53, 0xca, 0x82, 0x27, 0x3b, 0x7b, 0xfa, 0xd8, 0x04, 0x5d, 0x85, 0xa4, 0x70,
];

pub fn u256_to_hash(v: U256) -> Hash {
    let mut out = [0u8; 32];
    v.to_big_endian(&mut out);
    out
}

pub fn hash_to_u256(h: &Hash) -> U256 {
    U256::from_big_endian(h)
}

pub fn address_to_u256(a: &Address) -> U256 {
    U256::from_big_endian(a)
}

pub fn u256_to_address(v: U256) -> Address {
    let h = u256_to_hash(v);
    let mut a = [0u8; 20];
    a.copy_from_slice(&h[12..]);
    a
}

/// Address of a contract created by `sender` whose nonce (before the increment) is `nonce`:
/// keccak256(rlp([sender, nonce]))[12..].
pub fn create_address(sender: Address, nonce: u64) -> Address {
    let mut s = RlpStream::new_list(2);
    s.append(&&sender[..]);
    s.append(&nonce);
    let h = keccak256(&s.out());
    let mut a = [0u8; 20];
    a.copy_from_slice(&h[12..]);
    a
}

/// EIP-1014: keccak256(0xff ++ sender ++ salt ++ keccak256(initcode))[12..].
pub fn create2_address(sender: Address, salt: U256, initcode: &[u8]) -> Address {
    let mut buf = Vec::with_capacity(85);
    buf.push(0xff);
    buf.extend_from_slice(&sender);
    buf.extend_from_slice(&u256_to_hash(salt));
    buf.extend_from_slice(&keccak256(initcode));
    let h = keccak256(&buf);
    let mut a = [0u8; 20];
    a.copy_from_slice(&h[12..]);
    a
}

/// The block hash the state tests use for ancestors: keccak256 of the decimal string.
pub fn default_block_hash(number: u64) -> Hash {
    keccak256(number.to_string().as_bytes())
}

#[derive(Default, Debug, Clone, PartialEq, Eq, Hash)]
struct KeccakHasher;

impl hash_db::Hasher for KeccakHasher {
    type Out = [u8; 32];
    type StdHasher = plain_hasher::PlainHasher;
    const LENGTH: usize = 32;
    fn hash(x: &[u8]) -> Self::Out {
        keccak256(x)
    }
}

pub fn storage_root(storage: &std::collections::BTreeMap<U256, U256>) -> Hash {
    triehash::sec_trie_root::<KeccakHasher, _, _, _>(
        storage.iter().filter(|(_, v)| !v.is_zero()).map(|(k, v)| (u256_to_hash(*k), rlp::encode(v).to_vec())),
    )
}

/// Secure Merkle-Patricia root of the world: keccak(address) -> rlp([nonce, balance,
/// storage_root, code_hash]).
pub fn state_root(world: &World) -> Hash {
    triehash::sec_trie_root::<KeccakHasher, _, _, _>(world.iter().map(|(addr, acc)| {
        let mut s = RlpStream::new_list(4);
        s.append(&acc.nonce);
        s.append(&acc.balance);
        s.append(&&storage_root(&acc.storage)[..]);
        s.append(&&keccak256(&acc.code)[..]);
        (*addr, s.out().to_vec())
    }))
}

/// keccak256(rlp([[address, [topic...], data]...])).
pub fn logs_hash(logs: &[Log]) -> Hash {
    let mut s = RlpStream::new_list(logs.len());
    for log in logs {
        s.begin_list(3);
        s.append(&&log.address[..]);
        s.begin_list(log.topics.len());
        for t in &log.topics {
            s.append(&&t[..]);
        }
        s.append(&&log.data[..]);
    }
    keccak256(&s.out())
}
