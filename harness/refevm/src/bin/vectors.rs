//! refevm-vectors: run execution-spec state-test vectors against refevm.
//!
//! usage: refevm-vectors <dir-or-file>... [--fork X] [--filter substr] [--limit N]
//!                       [--sample K/SEED] [--debug] [--trace]
use primitive_types::U256;
use refevm::*;
use serde_json::Value;
use std::cell::Cell;
use std::collections::BTreeMap;
use std::path::{Path, PathBuf};

/// Vectors that encode the superseded devnet-5 EXTCODE* rule for delegated accounts
/// (size 2 / keccak(0xef01)); refevm implements the final EIP-7702 rule (23-byte designator).
const EXPECTED_FAIL_FILES: [&str; 4] = [
    "ext_code_on_chain_delegating_set_code.json",
    "ext_code_on_self_delegating_set_code.json",
    "ext_code_on_self_set_code.json",
    "ext_code_on_set_code.json",
];

// ----- natively implemented precompiles ---------------------------------------------------------

fn sha256(data: &[u8]) -> [u8; 32] {
    const K: [u32; 64] = [
        0x428a2f98, 0x71374491, 0xb5c0fbcf, 0xe9b5dba5, 0x3956c25b, 0x59f111f1, 0x923f82a4, 0xab1c5ed5, 0xd807aa98,
        0x12835b01, 0x243185be, 0x550c7dc3, 0x72be5d74, 0x80deb1fe, 0x9bdc06a7, 0xc19bf174, 0xe49b69c1, 0xefbe4786,
        0x0fc19dc6, 0x240ca1cc, 0x2de92c6f, 0x4a7484aa, 0x5cb0a9dc, 0x76f988da, 0x983e5152, 0xa831c66d, 0xb00327c8,
        0xbf597fc7, 0xc6e00bf3, 0xd5a79147, 0x06ca6351, 0x14292967, 0x27b70a85, 0x2e1b2138, 0x4d2c6dfc, 0x53380d13,
        0x650a7354, 0x766a0abb, 0x81c2c92e, 0x92722c85, 0xa2bfe8a1, 0xa81a664b, 0xc24b8b70, 0xc76c51a3, 0xd192e819,
        0xd6990624, 0xf40e3585, 0x106aa070, 0x19a4c116, 0x1e376c08, 0x2748774c, 0x34b0bcb5, 0x391c0cb3, 0x4ed8aa4a,
        0x5b9cca4f, 0x682e6ff3, 0x748f82ee, 0x78a5636f, 0x84c87814, 0x8cc70208, 0x90befffa, 0xa4506ceb, 0xbef9a3f7,
        0xc67178f2,
    ];
    let mut h: [u32; 8] =
        [0x6a09e667, 0xbb67ae85, 0x3c6ef372, 0xa54ff53a, 0x510e527f, 0x9b05688c, 0x1f83d9ab, 0x5be0cd19];
    let mut msg = data.to_vec();
    msg.push(0x80);
    while msg.len() % 64 != 56 {
        msg.push(0);
    }
    msg.extend_from_slice(&((data.len() as u64) * 8).to_be_bytes());
    for chunk in msg.chunks(64) {
        let mut w = [0u32; 64];
        for i in 0..16 {
            w[i] = u32::from_be_bytes([chunk[4 * i], chunk[4 * i + 1], chunk[4 * i + 2], chunk[4 * i + 3]]);
        }
        for i in 16..64 {
            let s0 = w[i - 15].rotate_right(7) ^ w[i - 15].rotate_right(18) ^ (w[i - 15] >> 3);
            let s1 = w[i - 2].rotate_right(17) ^ w[i - 2].rotate_right(19) ^ (w[i - 2] >> 10);
            w[i] = w[i - 16].wrapping_add(s0).wrapping_add(w[i - 7]).wrapping_add(s1);
        }
        let mut v = h;
        for i in 0..64 {
            let s1 = v[4].rotate_right(6) ^ v[4].rotate_right(11) ^ v[4].rotate_right(25);
            let ch = (v[4] & v[5]) ^ (!v[4] & v[6]);
            let t1 = v[7].wrapping_add(s1).wrapping_add(ch).wrapping_add(K[i]).wrapping_add(w[i]);
            let s0 = v[0].rotate_right(2) ^ v[0].rotate_right(13) ^ v[0].rotate_right(22);
            let maj = (v[0] & v[1]) ^ (v[0] & v[2]) ^ (v[1] & v[2]);
            let t2 = s0.wrapping_add(maj);
            v = [t1.wrapping_add(t2), v[0], v[1], v[2], v[3].wrapping_add(t1), v[4], v[5], v[6]];
        }
        for i in 0..8 {
            h[i] = h[i].wrapping_add(v[i]);
        }
    }
    let mut out = [0u8; 32];
    for i in 0..8 {
        out[4 * i..4 * i + 4].copy_from_slice(&h[i].to_be_bytes());
    }
    out
}

fn ripemd160(data: &[u8]) -> [u8; 20] {
    const RL: [usize; 80] = [
        0, 1, 2, 3, 4, 5, 6, 7, 8, 9, 10, 11, 12, 13, 14, 15, 7, 4, 13, 1, 10, 6, 15, 3, 12, 0, 9, 5, 2, 14, 11, 8, 3,
        10, 14, 4, 9, 15, 8, 1, 2, 7, 0, 6, 13, 11, 5, 12, 1, 9, 11, 10, 0, 8, 12, 4, 13, 3, 7, 15, 14, 5, 6, 2, 4, 0,
        5, 9, 7, 12, 2, 10, 14, 1, 3, 8, 11, 6, 15, 13,
    ];
    const RR: [usize; 80] = [
        5, 14, 7, 0, 9, 2, 11, 4, 13, 6, 15, 8, 1, 10, 3, 12, 6, 11, 3, 7, 0, 13, 5, 10, 14, 15, 8, 12, 4, 9, 1, 2, 15,
        5, 1, 3, 7, 14, 6, 9, 11, 8, 12, 2, 10, 0, 4, 13, 8, 6, 4, 1, 3, 11, 15, 0, 5, 12, 2, 13, 9, 7, 10, 14, 12, 15,
        10, 4, 1, 5, 8, 7, 6, 2, 13, 14, 0, 3, 9, 11,
    ];
    const SL: [u32; 80] = [
        11, 14, 15, 12, 5, 8, 7, 9, 11, 13, 14, 15, 6, 7, 9, 8, 7, 6, 8, 13, 11, 9, 7, 15, 7, 12, 15, 9, 11, 7, 13, 12,
        11, 13, 6, 7, 14, 9, 13, 15, 14, 8, 13, 6, 5, 12, 7, 5, 11, 12, 14, 15, 14, 15, 9, 8, 9, 14, 5, 6, 8, 6, 5, 12,
        9, 15, 5, 11, 6, 8, 13, 12, 5, 12, 13, 14, 11, 8, 5, 6,
    ];
    const SR: [u32; 80] = [
        8, 9, 9, 11, 13, 15, 15, 5, 7, 7, 8, 11, 14, 14, 12, 6, 9, 13, 15, 7, 12, 8, 9, 11, 7, 7, 12, 7, 6, 15, 13, 11,
        9, 7, 15, 11, 8, 6, 6, 14, 12, 13, 5, 14, 13, 13, 7, 5, 15, 5, 8, 11, 14, 14, 6, 14, 6, 9, 12, 9, 12, 5, 15, 8,
        8, 5, 12, 9, 12, 5, 14, 6, 8, 13, 6, 5, 15, 13, 11, 11,
    ];
    const KL: [u32; 5] = [0x00000000, 0x5a827999, 0x6ed9eba1, 0x8f1bbcdc, 0xa953fd4e];
    const KR: [u32; 5] = [0x50a28be6, 0x5c4dd124, 0x6d703ef3, 0x7a6d76e9, 0x00000000];
    fn f(j: usize, x: u32, y: u32, z: u32) -> u32 {
        match j / 16 {
            0 => x ^ y ^ z,
            1 => (x & y) | (!x & z),
            2 => (x | !y) ^ z,
            3 => (x & z) | (y & !z),
            _ => x ^ (y | !z),
        }
    }
    let mut h: [u32; 5] = [0x67452301, 0xefcdab89, 0x98badcfe, 0x10325476, 0xc3d2e1f0];
    let mut msg = data.to_vec();
    msg.push(0x80);
    while msg.len() % 64 != 56 {
        msg.push(0);
    }
    msg.extend_from_slice(&((data.len() as u64) * 8).to_le_bytes());
    for chunk in msg.chunks(64) {
        let mut x = [0u32; 16];
        for i in 0..16 {
            x[i] = u32::from_le_bytes([chunk[4 * i], chunk[4 * i + 1], chunk[4 * i + 2], chunk[4 * i + 3]]);
        }
        let (mut al, mut bl, mut cl, mut dl, mut el) = (h[0], h[1], h[2], h[3], h[4]);
        let (mut ar, mut br, mut cr, mut dr, mut er) = (h[0], h[1], h[2], h[3], h[4]);
        for j in 0..80 {
            let t = al
                .wrapping_add(f(j, bl, cl, dl))
                .wrapping_add(x[RL[j]])
                .wrapping_add(KL[j / 16])
                .rotate_left(SL[j])
                .wrapping_add(el);
            al = el;
            el = dl;
            dl = cl.rotate_left(10);
            cl = bl;
            bl = t;
            let t = ar
                .wrapping_add(f(79 - j, br, cr, dr))
                .wrapping_add(x[RR[j]])
                .wrapping_add(KR[j / 16])
                .rotate_left(SR[j])
                .wrapping_add(er);
            ar = er;
            er = dr;
            dr = cr.rotate_left(10);
            cr = br;
            br = t;
        }
        let t = h[1].wrapping_add(cl).wrapping_add(dr);
        h[1] = h[2].wrapping_add(dl).wrapping_add(er);
        h[2] = h[3].wrapping_add(el).wrapping_add(ar);
        h[3] = h[4].wrapping_add(al).wrapping_add(br);
        h[4] = h[0].wrapping_add(bl).wrapping_add(cr);
        h[0] = t;
    }
    let mut out = [0u8; 20];
    for i in 0..5 {
        out[4 * i..4 * i + 4].copy_from_slice(&h[i].to_le_bytes());
    }
    out
}

/// Externals of the vectors binary: SHA-256, RIPEMD-160 and identity natively; everything
/// else fails and flags the case as "used an unsupported precompile".
struct VectorExternals {
    unsupported: Cell<bool>,
    /// Low byte of the first unsupported precompile address that was called.
    first_unsupported: Cell<u8>,
}

impl Externals for VectorExternals {
    fn precompile(&self, _fork: Fork, address: Address, input: &[u8], gas_limit: u64) -> PrecompileResult {
        let words = (input.len() as u64 + 31) / 32;
        let (cost, output) = match address[19] {
            2 => (60 + 12 * words, sha256(input).to_vec()),
            3 => {
                let mut out = vec![0u8; 32];
                out[12..].copy_from_slice(&ripemd160(input));
                (600 + 120 * words, out)
            }
            4 => (15 + 3 * words, input.to_vec()),
            n => {
                if !self.unsupported.get() {
                    self.first_unsupported.set(n);
                }
                self.unsupported.set(true);
                return PrecompileResult::Fail;
            }
        };
        if cost > gas_limit {
            PrecompileResult::Fail
        } else {
            PrecompileResult::Ok { gas_used: cost, output }
        }
    }
}

struct PrintTracer;
impl Tracer for PrintTracer {
    fn step(&mut self, depth: usize, pc: usize, op: u8, gas_left: u64, stack: &[U256], mem_len: usize) {
        let top: Vec<String> = stack.iter().rev().take(8).map(|v| format!("{:#x}", v)).collect();
        eprintln!("d={} pc={} op={:#04x} gas={} mem={} stack[{}]=[{}]", depth, pc, op, gas_left, mem_len, stack.len(), top.join(","));
    }
}

// ----- JSON helpers -----------------------------------------------------------------------------

fn strip0x(s: &str) -> &str {
    s.strip_prefix("0x").or_else(|| s.strip_prefix("0X")).unwrap_or(s)
}

fn parse_u256(v: &Value) -> Result<U256, String> {
    let s = v.as_str().ok_or_else(|| format!("expected string, got {}", v))?;
    if s.starts_with("0x") || s.starts_with("0X") {
        let h = strip0x(s);
        if h.is_empty() {
            return Ok(U256::zero());
        }
        if h.len() > 64 {
            return Err(format!("number too large: {}", s));
        }
        U256::from_str_radix(h, 16).map_err(|e| format!("bad number {}: {:?}", s, e))
    } else {
        U256::from_dec_str(s).map_err(|e| format!("bad number {}: {:?}", s, e))
    }
}

fn parse_u64(v: &Value) -> Result<u64, String> {
    let x = parse_u256(v)?;
    if x > U256::from(u64::MAX) {
        return Err(format!("does not fit u64: {}", v));
    }
    Ok(x.low_u64())
}

fn parse_bytes(v: &Value) -> Result<Vec<u8>, String> {
    let s = v.as_str().ok_or_else(|| format!("expected string, got {}", v))?;
    hex::decode(strip0x(s)).map_err(|e| format!("bad hex: {}", e))
}

fn parse_address(v: &Value) -> Result<Address, String> {
    let b = parse_bytes(v)?;
    if b.len() != 20 {
        return Err(format!("bad address {}", v));
    }
    let mut a = [0u8; 20];
    a.copy_from_slice(&b);
    Ok(a)
}

fn parse_hash(v: &Value) -> Result<Hash, String> {
    let b = parse_bytes(v)?;
    if b.len() != 32 {
        return Err(format!("bad hash {}", v));
    }
    let mut a = [0u8; 32];
    a.copy_from_slice(&b);
    Ok(a)
}

fn parse_world(v: &Value) -> Result<World, String> {
    let mut world = World::new();
    for (k, acc) in v.as_object().ok_or("pre is not an object")? {
        let address = parse_address(&Value::String(k.clone()))?;
        let mut storage = BTreeMap::new();
        if let Some(st) = acc.get("storage").and_then(|s| s.as_object()) {
            for (sk, sv) in st {
                let value = parse_u256(sv)?;
                if !value.is_zero() {
                    storage.insert(parse_u256(&Value::String(sk.clone()))?, value);
                }
            }
        }
        world.insert(
            address,
            Account {
                balance: parse_u256(&acc["balance"])?,
                nonce: parse_u64(&acc["nonce"])?,
                code: parse_bytes(&acc["code"])?,
                storage,
            },
        );
    }
    Ok(world)
}

fn fork_by_name(name: &str) -> Option<Fork> {
    Some(match name {
        "Frontier" => Fork::Frontier,
        "Homestead" => Fork::Homestead,
        "EIP150" => Fork::Tangerine,
        "EIP158" => Fork::SpuriousDragon,
        "Byzantium" => Fork::Byzantium,
        "ConstantinopleFix" | "Petersburg" => Fork::Petersburg,
        "Istanbul" => Fork::Istanbul,
        "Berlin" => Fork::Berlin,
        "London" => Fork::London,
        "Paris" | "Merge" => Fork::Merge,
        "Shanghai" => Fork::Shanghai,
        "Cancun" => Fork::Cancun,
        "Prague" => Fork::Prague,
        _ => return None,
    })
}

/// secp256k1 group order and its half (EIP-2 / EIP-7702 low-s rule).
fn secp256k1_n() -> U256 {
    U256::from_str_radix("fffffffffffffffffffffffffffffffebaaedce6af48a03bbfd25e8cd0364141", 16).unwrap()
}

fn parse_authorization(v: &Value) -> Result<Authorization, String> {
    let chain_id = parse_u256(&v["chainId"])?;
    let address = parse_address(&v["address"])?;
    let nonce256 = parse_u256(&v["nonce"])?;
    let y_parity = parse_u256(v.get("v").or_else(|| v.get("yParity")).ok_or("authorization without v")?)?;
    let r = parse_u256(&v["r"])?;
    let s = parse_u256(&v["s"])?;
    let n = secp256k1_n();
    let signature_well_formed =
        y_parity <= U256::one() && !r.is_zero() && r < n && !s.is_zero() && s <= n / 2 && nonce256 <= U256::from(u64::MAX);
    // No ECDSA here: the vectors carry the recovered `signer`; an absent signer means the
    // signature does not recover.
    let authority = match v.get("signer") {
        Some(sg) if signature_well_formed => Some(parse_address(sg)?),
        _ => None,
    };
    Ok(Authorization { chain_id, address, nonce: nonce256.low_u64(), authority })
}

// ----- running ----------------------------------------------------------------------------------

#[derive(Default, Clone, Copy)]
struct Tally {
    passed: usize,
    failed: usize,
    skipped: usize,
    expected_fail: usize,
}

struct Options {
    fork: Option<String>,
    filter: Option<String>,
    limit: Option<usize>,
    sample: Option<(u64, u64)>,
    debug: bool,
    trace: bool,
}

fn collect_files(path: &Path, out: &mut Vec<PathBuf>) {
    if path.is_dir() {
        let mut entries: Vec<PathBuf> = match std::fs::read_dir(path) {
            Ok(rd) => rd.filter_map(|e| e.ok().map(|e| e.path())).collect(),
            Err(_) => return,
        };
        entries.sort();
        for e in entries {
            collect_files(&e, out);
        }
    } else if path.extension().map_or(false, |e| e == "json") {
        out.push(path.to_path_buf());
    }
}

fn fnv(s: &str, seed: u64) -> u64 {
    let mut h = 0xcbf29ce484222325u64 ^ seed.wrapping_mul(0x9e3779b97f4a7c15);
    for b in s.bytes() {
        h ^= b as u64;
        h = h.wrapping_mul(0x100000001b3);
    }
    h ^ (h >> 29)
}

fn hex0x(b: &[u8]) -> String {
    format!("0x{}", hex::encode(b))
}

fn print_world_diff(got: &World, expected: &World) {
    let mut keys: Vec<&Address> = got.keys().chain(expected.keys()).collect();
    keys.sort();
    keys.dedup();
    for k in keys {
        match (got.get(k), expected.get(k)) {
            (Some(g), Some(e)) => {
                if g == e {
                    continue;
                }
                eprintln!("    account {}:", hex0x(k));
                if g.balance != e.balance {
                    eprintln!("      balance got {:#x} expected {:#x} (diff {})", g.balance, e.balance,
                        if g.balance > e.balance { format!("+{}", g.balance - e.balance) } else { format!("-{}", e.balance - g.balance) });
                }
                if g.nonce != e.nonce {
                    eprintln!("      nonce got {} expected {}", g.nonce, e.nonce);
                }
                if g.code != e.code {
                    eprintln!("      code got {} expected {}", hex0x(&g.code), hex0x(&e.code));
                }
                let mut sk: Vec<&U256> = g.storage.keys().chain(e.storage.keys()).collect();
                sk.sort();
                sk.dedup();
                for s in sk {
                    let (gv, ev) = (g.storage.get(s).copied().unwrap_or_default(), e.storage.get(s).copied().unwrap_or_default());
                    if gv != ev {
                        eprintln!("      storage[{:#x}] got {:#x} expected {:#x}", s, gv, ev);
                    }
                }
            }
            (Some(g), None) => eprintln!("    account {} unexpected: {:?}", hex0x(k), g),
            (None, Some(e)) => eprintln!("    account {} missing: {:?}", hex0x(k), e),
            (None, None) => {}
        }
    }
}

enum CaseResult {
    Pass,
    Fail(String),
    /// Skipped because this precompile (low address byte) is not implemented here.
    Skip(u8),
}

fn run_case(fork: Fork, unit: &Value, pre: &World, post: &Value, opts: &Options) -> Result<CaseResult, String> {
    let env = &unit["env"];
    let txv = &unit["transaction"];
    let idx = &post["indexes"];
    let (di, gi, vi) = (
        idx["data"].as_u64().ok_or("bad index")? as usize,
        idx["gas"].as_u64().ok_or("bad index")? as usize,
        idx["value"].as_u64().ok_or("bad index")? as usize,
    );

    let mut prev_randao = [0u8; 32];
    if let Some(r) = env.get("currentRandom") {
        prev_randao = parse_hash(r)?;
    }
    let block = Block {
        number: parse_u64(&env["currentNumber"])?,
        coinbase: parse_address(&env["currentCoinbase"])?,
        timestamp: parse_u64(&env["currentTimestamp"])?,
        gas_limit: parse_u64(&env["currentGasLimit"])?,
        base_fee: env.get("currentBaseFee").map(parse_u256).transpose()?.unwrap_or_default(),
        difficulty: env.get("currentDifficulty").map(parse_u256).transpose()?.unwrap_or_default(),
        prev_randao,
        excess_blob_gas: env.get("currentExcessBlobGas").map(parse_u64).transpose()?.unwrap_or(0),
        chain_id: 1,
        block_hashes: BTreeMap::new(),
    };

    // The transaction type is the first byte of the signed encoding.
    let txbytes = post.get("txbytes").map(parse_bytes).transpose()?.unwrap_or_default();
    let tx_type = match txbytes.first() {
        Some(1) => TxType::Eip2930,
        Some(2) => TxType::Eip1559,
        Some(3) => TxType::Eip4844,
        Some(4) => TxType::Eip7702,
        _ => TxType::Legacy,
    };
    let to = match txv.get("to").and_then(|t| t.as_str()) {
        None | Some("") => None,
        Some(s) => Some(parse_address(&Value::String(s.to_string()))?),
    };
    let mut access_list = Vec::new();
    if let Some(al) = txv.get("accessLists").and_then(|a| a.get(di)).and_then(|a| a.as_array()) {
        for item in al {
            let mut keys = Vec::new();
            for k in item["storageKeys"].as_array().ok_or("bad access list")? {
                keys.push(parse_u256(k)?);
            }
            access_list.push((parse_address(&item["address"])?, keys));
        }
    }
    let mut blob_hashes = Vec::new();
    if let Some(hs) = txv.get("blobVersionedHashes").and_then(|h| h.as_array()) {
        for h in hs {
            blob_hashes.push(parse_hash(h)?);
        }
    }
    let mut authorization_list = Vec::new();
    if let Some(list) = txv.get("authorizationList").and_then(|a| a.as_array()) {
        for a in list {
            authorization_list.push(parse_authorization(a)?);
        }
    }
    let gas_price = match (txv.get("gasPrice"), txv.get("maxFeePerGas")) {
        (Some(p), _) => parse_u256(p)?,
        (None, Some(p)) => parse_u256(p)?,
        _ => U256::zero(),
    };
    let gas_limit = parse_u256(&txv["gasLimit"][gi])?;
    let tx = Tx {
        tx_type,
        caller: parse_address(&txv["sender"])?,
        to,
        value: parse_u256(&txv["value"][vi])?,
        data: parse_bytes(&txv["data"][di])?,
        gas_limit: if gas_limit > U256::from(u64::MAX) { u64::MAX } else { gas_limit.low_u64() },
        gas_price,
        max_priority_fee: txv.get("maxPriorityFeePerGas").map(parse_u256).transpose()?,
        nonce: Some(parse_u64(&txv["nonce"])?),
        chain_id: Some(1),
        access_list,
        blob_hashes,
        max_fee_per_blob_gas: txv.get("maxFeePerBlobGas").map(parse_u256).transpose()?.unwrap_or_default(),
        authorization_list,
    };

    let expected_root = parse_hash(&post["hash"])?;
    let expected_logs = parse_hash(&post["logs"])?;
    let expect_exception = post.get("expectException").and_then(|e| e.as_str());

    let ext = VectorExternals { unsupported: Cell::new(false), first_unsupported: Cell::new(0) };
    let outcome = if opts.trace { execute(fork, &block, pre, &tx, &ext, &mut PrintTracer) } else { execute(fork, &block, pre, &tx, &ext, &mut NoTracer) };
    if ext.unsupported.get() {
        return Ok(CaseResult::Skip(ext.first_unsupported.get()));
    }
    match (&outcome, expect_exception) {
        (TxOutcome::Rejected(_), Some(_)) => {
            let root = state_root(pre);
            if root == expected_root {
                Ok(CaseResult::Pass)
            } else {
                Ok(CaseResult::Fail("rejected as expected but the pre-state root differs from `hash`".into()))
            }
        }
        (TxOutcome::Rejected(why), None) => Ok(CaseResult::Fail(format!("unexpectedly rejected: {}", why))),
        (TxOutcome::Executed(_), Some(e)) => Ok(CaseResult::Fail(format!("expected exception {} but executed", e))),
        (TxOutcome::Executed(ex), None) => {
            let root = state_root(&ex.post);
            let lh = logs_hash(&ex.logs);
            if root == expected_root && lh == expected_logs {
                return Ok(CaseResult::Pass);
            }
            let mut msg = String::new();
            if root != expected_root {
                msg += &format!("state root got {} expected {}; ", hex0x(&root), hex0x(&expected_root));
            }
            if lh != expected_logs {
                msg += &format!("logs hash got {} expected {}; ", hex0x(&lh), hex0x(&expected_logs));
            }
            msg += &format!("status {:?} gas_used {}", ex.status, ex.gas_used);
            if opts.debug {
                eprintln!("  FAIL detail: {}", msg);
                if let Some(st) = post.get("state") {
                    if let Ok(expected) = parse_world(st) {
                        print_world_diff(&ex.post, &expected);
                    }
                }
            }
            Ok(CaseResult::Fail(msg))
        }
    }
}

fn main() {
    let mut paths: Vec<PathBuf> = Vec::new();
    let mut opts = Options { fork: None, filter: None, limit: None, sample: None, debug: false, trace: false };
    let mut args = std::env::args().skip(1);
    while let Some(a) = args.next() {
        match a.as_str() {
            "--fork" => opts.fork = args.next(),
            "--filter" => opts.filter = args.next(),
            "--limit" => opts.limit = args.next().and_then(|s| s.parse().ok()),
            "--sample" => {
                let s = args.next().unwrap_or_default();
                let mut it = s.split('/');
                let k = it.next().and_then(|x| x.parse().ok()).unwrap_or(1u64).max(1);
                let seed = it.next().and_then(|x| x.parse().ok()).unwrap_or(0u64);
                opts.sample = Some((k, seed));
            }
            "--debug" => opts.debug = true,
            "--trace" => opts.trace = true,
            "-h" | "--help" => {
                println!("usage: refevm-vectors <dir-or-file>... [--fork X] [--filter substr] [--limit N] [--sample K/SEED] [--debug] [--trace]");
                return;
            }
            _ => paths.push(PathBuf::from(a)),
        }
    }
    if paths.is_empty() {
        eprintln!("usage: refevm-vectors <dir-or-file>... [--fork X] [--filter substr] [--limit N] [--sample K/SEED] [--debug] [--trace]");
        std::process::exit(2);
    }
    let mut files = Vec::new();
    for p in &paths {
        collect_files(p, &mut files);
    }

    let mut tallies: BTreeMap<Fork, Tally> = BTreeMap::new();
    let mut failures: Vec<String> = Vec::new();
    let mut expected_failures: Vec<String> = Vec::new();
    let mut notes: Vec<String> = Vec::new();
    let mut ignored_forks: BTreeMap<String, usize> = BTreeMap::new();
    let mut executed = 0usize;
    let mut skipped_by_precompile: BTreeMap<u8, usize> = BTreeMap::new();
    let started = std::time::Instant::now();

    'files: for file in &files {
        let file_name = file.file_name().and_then(|f| f.to_str()).unwrap_or("").to_string();
        let text = match std::fs::read_to_string(file) {
            Ok(t) => t,
            Err(e) => {
                notes.push(format!("unreadable file skipped: {} ({})", file.display(), e));
                continue;
            }
        };
        let suite: Value = match serde_json::from_str(&text) {
            Ok(v) => v,
            Err(e) => {
                notes.push(format!("unparseable file skipped: {} ({})", file.display(), e));
                continue;
            }
        };
        let suite = match suite.as_object() {
            Some(o) => o,
            None => {
                notes.push(format!("not a test suite, skipped: {}", file.display()));
                continue;
            }
        };
        let expected_fail_file = EXPECTED_FAIL_FILES.contains(&file_name.as_str());
        for (name, unit) in suite {
            if unit.get("post").is_none() || unit.get("transaction").is_none() {
                notes.push(format!("not a state test, skipped: {} :: {}", file.display(), name));
                continue;
            }
            if unit["transaction"].get("sender").is_none() {
                notes.push(format!("no `sender` in transaction (would need secretKey derivation), file skipped: {}", file.display()));
                continue 'files;
            }
            let pre = match parse_world(&unit["pre"]) {
                Ok(w) => w,
                Err(e) => {
                    notes.push(format!("bad pre-state, test skipped: {} :: {} ({})", file.display(), name, e));
                    continue;
                }
            };
            for (fork_name, posts) in unit["post"].as_object().into_iter().flatten() {
                let fork = match fork_by_name(fork_name) {
                    Some(f) => f,
                    None => {
                        *ignored_forks.entry(fork_name.clone()).or_default() += posts.as_array().map_or(0, |a| a.len());
                        continue;
                    }
                };
                if let Some(f) = &opts.fork {
                    if f != fork_name {
                        continue;
                    }
                }
                for (i, post) in posts.as_array().into_iter().flatten().enumerate() {
                    let case_id = format!("{} :: {} :: {}[{}]", file.display(), name, fork_name, i);
                    if let Some(f) = &opts.filter {
                        if !case_id.contains(f.as_str()) {
                            continue;
                        }
                    }
                    if let Some((k, seed)) = opts.sample {
                        if fnv(&case_id, seed) % k != 0 {
                            continue;
                        }
                    }
                    if let Some(l) = opts.limit {
                        if executed >= l {
                            break 'files;
                        }
                    }
                    executed += 1;
                    if opts.debug || opts.trace {
                        eprintln!("RUN {}", case_id);
                    }
                    let tally = tallies.entry(fork).or_default();
                    match run_case(fork, unit, &pre, post, &opts) {
                        Ok(CaseResult::Pass) => tally.passed += 1,
                        Ok(CaseResult::Skip(n)) => {
                            tally.skipped += 1;
                            *skipped_by_precompile.entry(n).or_default() += 1;
                        }
                        Ok(CaseResult::Fail(why)) | Err(why) => {
                            if expected_fail_file {
                                tally.expected_fail += 1;
                                expected_failures.push(case_id);
                            } else {
                                tally.failed += 1;
                                failures.push(format!("{}\n      {}", case_id, why));
                            }
                        }
                    }
                }
            }
        }
    }

    println!("refevm-vectors: {} files, {} cases executed in {:.2}s", files.len(), executed, started.elapsed().as_secs_f64());
    println!("{:<18} {:>8} {:>8} {:>8} {:>14}", "fork", "passed", "failed", "skipped", "expected-fail");
    let mut total = Tally::default();
    for (fork, t) in &tallies {
        println!("{:<18} {:>8} {:>8} {:>8} {:>14}", format!("{:?}", fork), t.passed, t.failed, t.skipped, t.expected_fail);
        total.passed += t.passed;
        total.failed += t.failed;
        total.skipped += t.skipped;
        total.expected_fail += t.expected_fail;
    }
    println!("{:<18} {:>8} {:>8} {:>8} {:>14}", "TOTAL", total.passed, total.failed, total.skipped, total.expected_fail);
    println!("(skipped = the case called a precompile this binary does not implement)");
    for (n, count) in &skipped_by_precompile {
        println!("  skipped because of precompile {:#04x}: {}", n, count);
    }
    for (name, n) in &ignored_forks {
        println!("ignored post entries of fork {}: {}", name, n);
    }
    for n in &notes {
        println!("note: {}", n);
    }
    if !expected_failures.is_empty() {
        println!("expected failures (superseded devnet-5 EXTCODE* rule): {} cases in files {:?}", expected_failures.len(), EXPECTED_FAIL_FILES);
    }
    if !failures.is_empty() {
        println!("FAILURES ({}):", failures.len());
        for f in &failures {
            println!("  {}", f);
        }
        std::process::exit(1);
    }
}

#[cfg(test)]
mod tests {
    use super::*;

    #[test]
    fn hash_known_answers() {
        assert_eq!(hex::encode(sha256(b"abc")), "ba7816bf8f01cfea414140de5dae2223b00361a396177a9cb410ff61f20015ad");
        assert_eq!(hex::encode(sha256(b"")), "e3b0c44298fc1c149afbf4c8996fb92427ae41e4649b934ca495991b7852b855");
        let long = vec![b'a'; 1000];
        assert_eq!(hex::encode(sha256(&long)), "41edece42d63e8d9bf515a9ba6932e1c20cbc9f5a5d134645adb5db1b9737ea3");
        assert_eq!(hex::encode(ripemd160(b"")), "9c1185a5c5e9fc54612808977ee8f548b2258d31");
        assert_eq!(hex::encode(ripemd160(b"abc")), "8eb208f7e05d987a9b044a8e98c6b087f15a0bfc");
        assert_eq!(
            hex::encode(ripemd160(b"abcdefghijklmnopqrstuvwxyz")),
            "f71c27109c692c1b56bbdceb5b9d2865b3708dbc"
        );
        assert_eq!(
            hex::encode(ripemd160(b"12345678901234567890123456789012345678901234567890123456789012345678901234567890")),
            "9b752e45573d4b39f4dbd3323cab82bf63326bfb"
        );
    }
}
