fn main(){}
