//! The message-call machine: frames, the instruction loop, CALL/CREATE plumbing.
//!
//! The machine is iterative (an explicit frame stack), so a 1024-deep call chain does not use
//! native stack.  Each frame remembers the journal length at its start; failure = revert to it.
use crate::arith;
use crate::gas::*;
use crate::state::State;
use crate::types::*;
use crate::util::*;
use primitive_types::U256;

/// Hard cap on the memory of all live frames together.  Reaching it needs > 3e10 gas in one
/// frame, far beyond any real block; beyond it an expansion is reported as out-of-gas instead
/// of attempting the allocation (documented deviation, see README).
pub const MAX_TOTAL_MEMORY: u64 = 1 << 28;

/// Block/transaction constants visible to the EVM.
pub struct Env<'a> {
    pub fork: Fork,
    pub block: &'a Block,
    pub origin: Address,
    pub gas_price: U256,
    pub blob_hashes: &'a [Hash],
    pub blob_gas_price: U256,
    pub ext: &'a dyn Externals,
}

#[derive(Clone, Copy, Debug, PartialEq, Eq)]
pub enum MsgKind {
    Call,
    Create,
}

pub struct Message {
    pub kind: MsgKind,
    /// msg.sender
    pub caller: Address,
    /// Account whose storage/balance the code operates on (for Create: the new address).
    pub target: Address,
    /// Code to run (initcode for Create).
    pub code: Vec<u8>,
    /// `Some(a)`: the message runs precompile `a` instead of code.
    pub precompile: Option<Address>,
    pub input: Vec<u8>,
    /// CALLVALUE
    pub value: U256,
    /// Whether `value` is actually moved from caller to target (false for DELEGATECALL).
    pub transfer: bool,
    pub gas: u64,
    pub is_static: bool,
    pub depth: usize,
}

pub struct MsgResult {
    pub status: Status,
    pub gas_left: u64,
    /// Return data / revert data; for a successful Create the deployed code.
    pub output: Vec<u8>,
}

impl MsgResult {
    fn halt() -> Self {
        MsgResult { status: Status::Halt, gas_left: 0, output: Vec::new() }
    }
}

/// Exceptional halt marker (the kind does not matter: all gas is consumed).
struct Halt;

enum Pending {
    None,
    Call { out_offset: usize, out_size: usize },
    Create { address: Address },
}

struct Frame {
    kind: MsgKind,
    caller: Address,
    address: Address,
    value: U256,
    input: Vec<u8>,
    code: Vec<u8>,
    jumpdests: Vec<bool>,
    is_static: bool,
    depth: usize,
    pc: usize,
    gas: u64,
    stack: Vec<U256>,
    memory: Vec<u8>,
    return_data: Vec<u8>,
    snapshot: usize,
    pending: Pending,
}

enum Step {
    Call(Message),
    Done(MsgResult),
}

/// EIP-7702 delegation designator: 0xef0100 ++ address.
pub fn delegation_target(code: &[u8]) -> Option<Address> {
    if code.len() == 23 && code[..3] == [0xef, 0x01, 0x00] {
        let mut a = [0u8; 20];
        a.copy_from_slice(&code[3..]);
        Some(a)
    } else {
        None
    }
}

pub fn delegation_code(a: &Address) -> Vec<u8> {
    let mut v = vec![0xef, 0x01, 0x00];
    v.extend_from_slice(a);
    v
}

fn analyze_jumpdests(code: &[u8]) -> Vec<bool> {
    let mut v = vec![false; code.len()];
    let mut i = 0;
    while i < code.len() {
        let op = code[i];
        if op == 0x5b {
            v[i] = true;
        }
        if (0x60..=0x7f).contains(&op) {
            i += (op - 0x5f) as usize;
        }
        i += 1;
    }
    v
}

fn to_u64(v: U256) -> Option<u64> {
    if v > U256::from(u64::MAX) {
        None
    } else {
        Some(v.low_u64())
    }
}

/// `len` bytes of `src` starting at `offset`, zero padded.
fn copy_padded(src: &[u8], offset: U256, len: usize) -> Vec<u8> {
    let mut out = vec![0u8; len];
    if let Some(off) = to_u64(offset) {
        if (off as u128) < src.len() as u128 {
            let off = off as usize;
            let n = len.min(src.len() - off);
            out[..n].copy_from_slice(&src[off..off + n]);
        }
    }
    out
}

pub struct Machine<'a, 'b> {
    pub env: &'a Env<'a>,
    pub state: &'a mut State<'b>,
    pub tracer: &'a mut dyn Tracer,
    total_memory: u64,
}

impl<'a, 'b> Machine<'a, 'b> {
    pub fn new(env: &'a Env<'a>, state: &'a mut State<'b>, tracer: &'a mut dyn Tracer) -> Self {
        Machine { env, state, tracer, total_memory: 0 }
    }

    /// CREATE collision rule (EIP-684 + EIP-7610).
    pub fn is_collision(&self, a: &Address) -> bool {
        self.state.nonce(a) != 0 || !self.state.code(a).is_empty() || self.state.has_storage(a)
    }

    /// Run a message to completion.
    pub fn run(&mut self, msg: Message) -> MsgResult {
        let mut frames: Vec<Frame> = Vec::new();
        let mut incoming = Some(msg);
        let mut result: Option<MsgResult> = None;
        loop {
            if let Some(m) = incoming.take() {
                match self.start(m) {
                    Ok(frame) => frames.push(frame),
                    Err(res) => result = Some(res),
                }
            }
            if let Some(res) = result.take() {
                match frames.last_mut() {
                    None => return res,
                    Some(parent) => Self::resume(parent, res),
                }
            }
            let step = {
                let frame = frames.last_mut().unwrap();
                self.execute(frame)
            };
            match step {
                Step::Call(m) => incoming = Some(m),
                Step::Done(res) => {
                    let frame = frames.pop().unwrap();
                    self.total_memory -= frame.memory.len() as u64;
                    result = Some(self.finish(&frame, res));
                }
            }
        }
    }

    fn revert_to(&mut self, snapshot: usize, depth: usize) {
        if depth == 0 {
            self.state.revert(snapshot);
        } else {
            self.state.revert_child(snapshot);
        }
    }

    /// Begin a message: snapshot, account preparation, value transfer, precompile dispatch.
    /// `Err` = the message completed without running code.
    fn start(&mut self, msg: Message) -> Result<Frame, MsgResult> {
        let fork = self.env.fork;
        let snapshot = self.state.snapshot();
        if msg.kind == MsgKind::Create {
            self.state.mark_created(msg.target);
            if fork.is(Fork::SpuriousDragon) {
                self.state.set_nonce(msg.target, 1); // EIP-161
            }
        }
        // Touch the target.  Before EIP-161 a touched account comes into existence.
        if fork.is(Fork::SpuriousDragon) {
            self.state.touch(msg.target);
        } else {
            self.state.ensure_exists(msg.target);
        }
        if msg.transfer && !msg.value.is_zero() {
            // The caller checked the sender's balance.
            let from = self.state.balance(&msg.caller);
            let new_from = from.checked_sub(msg.value).unwrap_or_default();
            self.state.set_balance(msg.caller, new_from);
            match self.state.balance(&msg.target).checked_add(msg.value) {
                Some(b) => self.state.set_balance(msg.target, b),
                None => {
                    // Unreachable on a real chain (total supply < 2^256); fail the message.
                    self.revert_to(snapshot, msg.depth);
                    return Err(MsgResult::halt());
                }
            }
        }
        if let Some(p) = msg.precompile {
            return Err(match self.env.ext.precompile(fork, p, &msg.input, msg.gas) {
                PrecompileResult::Ok { gas_used, output } if gas_used <= msg.gas => {
                    MsgResult { status: Status::Success, gas_left: msg.gas - gas_used, output }
                }
                _ => {
                    self.revert_to(snapshot, msg.depth);
                    MsgResult::halt()
                }
            });
        }
        if msg.code.is_empty() {
            // Nothing to run: immediate success (a Create still goes through code deposit).
            let res = MsgResult { status: Status::Success, gas_left: msg.gas, output: Vec::new() };
            return Err(self.finish_parts(msg.kind, msg.target, snapshot, msg.depth, res));
        }
        let jumpdests = analyze_jumpdests(&msg.code);
        Ok(Frame {
            kind: msg.kind,
            caller: msg.caller,
            address: msg.target,
            value: msg.value,
            input: msg.input,
            code: msg.code,
            jumpdests,
            is_static: msg.is_static,
            depth: msg.depth,
            pc: 0,
            gas: msg.gas,
            stack: Vec::with_capacity(32),
            memory: Vec::new(),
            return_data: Vec::new(),
            snapshot,
            pending: Pending::None,
        })
    }

    /// Post-processing of a finished frame: revert on failure, code deposit for Create.
    fn finish(&mut self, frame: &Frame, res: MsgResult) -> MsgResult {
        self.finish_parts(frame.kind, frame.address, frame.snapshot, frame.depth, res)
    }

    fn finish_parts(&mut self, kind: MsgKind, address: Address, snapshot: usize, depth: usize, mut res: MsgResult) -> MsgResult {
        let fork = self.env.fork;
        if res.status != Status::Success {
            self.revert_to(snapshot, depth);
            return res;
        }
        if kind == MsgKind::Create {
            let code_len = res.output.len();
            let deposit = G_CODE_DEPOSIT.saturating_mul(code_len as u64);
            let bad_prefix = fork.is(Fork::London) && res.output.first() == Some(&0xef); // EIP-3541
            let too_big = fork.is(Fork::SpuriousDragon) && code_len > MAX_CODE_SIZE; // EIP-170
            if bad_prefix || too_big || res.gas_left < deposit {
                if !bad_prefix && !too_big && !fork.is(Fork::Homestead) {
                    // Frontier: out of gas for the deposit leaves an account without code and the
                    // creation still succeeds (EIP-2 changed this).
                    res.output = Vec::new();
                    return res;
                }
                self.revert_to(snapshot, depth);
                return MsgResult::halt();
            }
            res.gas_left -= deposit;
            self.state.set_code(address, res.output.clone());
        }
        res
    }

    /// Deliver a child's result to the frame that was waiting for it.
    fn resume(parent: &mut Frame, res: MsgResult) {
        parent.gas = parent.gas.saturating_add(res.gas_left);
        match std::mem::replace(&mut parent.pending, Pending::None) {
            Pending::Call { out_offset, out_size } => {
                let ok = res.status == Status::Success;
                parent.stack.push(if ok { U256::one() } else { U256::zero() });
                let n = out_size.min(res.output.len());
                if n > 0 {
                    parent.memory[out_offset..out_offset + n].copy_from_slice(&res.output[..n]);
                }
                parent.return_data = res.output;
            }
            Pending::Create { address } => {
                if res.status == Status::Success {
                    parent.stack.push(address_to_u256(&address));
                    parent.return_data = Vec::new();
                } else {
                    parent.stack.push(U256::zero());
                    parent.return_data = res.output;
                }
            }
            Pending::None => {}
        }
    }

    // ----- helpers ---------------------------------------------------------------------------

    fn charge(frame: &mut Frame, cost: u64) -> Result<(), Halt> {
        if frame.gas < cost {
            return Err(Halt);
        }
        frame.gas -= cost;
        Ok(())
    }

    fn pop(frame: &mut Frame) -> Result<U256, Halt> {
        frame.stack.pop().ok_or(Halt)
    }

    fn push(frame: &mut Frame, v: U256) -> Result<(), Halt> {
        if frame.stack.len() >= STACK_LIMIT {
            return Err(Halt);
        }
        frame.stack.push(v);
        Ok(())
    }

    /// Number of bytes of memory needed for the range (0 for an empty range).
    fn mem_end(offset: U256, size: U256) -> Result<u64, Halt> {
        if size.is_zero() {
            return Ok(0);
        }
        let off = to_u64(offset).ok_or(Halt)?;
        let sz = to_u64(size).ok_or(Halt)?;
        let end = off.checked_add(sz).ok_or(Halt)?;
        if end > MAX_TOTAL_MEMORY {
            return Err(Halt);
        }
        Ok(end)
    }

    /// Gas to grow the frame's memory so that it covers `required` bytes.
    fn expansion_cost(&self, frame: &Frame, required: u64) -> Result<u64, Halt> {
        let cur = frame.memory.len() as u64;
        if required <= cur {
            return Ok(0);
        }
        let new_len = words(required) * 32;
        if self.total_memory - cur + new_len > MAX_TOTAL_MEMORY {
            return Err(Halt);
        }
        Ok(memory_cost(words(required)) - memory_cost(cur / 32))
    }

    fn expand(&mut self, frame: &mut Frame, required: u64) {
        let cur = frame.memory.len() as u64;
        if required > cur {
            let new_len = words(required) * 32;
            frame.memory.resize(new_len as usize, 0);
            self.total_memory += new_len - cur;
        }
    }

    /// Charge `cost` plus the expansion for one memory range, then expand.  Returns the range.
    fn charge_mem(&mut self, frame: &mut Frame, cost: u64, offset: U256, size: U256) -> Result<(usize, usize), Halt> {
        let end = Self::mem_end(offset, size)?;
        let exp = self.expansion_cost(frame, end)?;
        Self::charge(frame, cost.saturating_add(exp))?;
        self.expand(frame, end);
        if size.is_zero() {
            Ok((0, 0))
        } else {
            Ok((offset.low_u64() as usize, size.low_u64() as usize))
        }
    }

    /// EIP-2929 account access cost (warming the address); `legacy` before Berlin.
    fn account_access_cost(&mut self, a: Address, legacy: u64) -> u64 {
        if self.env.fork.is(Fork::Berlin) {
            if self.state.warm_address(a) {
                G_WARM_ACCESS
            } else {
                G_COLD_ACCOUNT
            }
        } else {
            legacy
        }
    }

    fn block_hash(&self, number: U256) -> U256 {
        let current = self.env.block.number;
        match to_u64(number) {
            Some(n) if n < current && current - n <= 256 => {
                let h = self.env.block.block_hashes.get(&n).copied().unwrap_or_else(|| default_block_hash(n));
                hash_to_u256(&h)
            }
            _ => U256::zero(),
        }
    }

    // ----- the instruction loop --------------------------------------------------------------

    fn execute(&mut self, frame: &mut Frame) -> Step {
        match self.execute_inner(frame) {
            Ok(step) => step,
            Err(Halt) => Step::Done(MsgResult::halt()),
        }
    }

    fn execute_inner(&mut self, frame: &mut Frame) -> Result<Step, Halt> {
        let fork = self.env.fork;
        loop {
            if frame.pc >= frame.code.len() {
                // Running off the end of the code is an implicit STOP.
                return Ok(Step::Done(MsgResult { status: Status::Success, gas_left: frame.gas, output: Vec::new() }));
            }
            let op = frame.code[frame.pc];
            self.tracer.step(frame.depth, frame.pc, op, frame.gas, &frame.stack, frame.memory.len());
            if !fork.has_opcode(op) {
                return Err(Halt);
            }
            frame.pc += 1;
            match op {
                0x00 => {
                    return Ok(Step::Done(MsgResult { status: Status::Success, gas_left: frame.gas, output: Vec::new() }));
                }
                // ----- arithmetic
                0x01 => self.binop(frame, G_VERYLOW, |a, b| a.overflowing_add(b).0)?,
                0x02 => self.binop(frame, G_LOW, |a, b| a.overflowing_mul(b).0)?,
                0x03 => self.binop(frame, G_VERYLOW, |a, b| a.overflowing_sub(b).0)?,
                0x04 => self.binop(frame, G_LOW, arith::div)?,
                0x05 => self.binop(frame, G_LOW, arith::sdiv)?,
                0x06 => self.binop(frame, G_LOW, arith::rem)?,
                0x07 => self.binop(frame, G_LOW, arith::smod)?,
                0x08 | 0x09 => {
                    Self::charge(frame, G_MID)?;
                    let a = Self::pop(frame)?;
                    let b = Self::pop(frame)?;
                    let n = Self::pop(frame)?;
                    let r = if op == 0x08 { arith::addmod(a, b, n) } else { arith::mulmod(a, b, n) };
                    Self::push(frame, r)?;
                }
                0x0a => {
                    let base = Self::pop(frame)?;
                    let exponent = Self::pop(frame)?;
                    Self::charge(frame, G_EXP + fork.g_exp_byte() * arith::byte_len(exponent))?;
                    Self::push(frame, arith::exp(base, exponent))?;
                }
                0x0b => self.binop(frame, G_LOW, arith::signextend)?,
                // ----- comparison / bitwise
                0x10 => self.binop(frame, G_VERYLOW, |a, b| bool_word(a < b))?,
                0x11 => self.binop(frame, G_VERYLOW, |a, b| bool_word(a > b))?,
                0x12 => self.binop(frame, G_VERYLOW, |a, b| bool_word(arith::slt(a, b)))?,
                0x13 => self.binop(frame, G_VERYLOW, |a, b| bool_word(arith::slt(b, a)))?,
                0x14 => self.binop(frame, G_VERYLOW, |a, b| bool_word(a == b))?,
                0x15 => {
                    Self::charge(frame, G_VERYLOW)?;
                    let a = Self::pop(frame)?;
                    Self::push(frame, bool_word(a.is_zero()))?;
                }
                0x16 => self.binop(frame, G_VERYLOW, |a, b| a & b)?,
                0x17 => self.binop(frame, G_VERYLOW, |a, b| a | b)?,
                0x18 => self.binop(frame, G_VERYLOW, |a, b| a ^ b)?,
                0x19 => {
                    Self::charge(frame, G_VERYLOW)?;
                    let a = Self::pop(frame)?;
                    Self::push(frame, !a)?;
                }
                0x1a => self.binop(frame, G_VERYLOW, arith::byte)?,
                0x1b => self.binop(frame, G_VERYLOW, arith::shl)?,
                0x1c => self.binop(frame, G_VERYLOW, arith::shr)?,
                0x1d => self.binop(frame, G_VERYLOW, arith::sar)?,
                // ----- KECCAK256
                0x20 => {
                    let offset = Self::pop(frame)?;
                    let size = Self::pop(frame)?;
                    let word_cost = G_KECCAK_WORD.saturating_mul(words(to_u64(size).ok_or(Halt)?));
                    let (off, len) = self.charge_mem(frame, G_KECCAK.saturating_add(word_cost), offset, size)?;
                    let h = keccak256(&frame.memory[off..off + len]);
                    Self::push(frame, hash_to_u256(&h))?;
                }
                // ----- environment
                0x30 => {
                    let v = address_to_u256(&frame.address);
                    self.push_const(frame, v)?
                }
                0x31 => {
                    let a = u256_to_address(Self::pop(frame)?);
                    let cost = self.account_access_cost(a, fork.g_balance());
                    Self::charge(frame, cost)?;
                    Self::push(frame, self.state.balance(&a))?;
                }
                0x32 => {
                    let v = address_to_u256(&self.env.origin);
                    self.push_const(frame, v)?
                }
                0x33 => {
                    let v = address_to_u256(&frame.caller);
                    self.push_const(frame, v)?
                }
                0x34 => {
                    let v = frame.value;
                    self.push_const(frame, v)?
                }
                0x35 => {
                    Self::charge(frame, G_VERYLOW)?;
                    let offset = Self::pop(frame)?;
                    let word = copy_padded(&frame.input, offset, 32);
                    Self::push(frame, U256::from_big_endian(&word))?;
                }
                0x36 => {
                    let v = U256::from(frame.input.len());
                    self.push_const(frame, v)?
                }
                0x37 | 0x39 | 0x3e => {
                    // CALLDATACOPY, CODECOPY, RETURNDATACOPY
                    let dest = Self::pop(frame)?;
                    let src = Self::pop(frame)?;
                    let size = Self::pop(frame)?;
                    let word_cost = G_COPY_WORD.saturating_mul(words(to_u64(size).ok_or(Halt)?));
                    let (off, len) = self.charge_mem(frame, G_VERYLOW.saturating_add(word_cost), dest, size)?;
                    let data = match op {
                        0x37 => copy_padded(&frame.input, src, len),
                        0x39 => copy_padded(&frame.code, src, len),
                        _ => {
                            // EIP-211: reading past the end of the buffer is an exceptional halt
                            let s = to_u64(src).ok_or(Halt)?;
                            let end = s.checked_add(len as u64).ok_or(Halt)?;
                            if end > frame.return_data.len() as u64 {
                                return Err(Halt);
                            }
                            frame.return_data[s as usize..end as usize].to_vec()
                        }
                    };
                    frame.memory[off..off + len].copy_from_slice(&data);
                }
                0x38 => {
                    let v = U256::from(frame.code.len());
                    self.push_const(frame, v)?
                }
                0x3a => {
                    let v = self.env.gas_price;
                    self.push_const(frame, v)?
                }
                0x3b => {
                    let a = u256_to_address(Self::pop(frame)?);
                    let cost = self.account_access_cost(a, fork.g_extcode());
                    Self::charge(frame, cost)?;
                    Self::push(frame, U256::from(self.state.code(&a).len()))?;
                }
                0x3c => {
                    let a = u256_to_address(Self::pop(frame)?);
                    let dest = Self::pop(frame)?;
                    let src = Self::pop(frame)?;
                    let size = Self::pop(frame)?;
                    let word_cost = G_COPY_WORD.saturating_mul(words(to_u64(size).ok_or(Halt)?));
                    let access = self.account_access_cost(a, fork.g_extcode());
                    let (off, len) = self.charge_mem(frame, access.saturating_add(word_cost), dest, size)?;
                    let data = copy_padded(self.state.code(&a), src, len);
                    frame.memory[off..off + len].copy_from_slice(&data);
                }
                0x3d => {
                    let v = U256::from(frame.return_data.len());
                    self.push_const(frame, v)?
                }
                0x3f => {
                    let a = u256_to_address(Self::pop(frame)?);
                    let cost = self.account_access_cost(a, fork.g_extcodehash());
                    Self::charge(frame, cost)?;
                    // EIP-1052: 0 for non-existent or EIP-161-empty accounts
                    let v = if self.state.is_alive(&a) { hash_to_u256(&keccak256(self.state.code(&a))) } else { U256::zero() };
                    Self::push(frame, v)?;
                }
                // ----- block
                0x40 => {
                    Self::charge(frame, G_BLOCKHASH)?;
                    let n = Self::pop(frame)?;
                    Self::push(frame, self.block_hash(n))?;
                }
                0x41 => {
                    let v = address_to_u256(&self.env.block.coinbase);
                    self.push_const(frame, v)?
                }
                0x42 => {
                    let v = U256::from(self.env.block.timestamp);
                    self.push_const(frame, v)?
                }
                0x43 => {
                    let v = U256::from(self.env.block.number);
                    self.push_const(frame, v)?
                }
                0x44 => {
                    // DIFFICULTY, PREVRANDAO from the Merge (EIP-4399)
                    let v = if fork.is(Fork::Merge) { hash_to_u256(&self.env.block.prev_randao) } else { self.env.block.difficulty };
                    self.push_const(frame, v)?
                }
                0x45 => {
                    let v = U256::from(self.env.block.gas_limit);
                    self.push_const(frame, v)?
                }
                0x46 => {
                    let v = U256::from(self.env.block.chain_id);
                    self.push_const(frame, v)?
                }
                0x47 => {
                    Self::charge(frame, G_LOW)?;
                    Self::push(frame, self.state.balance(&frame.address))?;
                }
                0x48 => {
                    let v = self.env.block.base_fee;
                    self.push_const(frame, v)?
                }
                0x49 => {
                    Self::charge(frame, G_BLOBHASH)?;
                    let i = Self::pop(frame)?;
                    let v = match to_u64(i) {
                        Some(i) if (i as u128) < self.env.blob_hashes.len() as u128 => hash_to_u256(&self.env.blob_hashes[i as usize]),
                        _ => U256::zero(),
                    };
                    Self::push(frame, v)?;
                }
                0x4a => {
                    let v = self.env.blob_gas_price;
                    self.push_const(frame, v)?
                }
                // ----- stack / memory / storage / flow
                0x50 => {
                    Self::charge(frame, G_BASE)?;
                    Self::pop(frame)?;
                }
                0x51 => {
                    let offset = Self::pop(frame)?;
                    let (off, _) = self.charge_mem(frame, G_VERYLOW, offset, U256::from(32))?;
                    let v = U256::from_big_endian(&frame.memory[off..off + 32]);
                    Self::push(frame, v)?;
                }
                0x52 => {
                    let offset = Self::pop(frame)?;
                    let v = Self::pop(frame)?;
                    let (off, _) = self.charge_mem(frame, G_VERYLOW, offset, U256::from(32))?;
                    v.to_big_endian(&mut frame.memory[off..off + 32]);
                }
                0x53 => {
                    let offset = Self::pop(frame)?;
                    let v = Self::pop(frame)?;
                    let (off, _) = self.charge_mem(frame, G_VERYLOW, offset, U256::one())?;
                    frame.memory[off] = v.byte(0);
                }
                0x54 => {
                    let key = Self::pop(frame)?;
                    let cost = if fork.is(Fork::Berlin) {
                        if self.state.warm_slot(frame.address, key) {
                            G_WARM_ACCESS
                        } else {
                            G_COLD_SLOAD
                        }
                    } else {
                        fork.g_sload()
                    };
                    Self::charge(frame, cost)?;
                    Self::push(frame, self.state.storage(&frame.address, &key))?;
                }
                0x55 => self.op_sstore(frame)?,
                0x56 => {
                    Self::charge(frame, G_MID)?;
                    let dest = Self::pop(frame)?;
                    Self::jump(frame, dest)?;
                }
                0x57 => {
                    Self::charge(frame, G_HIGH)?;
                    let dest = Self::pop(frame)?;
                    let cond = Self::pop(frame)?;
                    if !cond.is_zero() {
                        Self::jump(frame, dest)?;
                    }
                }
                0x58 => {
                    let v = U256::from(frame.pc - 1);
                    self.push_const(frame, v)?
                }
                0x59 => {
                    let v = U256::from(frame.memory.len());
                    self.push_const(frame, v)?
                }
                0x5a => {
                    Self::charge(frame, G_BASE)?;
                    Self::push(frame, U256::from(frame.gas))?;
                }
                0x5b => Self::charge(frame, G_JUMPDEST)?,
                0x5c => {
                    Self::charge(frame, G_TLOAD)?;
                    let key = Self::pop(frame)?;
                    Self::push(frame, self.state.transient(&frame.address, &key))?;
                }
                0x5d => {
                    Self::charge(frame, G_TSTORE)?;
                    let key = Self::pop(frame)?;
                    let v = Self::pop(frame)?;
                    if frame.is_static {
                        return Err(Halt);
                    }
                    self.state.set_transient(frame.address, key, v);
                }
                0x5e => {
                    // MCOPY (EIP-5656)
                    let dest = Self::pop(frame)?;
                    let src = Self::pop(frame)?;
                    let size = Self::pop(frame)?;
                    let word_cost = G_COPY_WORD.saturating_mul(words(to_u64(size).ok_or(Halt)?));
                    let end = Self::mem_end(dest, size)?.max(Self::mem_end(src, size)?);
                    let exp = self.expansion_cost(frame, end)?;
                    Self::charge(frame, G_VERYLOW.saturating_add(word_cost).saturating_add(exp))?;
                    self.expand(frame, end);
                    if !size.is_zero() {
                        let (d, s, n) = (dest.low_u64() as usize, src.low_u64() as usize, size.low_u64() as usize);
                        frame.memory.copy_within(s..s + n, d);
                    }
                }
                0x5f => {
                    let v = U256::zero();
                    self.push_const(frame, v)?
                }
                0x60..=0x7f => {
                    Self::charge(frame, G_VERYLOW)?;
                    let n = (op - 0x5f) as usize;
                    // immediate bytes beyond the end of the code read as zero
                    let mut buf = [0u8; 32];
                    let avail = frame.code.len().saturating_sub(frame.pc).min(n);
                    buf[32 - n..32 - n + avail].copy_from_slice(&frame.code[frame.pc..frame.pc + avail]);
                    frame.pc += n;
                    Self::push(frame, U256::from_big_endian(&buf))?;
                }
                0x80..=0x8f => {
                    Self::charge(frame, G_VERYLOW)?;
                    let n = (op - 0x7f) as usize;
                    if frame.stack.len() < n {
                        return Err(Halt);
                    }
                    let v = frame.stack[frame.stack.len() - n];
                    Self::push(frame, v)?;
                }
                0x90..=0x9f => {
                    Self::charge(frame, G_VERYLOW)?;
                    let n = (op - 0x8f) as usize;
                    let len = frame.stack.len();
                    if len < n + 1 {
                        return Err(Halt);
                    }
                    frame.stack.swap(len - 1, len - 1 - n);
                }
                0xa0..=0xa4 => {
                    let topics_n = (op - 0xa0) as usize;
                    let offset = Self::pop(frame)?;
                    let size = Self::pop(frame)?;
                    let mut topics = Vec::with_capacity(topics_n);
                    for _ in 0..topics_n {
                        topics.push(u256_to_hash(Self::pop(frame)?));
                    }
                    let data_cost = G_LOG_DATA.saturating_mul(to_u64(size).ok_or(Halt)?);
                    let cost = (G_LOG + G_LOG_TOPIC * topics_n as u64).saturating_add(data_cost);
                    let (off, len) = self.charge_mem(frame, cost, offset, size)?;
                    if frame.is_static {
                        return Err(Halt);
                    }
                    let data = frame.memory[off..off + len].to_vec();
                    self.state.add_log(Log { address: frame.address, topics, data });
                }
                0xf0 | 0xf5 => {
                    if let Some(m) = self.op_create(frame, op)? {
                        return Ok(Step::Call(m));
                    }
                }
                0xf1 | 0xf2 | 0xf4 | 0xfa => {
                    if let Some(m) = self.op_call(frame, op)? {
                        return Ok(Step::Call(m));
                    }
                }
                0xf3 | 0xfd => {
                    let offset = Self::pop(frame)?;
                    let size = Self::pop(frame)?;
                    let (off, len) = self.charge_mem(frame, G_ZERO, offset, size)?;
                    let output = frame.memory[off..off + len].to_vec();
                    let status = if op == 0xf3 { Status::Success } else { Status::Revert };
                    return Ok(Step::Done(MsgResult { status, gas_left: frame.gas, output }));
                }
                0xff => {
                    self.op_selfdestruct(frame)?;
                    return Ok(Step::Done(MsgResult { status: Status::Success, gas_left: frame.gas, output: Vec::new() }));
                }
                _ => return Err(Halt),
            }
        }
    }

    fn binop(&mut self, frame: &mut Frame, cost: u64, f: impl Fn(U256, U256) -> U256) -> Result<(), Halt> {
        Self::charge(frame, cost)?;
        let a = Self::pop(frame)?;
        let b = Self::pop(frame)?;
        Self::push(frame, f(a, b))
    }

    /// G_BASE instructions that only push a value.
    fn push_const(&self, frame: &mut Frame, v: U256) -> Result<(), Halt> {
        Self::charge(frame, G_BASE)?;
        Self::push(frame, v)
    }

    fn jump(frame: &mut Frame, dest: U256) -> Result<(), Halt> {
        let d = to_u64(dest).ok_or(Halt)?;
        if (d as u128) < frame.jumpdests.len() as u128 && frame.jumpdests[d as usize] {
            frame.pc = d as usize;
            Ok(())
        } else {
            Err(Halt)
        }
    }

    fn op_sstore(&mut self, frame: &mut Frame) -> Result<(), Halt> {
        let fork = self.env.fork;
        let key = Self::pop(frame)?;
        let new = Self::pop(frame)?;
        let addr = frame.address;
        let current = self.state.storage(&addr, &key);
        if fork.is(Fork::Istanbul) {
            // EIP-2200 (+ EIP-2929 from Berlin, EIP-3529 from London)
            if frame.gas <= G_CALL_STIPEND {
                return Err(Halt);
            }
            let original = self.state.original_storage(&addr, &key);
            let berlin = fork.is(Fork::Berlin);
            let sload = if berlin { G_WARM_ACCESS } else { fork.g_sload() };
            let reset = if berlin { G_SSTORE_RESET - G_COLD_SLOAD } else { G_SSTORE_RESET };
            let mut cost = 0;
            if berlin && !self.state.warm_slot(addr, key) {
                cost += G_COLD_SLOAD;
            }
            if original == current && current != new {
                cost += if original.is_zero() { G_SSTORE_SET } else { reset };
            } else {
                cost += sload;
            }
            Self::charge(frame, cost)?;
            if frame.is_static {
                return Err(Halt);
            }
            let clear = fork.sstore_clear_refund() as i64;
            if current != new {
                if !original.is_zero() && !current.is_zero() && new.is_zero() {
                    self.state.add_refund(clear);
                }
                if !original.is_zero() && current.is_zero() {
                    self.state.add_refund(-clear);
                }
                if original == new {
                    if original.is_zero() {
                        self.state.add_refund((G_SSTORE_SET - sload) as i64);
                    } else {
                        self.state.add_refund((reset - sload) as i64);
                    }
                }
            }
        } else {
            let cost = if !new.is_zero() && current.is_zero() { G_SSTORE_SET } else { G_SSTORE_RESET };
            Self::charge(frame, cost)?;
            if frame.is_static {
                return Err(Halt);
            }
            if new.is_zero() && !current.is_zero() {
                self.state.add_refund(R_SSTORE_CLEAR as i64);
            }
        }
        self.state.set_storage(addr, key, new);
        Ok(())
    }

    fn op_selfdestruct(&mut self, frame: &mut Frame) -> Result<(), Halt> {
        let fork = self.env.fork;
        let beneficiary = u256_to_address(Self::pop(frame)?);
        let me = frame.address;
        let balance = self.state.balance(&me);
        let mut cost = 0;
        if fork.is(Fork::Tangerine) {
            cost += G_SELFDESTRUCT;
        }
        if fork.is(Fork::Berlin) && !self.state.warm_address(beneficiary) {
            cost += G_COLD_ACCOUNT;
        }
        if fork.is(Fork::SpuriousDragon) {
            if !self.state.is_alive(&beneficiary) && !balance.is_zero() {
                cost += G_NEW_ACCOUNT;
            }
        } else if fork.is(Fork::Tangerine) && !self.state.exists(&beneficiary) {
            cost += G_NEW_ACCOUNT;
        }
        Self::charge(frame, cost)?;
        if frame.is_static {
            return Err(Halt);
        }
        if !fork.is(Fork::London) && !self.state.selfdestructed.contains(&me) {
            self.state.add_refund(R_SELFDESTRUCT as i64);
        }
        if fork.is(Fork::Cancun) {
            // EIP-6780: always move the balance; delete only if created in this transaction
            // (then the balance left behind - beneficiary == self - is burnt).
            if beneficiary != me && !balance.is_zero() {
                let b = self.state.balance(&beneficiary).checked_add(balance).ok_or(Halt)?;
                self.state.set_balance(me, U256::zero());
                self.state.set_balance(beneficiary, b);
            }
            if self.state.created.contains(&me) {
                self.state.set_balance(me, U256::zero());
                self.state.mark_selfdestructed(me);
            }
        } else {
            // credit the beneficiary first, then zero the originator (burns if they coincide)
            // (before EIP-161 crediting even a zero balance brings the beneficiary into existence)
            if beneficiary != me && (!balance.is_zero() || !fork.is(Fork::SpuriousDragon)) {
                let b = self.state.balance(&beneficiary).checked_add(balance).ok_or(Halt)?;
                self.state.set_balance(beneficiary, b);
            }
            self.state.set_balance(me, U256::zero());
            self.state.mark_selfdestructed(me);
        }
        if fork.is(Fork::SpuriousDragon) {
            self.state.touch(beneficiary);
        }
        Ok(())
    }

    fn op_create(&mut self, frame: &mut Frame, op: u8) -> Result<Option<Message>, Halt> {
        let fork = self.env.fork;
        let value = Self::pop(frame)?;
        let offset = Self::pop(frame)?;
        let size = Self::pop(frame)?;
        let salt = if op == 0xf5 { Self::pop(frame)? } else { U256::zero() };
        let size64 = to_u64(size).ok_or(Halt)?;
        if fork.is(Fork::Shanghai) && size64 > MAX_INITCODE_SIZE as u64 {
            return Err(Halt); // EIP-3860
        }
        let mut cost = G_CREATE;
        if op == 0xf5 {
            cost = cost.saturating_add(G_KECCAK_WORD.saturating_mul(words(size64)));
        }
        if fork.is(Fork::Shanghai) {
            cost = cost.saturating_add(G_INITCODE_WORD.saturating_mul(words(size64)));
        }
        let (off, len) = self.charge_mem(frame, cost, offset, size)?;
        if frame.is_static {
            return Err(Halt);
        }
        let initcode = frame.memory[off..off + len].to_vec();
        let me = frame.address;
        let address = if op == 0xf0 { create_address(me, self.state.nonce(&me)) } else { create2_address(me, salt, &initcode) };
        if fork.is(Fork::Berlin) {
            self.state.warm_address(address);
        }
        // EIP-150: all but one 64th
        let child_gas = if fork.is(Fork::Tangerine) { frame.gas - frame.gas / 64 } else { frame.gas };
        frame.gas -= child_gas;
        frame.return_data = Vec::new();
        if self.state.balance(&me) < value || self.state.nonce(&me) == u64::MAX || frame.depth + 1 > CALL_DEPTH_LIMIT {
            frame.gas += child_gas;
            Self::push(frame, U256::zero())?;
            return Ok(None);
        }
        let nonce = self.state.nonce(&me);
        self.state.set_nonce(me, nonce + 1);
        if self.is_collision(&address) {
            // the gas given to the creation is consumed
            Self::push(frame, U256::zero())?;
            return Ok(None);
        }
        frame.pending = Pending::Create { address };
        Ok(Some(Message {
            kind: MsgKind::Create,
            caller: me,
            target: address,
            code: initcode,
            precompile: None,
            input: Vec::new(),
            value,
            transfer: true,
            gas: child_gas,
            is_static: false,
            depth: frame.depth + 1,
        }))
    }

    fn op_call(&mut self, frame: &mut Frame, op: u8) -> Result<Option<Message>, Halt> {
        let fork = self.env.fork;
        let gas_req = Self::pop(frame)?;
        let to = u256_to_address(Self::pop(frame)?);
        let has_value = op == 0xf1 || op == 0xf2;
        let value = if has_value { Self::pop(frame)? } else { U256::zero() };
        let in_offset = Self::pop(frame)?;
        let in_size = Self::pop(frame)?;
        let out_offset = Self::pop(frame)?;
        let out_size = Self::pop(frame)?;

        let mem_required = Self::mem_end(in_offset, in_size)?.max(Self::mem_end(out_offset, out_size)?);
        let mem_cost = self.expansion_cost(frame, mem_required)?;

        let mut extra = self.account_access_cost(to, fork.g_call());
        // EIP-7702: resolve a delegation (one level) and pay for the access to the delegate.
        let mut code_address = to;
        let mut delegated = false;
        if fork.is(Fork::Prague) {
            if let Some(d) = delegation_target(self.state.code(&to)) {
                extra += if self.state.warm_address(d) { G_WARM_ACCESS } else { G_COLD_ACCOUNT };
                code_address = d;
                delegated = true;
            }
        }
        if !value.is_zero() {
            extra += G_CALL_VALUE;
        }
        if op == 0xf1 {
            let new_account = if fork.is(Fork::SpuriousDragon) {
                !value.is_zero() && !self.state.is_alive(&to) // EIP-161
            } else {
                !self.state.exists(&to)
            };
            if new_account {
                extra += G_NEW_ACCOUNT;
            }
        }
        let base = extra.saturating_add(mem_cost);
        if frame.gas < base {
            return Err(Halt);
        }
        let gas = if fork.is(Fork::Tangerine) {
            // EIP-150: cap at all but one 64th of what remains
            let avail = frame.gas - base;
            let cap = avail - avail / 64;
            match to_u64(gas_req) {
                Some(g) if g < cap => g,
                _ => cap,
            }
        } else {
            to_u64(gas_req).ok_or(Halt)?
        };
        Self::charge(frame, base.checked_add(gas).ok_or(Halt)?)?;
        if frame.is_static && op == 0xf1 && !value.is_zero() {
            return Err(Halt);
        }
        self.expand(frame, mem_required);
        let stipend = if value.is_zero() { 0 } else { G_CALL_STIPEND };
        let child_gas = gas.saturating_add(stipend);
        frame.return_data = Vec::new();

        let me = frame.address;
        if (has_value && self.state.balance(&me) < value) || frame.depth + 1 > CALL_DEPTH_LIMIT {
            frame.gas = frame.gas.saturating_add(child_gas);
            Self::push(frame, U256::zero())?;
            return Ok(None);
        }
        let input = if in_size.is_zero() {
            Vec::new()
        } else {
            let (o, n) = (in_offset.low_u64() as usize, in_size.low_u64() as usize);
            frame.memory[o..o + n].to_vec()
        };
        let (out_off, out_len) =
            if out_size.is_zero() { (0, 0) } else { (out_offset.low_u64() as usize, out_size.low_u64() as usize) };
        frame.pending = Pending::Call { out_offset: out_off, out_size: out_len };

        let precompile = if !delegated && fork.is_precompile(&to) { Some(to) } else { None };
        let code = if precompile.is_some() { Vec::new() } else { self.state.code(&code_address).to_vec() };
        let (caller, target, msg_value, transfer, is_static) = match op {
            0xf1 => (me, to, value, true, frame.is_static),
            0xf2 => (me, me, value, true, frame.is_static),
            0xf4 => (frame.caller, me, frame.value, false, frame.is_static),
            _ => (me, to, U256::zero(), false, true),
        };
        Ok(Some(Message {
            kind: MsgKind::Call,
            caller,
            target,
            code,
            precompile,
            input,
            value: msg_value,
            transfer,
            gas: child_gas,
            is_static,
            depth: frame.depth + 1,
        }))
    }
}

fn bool_word(b: bool) -> U256 {
    if b {
        U256::one()
    } else {
        U256::zero()
    }
}
