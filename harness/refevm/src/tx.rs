//! Transaction-level rules: intrinsic gas, validity, fee handling, EIP-7702 authorizations,
//! end-of-transaction clean-up.
use crate::gas::*;
use crate::interp::{delegation_code, delegation_target, Env, Machine, Message, MsgKind, MsgResult};
use crate::state::State;
use crate::types::*;
use primitive_types::{U256, U512};

fn is_create(tx: &Tx) -> bool {
    tx.to.is_none()
}

/// Calldata tokens of EIP-7623: zero bytes count 1, non-zero bytes 4.
fn calldata_tokens(data: &[u8]) -> u64 {
    let zeros = data.iter().filter(|b| **b == 0).count() as u64;
    zeros + (data.len() as u64 - zeros) * 4
}

/// Intrinsic gas of the transaction (saturating).
pub fn intrinsic_gas(fork: Fork, tx: &Tx) -> u64 {
    let zeros = tx.data.iter().filter(|b| **b == 0).count() as u64;
    let nonzeros = tx.data.len() as u64 - zeros;
    let mut gas = G_TX;
    gas = gas.saturating_add(zeros * G_TX_DATA_ZERO);
    gas = gas.saturating_add(nonzeros.saturating_mul(fork.g_tx_data_nonzero()));
    if is_create(tx) {
        if fork.is(Fork::Homestead) {
            gas = gas.saturating_add(G_TX_CREATE); // EIP-2
        }
        if fork.is(Fork::Shanghai) {
            gas = gas.saturating_add(G_INITCODE_WORD * words(tx.data.len() as u64)); // EIP-3860
        }
    }
    // EIP-2930
    for (_, keys) in &tx.access_list {
        gas = gas.saturating_add(G_TX_ACCESS_LIST_ADDRESS);
        gas = gas.saturating_add(G_TX_ACCESS_LIST_KEY.saturating_mul(keys.len() as u64));
    }
    // EIP-7702
    gas = gas.saturating_add(G_PER_EMPTY_ACCOUNT.saturating_mul(tx.authorization_list.len() as u64));
    gas
}

/// EIP-7623 floor (0 before Prague).
pub fn floor_gas(fork: Fork, tx: &Tx) -> u64 {
    if !fork.is(Fork::Prague) {
        return 0;
    }
    G_TX.saturating_add(calldata_tokens(&tx.data).saturating_mul(G_FLOOR_TOKEN))
}

/// EIP-4844 `fake_exponential(MIN_BASE_FEE_PER_BLOB_GAS = 1, excess, fraction)`.
/// The true value exceeds 2^256 once excess/fraction > ~177; it then saturates to U256::MAX.
pub fn blob_gas_price(fork: Fork, excess_blob_gas: u64) -> U256 {
    let denominator = fork.blob_base_fee_update_fraction();
    if excess_blob_gas / denominator >= 200 {
        return U256::MAX;
    }
    let numerator = U512::from(excess_blob_gas);
    let denominator = U512::from(denominator);
    let factor = U512::one();
    let mut i = U512::one();
    let mut output = U512::zero();
    let mut accum = factor * denominator;
    while !accum.is_zero() {
        output = output + accum;
        accum = accum * numerator / (denominator * i);
        i = i + U512::one();
    }
    let result = output / denominator;
    if result > U512::from(U256::MAX) {
        U256::MAX
    } else {
        let mut buf = [0u8; 64];
        result.to_big_endian(&mut buf);
        U256::from_big_endian(&buf[32..])
    }
}

fn type_available(fork: Fork, t: TxType) -> bool {
    match t {
        TxType::Legacy => true,
        TxType::Eip2930 => fork.is(Fork::Berlin),
        TxType::Eip1559 => fork.is(Fork::London),
        TxType::Eip4844 => fork.is(Fork::Cancun),
        TxType::Eip7702 => fork.is(Fork::Prague),
    }
}

fn is_fee_market(t: TxType) -> bool {
    matches!(t, TxType::Eip1559 | TxType::Eip4844 | TxType::Eip7702)
}

/// The price per gas the sender actually pays.  Assumes the transaction is valid.
pub fn effective_gas_price(fork: Fork, block: &Block, tx: &Tx) -> U256 {
    if fork.is(Fork::London) && is_fee_market(tx.tx_type) {
        let max_priority = tx.max_priority_fee.unwrap_or(tx.gas_price);
        let headroom = tx.gas_price.saturating_sub(block.base_fee);
        block.base_fee.saturating_add(max_priority.min(headroom))
    } else {
        tx.gas_price
    }
}

/// Pure validity check.  `Err` names the violated rule.
pub fn validate(fork: Fork, block: &Block, pre: &World, tx: &Tx) -> Result<(), String> {
    if !type_available(fork, tx.tx_type) {
        return Err(format!("transaction type {:?} not available in {:?}", tx.tx_type, fork));
    }
    // fields that do not belong to the type
    if !is_fee_market(tx.tx_type) && tx.max_priority_fee.is_some() {
        return Err("max_priority_fee on a non-fee-market transaction".into());
    }
    if tx.tx_type == TxType::Legacy && !tx.access_list.is_empty() {
        return Err("access list on a legacy transaction".into());
    }
    if tx.tx_type != TxType::Eip4844 && !tx.blob_hashes.is_empty() {
        return Err("blob hashes on a non-blob transaction".into());
    }
    if tx.tx_type != TxType::Eip7702 && !tx.authorization_list.is_empty() {
        return Err("authorization list on a non-set-code transaction".into());
    }
    if let Some(id) = tx.chain_id {
        if id != block.chain_id {
            return Err("chain id mismatch".into());
        }
    }
    // intrinsic gas and EIP-7623 floor
    let intrinsic = intrinsic_gas(fork, tx);
    if intrinsic.max(floor_gas(fork, tx)) > tx.gas_limit {
        return Err("intrinsic gas too low".into());
    }
    // EIP-3860
    if fork.is(Fork::Shanghai) && is_create(tx) && tx.data.len() > MAX_INITCODE_SIZE {
        return Err("initcode size exceeded".into());
    }
    if tx.gas_limit > block.gas_limit {
        return Err("gas limit exceeds block gas limit".into());
    }
    let sender = pre.get(&tx.caller);
    let sender_nonce = sender.map_or(0, |a| a.nonce);
    let sender_balance = sender.map_or(U256::zero(), |a| a.balance);
    // fees
    let mut max_cost: Option<U256>;
    if fork.is(Fork::London) {
        if is_fee_market(tx.tx_type) {
            let priority = tx.max_priority_fee.unwrap_or(tx.gas_price);
            if tx.gas_price < priority {
                return Err("priority fee greater than max fee".into());
            }
        }
        if tx.gas_price < block.base_fee {
            return Err("max fee per gas less than block base fee".into());
        }
    }
    max_cost = tx.gas_price.checked_mul(U256::from(tx.gas_limit));
    // EIP-4844
    if tx.tx_type == TxType::Eip4844 {
        if is_create(tx) {
            return Err("blob transaction cannot create".into());
        }
        if tx.blob_hashes.is_empty() {
            return Err("blob transaction without blobs".into());
        }
        if tx.blob_hashes.len() > fork.max_blobs_per_tx() {
            return Err("too many blobs".into());
        }
        if tx.blob_hashes.iter().any(|h| h[0] != 0x01) {
            return Err("invalid blob versioned hash".into());
        }
        if tx.max_fee_per_blob_gas < blob_gas_price(fork, block.excess_blob_gas) {
            return Err("max fee per blob gas too low".into());
        }
        let blob_gas = U256::from(GAS_PER_BLOB * tx.blob_hashes.len() as u64);
        let blob_cost = tx.max_fee_per_blob_gas.checked_mul(blob_gas);
        max_cost = match (max_cost, blob_cost) {
            (Some(a), Some(b)) => a.checked_add(b),
            _ => None,
        };
    }
    // EIP-7702
    if tx.tx_type == TxType::Eip7702 {
        if is_create(tx) {
            return Err("set-code transaction cannot create".into());
        }
        if tx.authorization_list.is_empty() {
            return Err("empty authorization list".into());
        }
    }
    // nonce
    if let Some(n) = tx.nonce {
        if n != sender_nonce {
            return Err("nonce mismatch".into());
        }
    }
    if sender_nonce == u64::MAX {
        return Err("nonce overflow".into()); // EIP-2681
    }
    // balance covers the worst case (256-bit overflow = cannot be covered)
    match max_cost.and_then(|c| c.checked_add(tx.value)) {
        Some(total) if sender_balance >= total => {}
        _ => return Err("insufficient funds for gas * price + value".into()),
    }
    // EIP-3607 (with the EIP-7702 exception for delegated accounts)
    if let Some(acc) = sender {
        if !acc.code.is_empty() && !(fork.is(Fork::Prague) && delegation_target(&acc.code).is_some()) {
            return Err("sender is not an EOA".into());
        }
    }
    Ok(())
}

/// EIP-7702 authorization processing.  Returns the refund earned.
fn apply_authorizations(block: &Block, state: &mut State, tx: &Tx) -> u64 {
    let mut refund = 0u64;
    for auth in &tx.authorization_list {
        if !auth.chain_id.is_zero() && auth.chain_id != U256::from(block.chain_id) {
            continue;
        }
        if auth.nonce == u64::MAX {
            continue;
        }
        let authority = match auth.authority {
            Some(a) => a,
            None => continue,
        };
        state.warm_address(authority);
        let code = state.code(&authority);
        if !code.is_empty() && delegation_target(code).is_none() {
            continue;
        }
        if state.nonce(&authority) != auth.nonce {
            continue;
        }
        if state.exists(&authority) {
            refund += G_PER_EMPTY_ACCOUNT - G_PER_AUTH_BASE;
        }
        let new_code = if auth.address == [0u8; 20] { Vec::new() } else { delegation_code(&auth.address) };
        state.set_code(authority, new_code);
        state.set_nonce(authority, auth.nonce + 1);
    }
    refund
}

pub fn execute(fork: Fork, block: &Block, pre: &World, tx: &Tx, ext: &dyn Externals, tracer: &mut dyn Tracer) -> TxOutcome {
    if let Err(e) = validate(fork, block, pre, tx) {
        return TxOutcome::Rejected(e);
    }
    let gas_price = effective_gas_price(fork, block, tx);
    let blob_price = if fork.is(Fork::Cancun) { blob_gas_price(fork, block.excess_blob_gas) } else { U256::zero() };
    let intrinsic = intrinsic_gas(fork, tx);
    let floor = floor_gas(fork, tx);
    let sender = tx.caller;

    let mut state = State::new(pre);

    // ----- up-front payment and nonce (validated: cannot underflow)
    let gas_fee = gas_price.saturating_mul(U256::from(tx.gas_limit));
    let blob_fee = blob_price.saturating_mul(U256::from(GAS_PER_BLOB * tx.blob_hashes.len() as u64));
    let sender_nonce = state.nonce(&sender);
    let balance = state.balance(&sender).saturating_sub(gas_fee).saturating_sub(blob_fee);
    state.set_balance(sender, balance);
    state.set_nonce(sender, sender_nonce + 1);

    // ----- EIP-2929 / 2930 / 3651 pre-warming
    if fork.is(Fork::Berlin) {
        state.warm_address(sender);
        for p in fork.precompile_addresses() {
            state.warm_address(p);
        }
        for (a, keys) in &tx.access_list {
            state.warm_address(*a);
            for k in keys {
                state.warm_slot(*a, *k);
            }
        }
        if fork.is(Fork::Shanghai) {
            state.warm_address(block.coinbase);
        }
    }

    let env = Env {
        fork,
        block,
        origin: sender,
        gas_price,
        blob_hashes: &tx.blob_hashes,
        blob_gas_price: blob_price,
        ext,
    };
    let gas = tx.gas_limit - intrinsic;

    // ----- the message
    let mut auth_refund = 0u64;
    let mut created: Option<Address> = None;
    let result: MsgResult;
    {
        let mut machine = Machine::new(&env, &mut state, tracer);
        match tx.to {
            None => {
                let address = crate::util::create_address(sender, sender_nonce);
                if fork.is(Fork::Berlin) {
                    machine.state.warm_address(address);
                }
                if machine.is_collision(&address) {
                    result = MsgResult { status: Status::Halt, gas_left: 0, output: Vec::new() };
                } else {
                    created = Some(address);
                    result = machine.run(Message {
                        kind: MsgKind::Create,
                        caller: sender,
                        target: address,
                        code: tx.data.clone(),
                        precompile: None,
                        input: Vec::new(),
                        value: tx.value,
                        transfer: true,
                        gas,
                        is_static: false,
                        depth: 0,
                    });
                }
            }
            Some(to) => {
                if fork.is(Fork::Berlin) {
                    machine.state.warm_address(to);
                }
                if tx.tx_type == TxType::Eip7702 {
                    // Not part of the message's snapshot: survives a failing execution.
                    auth_refund = apply_authorizations(block, machine.state, tx);
                }
                let mut precompile = if fork.is_precompile(&to) { Some(to) } else { None };
                let mut code = machine.state.code(&to).to_vec();
                if fork.is(Fork::Prague) {
                    if let Some(d) = delegation_target(&code) {
                        // EIP-7702: run the delegate's code; the delegate is warm; a delegation
                        // to a precompile runs empty code.
                        machine.state.warm_address(d);
                        code = machine.state.code(&d).to_vec();
                        precompile = None;
                    }
                }
                if precompile.is_some() {
                    code = Vec::new();
                }
                result = machine.run(Message {
                    kind: MsgKind::Call,
                    caller: sender,
                    target: to,
                    code,
                    precompile,
                    input: tx.data.clone(),
                    value: tx.value,
                    transfer: true,
                    gas,
                    is_static: false,
                    depth: 0,
                });
            }
        }
    }
    if result.status != Status::Success {
        created = None;
    }

    // ----- refunds (a failed message has had its refund counter and logs rolled back)
    let gas_used_before_refund = tx.gas_limit - result.gas_left.min(tx.gas_limit);
    let counter = state.refund.max(0) as u64 + auth_refund;
    let refund = counter.min(gas_used_before_refund / fork.max_refund_quotient());
    let mut gas_used = gas_used_before_refund - refund;
    if gas_used < floor {
        gas_used = floor; // EIP-7623
    }
    let gas_left = tx.gas_limit - gas_used;
    let sender_balance = state.balance(&sender).saturating_add(gas_price.saturating_mul(U256::from(gas_left)));
    state.set_balance(sender, sender_balance);

    // ----- coinbase: the priority fee (the base fee is burnt from London)
    let tip_per_gas = if fork.is(Fork::London) { gas_price.saturating_sub(block.base_fee) } else { gas_price };
    let fee = tip_per_gas.saturating_mul(U256::from(gas_used));
    let coinbase_balance = state.balance(&block.coinbase).saturating_add(fee);
    if fork.is(Fork::SpuriousDragon) {
        if !coinbase_balance.is_zero() {
            state.set_balance(block.coinbase, coinbase_balance);
        }
        state.touch(block.coinbase);
    } else {
        // before EIP-161 paying even a zero fee brings the coinbase into existence
        state.set_balance(block.coinbase, coinbase_balance);
    }

    // ----- selfdestructs, then EIP-161 state clearing
    let doomed: Vec<Address> = state.selfdestructed.iter().copied().collect();
    for a in doomed {
        state.destroy(a);
    }
    if fork.is(Fork::SpuriousDragon) {
        let touched: Vec<Address> = state.touched.iter().copied().collect();
        for a in touched {
            if state.world.get(&a).map_or(false, |acc| acc.is_empty()) {
                state.destroy(a);
            }
        }
    }

    let logs = if result.status == Status::Success { std::mem::take(&mut state.logs) } else { Vec::new() };
    TxOutcome::Executed(Executed {
        status: result.status,
        gas_used,
        gas_refunded: refund,
        output: result.output,
        logs,
        created,
        post: state.world,
    })
}
