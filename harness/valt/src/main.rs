//! vcheck-alt: the alternative cryptographic backends (pure-Rust k256 ecrecover, kzg-rs point
//! evaluation: revm-precompile built with `--no-default-features --features std,kzg-rs`).
//! Reads the cases written by `vcheck C24-gen` (inputs + results of the default backends:
//! C secp256k1 and c-kzg + the independent oracle's expectation) and compares.
use revm_precompile::{Precompiles, PrecompileSpecId};
use revm_primitives::{Address, Bytes, Env, PrecompileErrors};
use serde::{Deserialize, Serialize};
use vcore::{ensure, CaseResult, Ctx, Outcome};

#[derive(Clone, Debug, Hash, Serialize, Deserialize)]
pub struct AltCase {
    pub addr: u16,
    pub input: String,
    pub gas_limit: u64,
    /// result of the default backend: "ok:<gas>:<hex output>" or "err:<oog|other>"
    pub main: String,
    /// expectation of the independent oracle in the same format ("" = none)
    pub oracle: String,
    pub structured: bool,
}

fn show(r: &Result<revm_primitives::PrecompileOutput, PrecompileErrors>) -> String {
    match r {
        Ok(o) => format!("ok:{}:{}", o.gas_used, hex::encode(&o.bytes)),
        Err(PrecompileErrors::Error(e)) if e.is_oog() => "err:oog".into(),
        Err(_) => "err:other".into(),
    }
}

fn case(c: &AltCase) -> CaseResult {
    let input = hex::decode(&c.input).expect("hex");
    let mut a = [0u8; 20];
    a[18] = (c.addr >> 8) as u8;
    a[19] = c.addr as u8;
    let set = Precompiles::new(PrecompileSpecId::CANCUN);
    let p = set.get(&Address::from(a)).expect("precompile registered");
    let env = Env::default();
    let got = show(&p.call_ref(&Bytes::copy_from_slice(&input), c.gas_limit, &env));
    let name = if c.addr == 1 { "ecrecover" } else { "kzg" };
    // failures are compared as failures (the error kind is not part of the result)
    let norm = |s: &str| if s.starts_with("err:") && !s.ends_with("oog") { "err:other".to_string() } else { s.to_string() };
    ensure!(norm(&got) == norm(&c.main), format!("C24|{name}|backends-disagree"), "{name} input 0x{} gas {}: default backend -> {}, alternative backend -> {got}", c.input, c.gas_limit, c.main);
    if !c.oracle.is_empty() {
        ensure!(norm(&got) == norm(&c.oracle), format!("C24|{name}|alternative-backend-differs-from-oracle"), "{name} input 0x{}: alternative backend -> {got}, independent oracle -> {}", c.input, c.oracle);
    }
    let real = got.starts_with("ok:") && !got.ends_with(':');
    let mut o = Outcome::new(real || c.structured);
    o.labels.push(name);
    if real {
        o.labels.push("both-return-a-result");
    } else if got.starts_with("ok:") {
        o.labels.push("both-return-empty");
    } else {
        o.labels.push("both-fail");
    }
    Ok(o)
}

fn main() {
    let args: Vec<String> = std::env::args().skip(1).collect();
    let id = args.first().cloned().unwrap_or_default();
    if id != "C24" {
        eprintln!("usage: vcheck-alt C24 [quick|thorough] [--cases file] [--replay file]");
        std::process::exit(2);
    }
    vcore::install_panic_hook();
    let mut ctx = Ctx::from_args(&id, &args[1..]);
    let file = args.iter().position(|a| a == "--cases").and_then(|i| args.get(i + 1)).cloned();
    let cases: Vec<AltCase> = match (&ctx.replay, file) {
        (Some(_), _) => vec![],
        (None, Some(f)) => std::fs::read_to_string(&f).unwrap_or_else(|e| { eprintln!("cannot read {f}: {e}"); std::process::exit(2) }).lines().filter(|l| !l.is_empty()).map(|l| serde_json::from_str(l).expect("case line")).collect(),
        (None, None) => {
            eprintln!("--cases <file> required");
            std::process::exit(2);
        }
    };
    ctx.run_list(
        "backends",
        "inputs from C23's ecrecover generator (own big-integer signer: valid, high-s twin, other parity, v in {26,29,256+27,dirty}, r/s in {0,n,n+1}, edge grids, truncation/extension/bit flips, random bytes) and KZG generator (constant-polynomial tuples from own G1 arithmetic, c-kzg prover tuples on random blobs, every single-field tamper); the default build (C secp256k1, c-kzg) records its result, this build (k256, kzg-rs) must return the same result (gas, output, or failure) and both must equal the independent oracle; non-trivial = both return a non-empty result, or the input is a structured (signed/edge/tampered) one",
        cases,
        false,
        case,
    );
    ctx.expect_labels("backends", &["ecrecover", "kzg", "both-return-a-result", "both-return-empty", "both-fail"]);
    ctx.assumptions.push("feature unification forbids linking both backends into one binary: the comparison is between two builds of revm-precompile over one deterministic case list".into());
    std::process::exit(ctx.finish());
}
