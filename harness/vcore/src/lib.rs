//! Shared engine of the verification harness: option parsing, sharded proptest driver with
//! signature-aware shrinking, known-findings handling, replay files and evidence writing.
//! No dependency on the code under test.

use proptest::strategy::{Strategy, ValueTree};
use proptest::test_runner::{Config, RngAlgorithm, TestRng, TestRunner};
use serde::{de::DeserializeOwned, Deserialize, Serialize};
use serde_json::{json, Value};
use std::cell::RefCell;
use std::collections::{BTreeMap, BTreeSet, HashSet};
use std::hash::{Hash, Hasher};
use std::panic::{catch_unwind, AssertUnwindSafe};
use std::path::{Path, PathBuf};
use std::sync::Mutex;
use std::time::Instant;

pub use proptest;

pub const VERIF_DIR: &str = "/verif";
pub const SHARDS: u64 = 16;

/// Multiplier applied to every quick-tier case count (set per property by the binaries so that each
/// quick check does a fixed, substantial amount of work: roughly 15-40 s on 16 cores).
pub static QUICK_SCALE: std::sync::atomic::AtomicU64 = std::sync::atomic::AtomicU64::new(1);

pub fn set_quick_scale(k: u64) {
    QUICK_SCALE.store(k.max(1), std::sync::atomic::Ordering::Relaxed);
}

#[derive(Clone, Copy, Debug, PartialEq, Eq)]
pub enum Tier {
    Quick,
    Thorough,
}

impl Tier {
    pub fn name(self) -> &'static str {
        match self {
            Tier::Quick => "quick",
            Tier::Thorough => "thorough",
        }
    }
    /// Case-count helper: `quick` cases in the quick tier, `thorough` otherwise.
    pub fn pick(self, quick: u64, thorough: u64) -> u64 {
        match self {
            Tier::Quick => quick.saturating_mul(QUICK_SCALE.load(std::sync::atomic::Ordering::Relaxed)).min(thorough.max(quick)),
            // at least 20 times the (scaled) quick tier
            Tier::Thorough => thorough.max(quick.saturating_mul(QUICK_SCALE.load(std::sync::atomic::Ordering::Relaxed)).saturating_mul(20)),
        }
    }
}

/// What a check says about one evaluated case.
#[derive(Clone, Debug, Default)]
pub struct Outcome {
    pub nontrivial: bool,
    pub labels: Vec<&'static str>,
}

impl Outcome {
    pub fn trivial() -> Self {
        Outcome::default()
    }
    pub fn nontrivial() -> Self {
        Outcome { nontrivial: true, labels: vec![] }
    }
    pub fn new(nontrivial: bool) -> Self {
        Outcome { nontrivial, labels: vec![] }
    }
    pub fn label(mut self, l: &'static str) -> Self {
        self.labels.push(l);
        self
    }
    pub fn label_if(mut self, c: bool, l: &'static str) -> Self {
        if c {
            self.labels.push(l);
        }
        self
    }
}

/// One broken oracle clause.  `sig` is the root-cause key (see known_findings.jsonl).
#[derive(Clone, Debug, Serialize, Deserialize)]
pub struct Failure {
    pub sig: String,
    pub msg: String,
}

impl Failure {
    pub fn new(sig: impl Into<String>, msg: impl Into<String>) -> Self {
        Failure { sig: sig.into(), msg: msg.into() }
    }
}

pub type CaseResult = Result<Outcome, Vec<Failure>>;

/// Convenience: single failure.
pub fn fail<T>(sig: impl Into<String>, msg: impl Into<String>) -> Result<T, Vec<Failure>> {
    Err(vec![Failure::new(sig, msg)])
}

#[macro_export]
macro_rules! ensure {
    ($cond:expr, $sig:expr, $($arg:tt)*) => {
        if !($cond) {
            return Err(vec![$crate::Failure::new($sig, format!($($arg)*))]);
        }
    };
}

#[derive(Clone, Debug, Deserialize)]
pub struct KnownFinding {
    pub status: String,
    pub property: String,
    pub signature: String,
    pub what: String,
    #[serde(default)]
    pub commit: Option<String>,
}

#[derive(Default, Clone, Debug, Serialize, Deserialize)]
pub struct PartStats {
    pub name: String,
    pub rule: String,
    pub evaluations: u64,
    pub distinct_nontrivial: u64,
    pub labels: BTreeMap<String, u64>,
    pub known_masked: u64,
    pub exhaustive: bool,
    pub samples: Vec<Value>,
}

#[derive(Clone, Debug, Serialize, Deserialize)]
pub struct ReplayFile {
    pub property: String,
    pub part: String,
    pub signature: String,
    pub message: String,
    pub case: Value,
}

pub struct Ctx {
    pub id: String,
    pub tier: Tier,
    pub seed: u64,
    /// `Some` = replay mode: only the named part runs, on the stored case.
    pub replay: Option<ReplayFile>,
    pub known: Vec<KnownFinding>,
    pub parts: Vec<PartStats>,
    pub violations: Vec<(String, PathBuf, String)>,
    pub known_hits: BTreeMap<String, (u64, String)>,
    pub warnings: Vec<String>,
    pub assumptions: Vec<String>,
    pub level: &'static str,
    start: Instant,
    /// Maximum number of distinct violations reported per part before the part stops.
    pub max_violations: usize,
    /// `--parts-out <file>`: write this run's parts to the file instead of the evidence (a second binary merges them)
    pub parts_out: Option<String>,
    /// `--parts-in <file>`: parts written by another binary of the same check, merged into the evidence
    pub parts_in: Option<String>,
}

thread_local! {
    static CURRENT_PART: RefCell<Option<String>> = const { RefCell::new(None) };
    static LAST_PANIC: RefCell<Option<(String, String)>> = const { RefCell::new(None) };
}

pub fn install_panic_hook() {
    install_crash_handlers();
    std::panic::set_hook(Box::new(|info| {
        let loc = info
            .location()
            .map(|l| {
                let f = l.file();
                let f = f.rsplit("/crates/").next().unwrap_or(f);
                format!("{}:{}", f, l.line())
            })
            .unwrap_or_else(|| "?".into());
        let msg = if let Some(s) = info.payload().downcast_ref::<&str>() {
            s.to_string()
        } else if let Some(s) = info.payload().downcast_ref::<String>() {
            s.clone()
        } else {
            "<non-string panic>".into()
        };
        LAST_PANIC.with(|p| *p.borrow_mut() = Some((loc, msg)));
    }));
}

/// Runs `f`, turning a panic into `Err((location, message))`.
pub fn guarded<T>(f: impl FnOnce() -> T) -> Result<T, (String, String)> {
    match catch_unwind(AssertUnwindSafe(f)) {
        Ok(v) => Ok(v),
        Err(_) => Err(LAST_PANIC
            .with(|p| p.borrow_mut().take())
            .unwrap_or_else(|| ("?".into(), "panic".into()))),
    }
}


// ------------------------------------------------------------------------------------------
// crashes that do not unwind (abort from a violated unsafe precondition, SIGSEGV, SIGILL, SIGFPE, SIGBUS):
// the case being evaluated on the crashing thread is written as a replay file, a VIOLATION line is
// printed and the process exits with 1 — otherwise such a crash would end the check without a verdict.
// ------------------------------------------------------------------------------------------

struct CrashCtx {
    id: String,
    part: String,
    case: *const (),
    to_json: fn(*const ()) -> Value,
}

thread_local! {
    static CRASH_CTX: RefCell<Option<CrashCtx>> = const { RefCell::new(None) };
}

fn case_to_json<C: Serialize>(p: *const ()) -> Value {
    // SAFETY: `p` points to the case owned by the evaluating frame, which is still alive while the handler runs
    let c: &C = unsafe { &*(p as *const C) };
    serde_json::to_value(c).unwrap_or(Value::Null)
}

extern "C" fn crash_handler(sig: libc::c_int) {
    // we are dying anyway: async-signal-safety is traded for a usable report
    let name = match sig {
        libc::SIGABRT => "SIGABRT (abort: a panic that cannot unwind, e.g. a violated unsafe precondition / debug assertion in unsafe code)",
        libc::SIGSEGV => "SIGSEGV",
        libc::SIGBUS => "SIGBUS",
        libc::SIGILL => "SIGILL",
        libc::SIGFPE => "SIGFPE",
        _ => "signal",
    };
    let done = CRASH_CTX.try_with(|c| {
        if let Ok(b) = c.try_borrow() {
            if let Some(ctx) = b.as_ref() {
                let last = LAST_PANIC.try_with(|p| p.try_borrow().ok().and_then(|x| x.clone())).ok().flatten();
                let (loc, pmsg) = last.unwrap_or_else(|| ("?".into(), String::new()));
                let sigstr = format!("{}|crash|{}", ctx.id, loc);
                let msg = format!("the process was killed by {name} while evaluating this case (last panic message: {pmsg} at {loc})");
                let rf = ReplayFile { property: ctx.id.clone(), part: ctx.part.clone(), signature: sigstr.clone(), message: msg.clone(), case: (ctx.to_json)(ctx.case) };
                let dir = Path::new(VERIF_DIR).join("replays").join(&ctx.id);
                let _ = std::fs::create_dir_all(&dir);
                let path = dir.join(format!("{:016x}.json", fixed_hash(&(&ctx.part, &sigstr, rf.case.to_string()))));
                let _ = std::fs::write(&path, serde_json::to_string_pretty(&rf).unwrap_or_default());
                println!("VIOLATION property={} replay={}", ctx.id, path.display());
                println!("  part={} sig={} :: {}", ctx.part, sigstr, first_line(&msg, 600));
                return true;
            }
        }
        false
    });
    if !matches!(done, Ok(true)) {
        println!("crash ({name}) outside the evaluation of a case — inconclusive");
        use std::io::Write;
        let _ = std::io::stdout().flush();
        unsafe { libc::_exit(2) };
    }
    use std::io::Write;
    let _ = std::io::stdout().flush();
    unsafe { libc::_exit(1) };
}

pub fn install_crash_handlers() {
    for s in [libc::SIGABRT, libc::SIGSEGV, libc::SIGBUS, libc::SIGILL, libc::SIGFPE] {
        unsafe {
            libc::signal(s, crash_handler as extern "C" fn(libc::c_int) as usize);
        }
    }
}

pub fn fixed_hash<T: Hash + ?Sized>(t: &T) -> u64 {
    // SipHash with fixed keys: deterministic across runs.
    #[allow(deprecated)]
    let mut h = std::hash::SipHasher::new_with_keys(0x7665_7269, 0x6620_7265);
    t.hash(&mut h);
    h.finish()
}

fn seed_bytes(seed: u64, id: &str, part: &str, shard: u64) -> [u8; 32] {
    let mut out = [0u8; 32];
    for i in 0..4u64 {
        let h = fixed_hash(&(seed, id, part, shard, i));
        out[(i as usize) * 8..(i as usize + 1) * 8].copy_from_slice(&h.to_le_bytes());
    }
    out
}

pub fn runner_for(seed: u64, id: &str, part: &str, shard: u64) -> TestRunner {
    let cfg = Config { failure_persistence: None, ..Config::default() };
    TestRunner::new_with_rng(cfg, TestRng::from_seed(RngAlgorithm::ChaCha, &seed_bytes(seed, id, part, shard)))
}

fn clip_sample(v: Value) -> Value {
    let s = v.to_string();
    if s.len() <= 6000 {
        v
    } else {
        json!({ "truncated_json_prefix": s.chars().take(6000).collect::<String>(), "full_len": s.len() })
    }
}

struct ShardOut<C> {
    evaluations: u64,
    nontrivial: HashSet<u64>,
    labels: BTreeMap<&'static str, u64>,
    known: BTreeMap<String, (u64, String)>,
    samples: Vec<Value>,
    failure: Option<(C, Failure)>,
}

impl Ctx {
    pub fn from_args(id: &str, args: &[String]) -> Ctx {
        let mut tier = match std::env::var("VERIF_TIER").ok().as_deref() {
            Some("thorough") => Tier::Thorough,
            _ => Tier::Quick,
        };
        let mut seed: u64 = std::env::var("VERIF_SEED")
            .ok()
            .and_then(|s| {
                let s = s.trim();
                if let Some(h) = s.strip_prefix("0x") {
                    u64::from_str_radix(h, 16).ok()
                } else {
                    s.parse::<u64>().ok().or_else(|| s.parse::<i64>().ok().map(|v| v as u64))
                }
            })
            .unwrap_or(0);
        let mut replay = None;
        let mut parts_out = None;
        let mut parts_in = None;
        let mut it = args.iter();
        while let Some(a) = it.next() {
            match a.as_str() {
                "quick" | "--quick" => tier = Tier::Quick,
                "thorough" | "--thorough" => tier = Tier::Thorough,
                "--seed" => seed = it.next().and_then(|s| s.parse().ok()).unwrap_or(seed),
                "--parts-out" => parts_out = it.next().cloned(),
                "--parts-in" => parts_in = it.next().cloned(),
                "--replay" => {
                    let p = it.next().expect("--replay <file>");
                    let txt = std::fs::read_to_string(p).expect("read replay file");
                    replay = Some(serde_json::from_str::<ReplayFile>(&txt).expect("parse replay file"));
                }
                _ => {}
            }
        }
        let known = load_known(id);
        Ctx {
            id: id.to_string(),
            tier,
            seed,
            replay,
            known,
            parts: vec![],
            violations: vec![],
            known_hits: BTreeMap::new(),
            warnings: vec![],
            assumptions: vec![],
            level: "exploration",
            start: Instant::now(),
            max_violations: 3,
            parts_out,
            parts_in,
        }
    }

    fn is_known(&self, sig: &str) -> Option<&KnownFinding> {
        self.known.iter().find(|k| k.status == "known" && k.property == self.id && sig.starts_with(&k.signature))
    }

    /// First failure whose signature is not a known finding; known ones are tallied into `known`.
    fn triage(&self, fails: Vec<Failure>, known: &mut BTreeMap<String, (u64, String)>) -> Option<Failure> {
        let mut unknown = None;
        for f in fails {
            if let Some(k) = self.is_known(&f.sig) {
                let e = known.entry(k.signature.clone()).or_insert((0, f.msg.clone()));
                e.0 += 1;
            } else if unknown.is_none() {
                unknown = Some(f);
            }
        }
        unknown
    }

    fn eval<C: Serialize>(&self, f: &(impl Fn(&C) -> CaseResult + Sync), case: &C) -> CaseResult {
        CRASH_CTX.with(|c| {
            if let Ok(mut b) = c.try_borrow_mut() {
                let keep_part = b.as_ref().map(|x| x.part.clone()).unwrap_or_default();
                *b = Some(CrashCtx { id: self.id.clone(), part: CURRENT_PART.with(|p| p.borrow().clone().unwrap_or(keep_part)), case: case as *const C as *const (), to_json: case_to_json::<C> });
            }
        });
        let r = self.eval_inner(f, case);
        CRASH_CTX.with(|c| {
            if let Ok(mut b) = c.try_borrow_mut() {
                *b = None;
            }
        });
        r
    }

    fn eval_inner<C>(&self, f: &(impl Fn(&C) -> CaseResult + Sync), case: &C) -> CaseResult {
        match guarded(|| f(case)) {
            Ok(r) => r,
            Err((loc, msg)) => Err(vec![Failure::new(format!("{}|panic|{}", self.id, loc), format!("panic at {loc}: {msg}"))]),
        }
    }

    /// Sharded random search.  `cases` is the total number of generated cases.
    pub fn run_cases<S, C>(&mut self, part: &str, rule: &str, strategy: impl Fn() -> S + Sync, cases: u64, f: impl Fn(&C) -> CaseResult + Sync)
    where
        S: Strategy<Value = C>,
        C: Clone + std::fmt::Debug + Hash + Serialize + DeserializeOwned + Send,
    {
        if std::env::var("VERIF_ONLY_PART").map(|p| p != part).unwrap_or(false) {
            return; // development aid: run a single part
        }
        if let Some(r) = self.replay.clone() {
            if r.part != part {
                return;
            }
            let case: C = match serde_json::from_value(r.case.clone()) {
                Ok(c) => c,
                Err(e) => {
                    eprintln!("replay: cannot decode case for part {part}: {e}");
                    std::process::exit(2);
                }
            };
            self.replay_one(part, &case, &f);
            return;
        }
        // Regression tier: stored replays of this part.
        self.run_stored_replays(part, &f);

        let per = cases.div_ceil(SHARDS);
        let outs: Vec<ShardOut<C>> = {
            let this = &*self;
            let strategy = &strategy;
            let f = &f;
            std::thread::scope(|sc| {
                let hs: Vec<_> = (0..SHARDS)
                    .map(|shard| {
                        std::thread::Builder::new()
                            .stack_size(256 << 20)
                            .spawn_scoped(sc, move || this.run_shard(part, shard, per, &strategy(), f))
                            .expect("spawn")
                    })
                    .collect();
                hs.into_iter().map(|h| h.join().expect("shard thread")).collect()
            })
        };
        let mut st = PartStats { name: part.to_string(), rule: rule.to_string(), ..Default::default() };
        let mut nt: HashSet<u64> = HashSet::new();
        let mut seen_sigs = BTreeSet::new();
        for o in outs {
            st.evaluations += o.evaluations;
            nt.extend(o.nontrivial);
            for (k, v) in o.labels {
                *st.labels.entry(k.to_string()).or_default() += v;
            }
            for (k, (n, m)) in o.known {
                let e = self.known_hits.entry(k).or_insert((0, m));
                e.0 += n;
                st.known_masked += n;
            }
            if st.samples.len() < 4 {
                st.samples.extend(o.samples.into_iter().take(1));
            }
            if let Some((case, fl)) = o.failure {
                if seen_sigs.insert(fl.sig.clone()) && self.violations.len() < 8 {
                    self.record_violation(part, &case, &fl);
                }
            }
        }
        st.distinct_nontrivial = nt.len() as u64;
        self.parts.push(st);
    }

    fn run_shard<S, C>(&self, part: &str, shard: u64, n: u64, strategy: &S, f: &(impl Fn(&C) -> CaseResult + Sync)) -> ShardOut<C>
    where
        S: Strategy<Value = C>,
        C: Clone + std::fmt::Debug + Hash + Serialize,
    {
        CURRENT_PART.with(|p| *p.borrow_mut() = Some(part.to_string()));
        let mut runner = runner_for(self.seed, &self.id, part, shard);
        let mut out = ShardOut {
            evaluations: 0,
            nontrivial: HashSet::new(),
            labels: BTreeMap::new(),
            known: BTreeMap::new(),
            samples: vec![],
            failure: None,
        };
        for _ in 0..n {
            let mut tree = match strategy.new_tree(&mut runner) {
                Ok(t) => t,
                Err(_) => continue,
            };
            let case = tree.current();
            out.evaluations += 1;
            match self.eval(f, &case) {
                Ok(o) => {
                    for l in &o.labels {
                        *out.labels.entry(l).or_default() += 1;
                    }
                    if o.nontrivial {
                        let fresh = out.nontrivial.insert(fixed_hash(&case));
                        if fresh && out.samples.len() < 2 {
                            if let Ok(v) = serde_json::to_value(&case) {
                                out.samples.push(clip_sample(v));
                            }
                        }
                    }
                }
                Err(fails) => {
                    if let Some(fl) = self.triage(fails, &mut out.known) {
                        // shrink towards a minimal case failing with the same signature
                        let mut best = (case, fl.clone());
                        let mut steps = 0;
                        let mut scratch = BTreeMap::new();
                        'shrink: while steps < 4000 {
                            if !tree.simplify() {
                                break;
                            }
                            loop {
                                steps += 1;
                                let c = tree.current();
                                let same = match self.eval(f, &c) {
                                    Ok(_) => None,
                                    Err(fs) => self.triage(fs, &mut scratch).filter(|x| x.sig == fl.sig),
                                };
                                if let Some(x) = same {
                                    best = (c, x);
                                    break;
                                }
                                if !tree.complicate() || steps >= 4000 {
                                    break 'shrink;
                                }
                            }
                        }
                        out.failure = Some(best);
                        break;
                    }
                }
            }
        }
        out
    }

    /// Complete enumeration of a finite domain (parallel over 16 contiguous chunks).
    pub fn run_exhaustive<C>(&mut self, part: &str, rule: &str, cases: Vec<C>, f: impl Fn(&C) -> CaseResult + Sync)
    where
        C: Clone + std::fmt::Debug + Hash + Serialize + DeserializeOwned + Send + Sync,
    {
        self.run_list(part, rule, cases, true, f)
    }

    /// Evaluate a given list of cases (directed cases, golden vectors); not shrunk.
    pub fn run_list<C>(&mut self, part: &str, rule: &str, cases: Vec<C>, exhaustive: bool, f: impl Fn(&C) -> CaseResult + Sync)
    where
        C: Clone + std::fmt::Debug + Hash + Serialize + DeserializeOwned + Send + Sync,
    {
        if std::env::var("VERIF_ONLY_PART").map(|p| p != part).unwrap_or(false) {
            return;
        }
        if let Some(r) = self.replay.clone() {
            if r.part != part {
                return;
            }
            let case: C = serde_json::from_value(r.case.clone()).expect("decode replay case");
            self.replay_one(part, &case, &f);
            return;
        }
        self.run_stored_replays(part, &f);
        let chunk = cases.len().div_ceil(SHARDS as usize).max(1);
        let outs: Vec<ShardOut<C>> = {
            let this = &*self;
            let f = &f;
            std::thread::scope(|sc| {
                let hs: Vec<_> = cases
                    .chunks(chunk)
                    .map(|ch| {
                        std::thread::Builder::new()
                            .stack_size(256 << 20)
                            .spawn_scoped(sc, move || {
                                CURRENT_PART.with(|p| *p.borrow_mut() = Some(part.to_string()));
                                let mut out = ShardOut {
                                    evaluations: 0,
                                    nontrivial: HashSet::new(),
                                    labels: BTreeMap::new(),
                                    known: BTreeMap::new(),
                                    samples: vec![],
                                    failure: None,
                                };
                                for case in ch {
                                    out.evaluations += 1;
                                    match this.eval(f, case) {
                                        Ok(o) => {
                                            for l in &o.labels {
                                                *out.labels.entry(l).or_default() += 1;
                                            }
                                            if o.nontrivial && out.nontrivial.insert(fixed_hash(case)) && out.samples.len() < 2 {
                                                if let Ok(v) = serde_json::to_value(case) {
                                                    out.samples.push(clip_sample(v));
                                                }
                                            }
                                        }
                                        Err(fails) => {
                                            if let Some(fl) = this.triage(fails, &mut out.known) {
                                                if out.failure.is_none() {
                                                    out.failure = Some((case.clone(), fl));
                                                }
                                            }
                                        }
                                    }
                                }
                                out
                            })
                            .expect("spawn")
                    })
                    .collect();
                hs.into_iter().map(|h| h.join().expect("chunk thread")).collect()
            })
        };
        let mut st = PartStats { name: part.to_string(), rule: rule.to_string(), exhaustive, ..Default::default() };
        let mut nt: HashSet<u64> = HashSet::new();
        let mut seen_sigs = BTreeSet::new();
        for o in outs {
            st.evaluations += o.evaluations;
            nt.extend(o.nontrivial);
            for (k, v) in o.labels {
                *st.labels.entry(k.to_string()).or_default() += v;
            }
            for (k, (n, m)) in o.known {
                let e = self.known_hits.entry(k).or_insert((0, m));
                e.0 += n;
                st.known_masked += n;
            }
            if st.samples.len() < 4 {
                st.samples.extend(o.samples.into_iter().take(1));
            }
            if let Some((case, fl)) = o.failure {
                if seen_sigs.insert(fl.sig.clone()) && self.violations.len() < 8 {
                    self.record_violation(part, &case, &fl);
                }
            }
        }
        st.distinct_nontrivial = nt.len() as u64;
        self.parts.push(st);
    }

    fn replay_one<C: Serialize + std::fmt::Debug>(&mut self, part: &str, case: &C, f: &(impl Fn(&C) -> CaseResult + Sync)) {
        CURRENT_PART.with(|p| *p.borrow_mut() = Some(part.to_string()));
        let mut st = PartStats { name: part.to_string(), rule: "replay of a stored case".into(), evaluations: 1, ..Default::default() };
        match self.eval(f, case) {
            Ok(o) => {
                println!("replay: part={part} case holds (nontrivial={})", o.nontrivial);
                st.distinct_nontrivial = o.nontrivial as u64;
            }
            Err(fails) => {
                for fl in &fails {
                    println!("replay: FAIL sig={} :: {}", fl.sig, fl.msg);
                }
                let mut known = BTreeMap::new();
                if let Some(fl) = self.triage(fails, &mut known) {
                    self.record_violation(part, case, &fl);
                }
                for (k, (n, m)) in known {
                    let e = self.known_hits.entry(k).or_insert((0, m));
                    e.0 += n;
                }
            }
        }
        st.samples.push(clip_sample(serde_json::to_value(case).unwrap_or(Value::Null)));
        self.parts.push(st);
    }

    /// Every run first re-executes the committed regression inputs of this part.
    fn run_stored_replays<C: Serialize + DeserializeOwned + std::fmt::Debug>(&mut self, part: &str, f: &(impl Fn(&C) -> CaseResult + Sync)) {
        CURRENT_PART.with(|p| *p.borrow_mut() = Some(part.to_string()));
        let dir = Path::new(VERIF_DIR).join("replays").join(&self.id);
        let Ok(rd) = std::fs::read_dir(&dir) else { return };
        let mut files: Vec<PathBuf> = rd.filter_map(|e| e.ok().map(|e| e.path())).filter(|p| p.extension().map(|e| e == "json").unwrap_or(false)).collect();
        files.sort();
        let mut n = 0u64;
        for p in files {
            let Ok(txt) = std::fs::read_to_string(&p) else { continue };
            let Ok(r) = serde_json::from_str::<ReplayFile>(&txt) else { continue };
            if r.part != part {
                continue;
            }
            let Ok(case) = serde_json::from_value::<C>(r.case.clone()) else {
                self.warnings.push(format!("stored replay {} no longer decodes", p.display()));
                continue;
            };
            n += 1;
            if let Err(fails) = self.eval(f, &case) {
                let mut known = BTreeMap::new();
                if let Some(fl) = self.triage(fails, &mut known) {
                    println!("VIOLATION property={} replay={}", self.id, p.display());
                    println!("  part={} sig={} :: {}", part, fl.sig, first_line(&fl.msg, 600));
                    self.violations.push((fl.sig.clone(), p.clone(), fl.msg.clone()));
                }
                for (k, (c, m)) in known {
                    let e = self.known_hits.entry(k).or_insert((0, m));
                    e.0 += c;
                }
            }
        }
        if n > 0 {
            self.parts.push(PartStats {
                name: format!("{part}/stored-replays"),
                rule: "committed regression inputs under replays/".into(),
                evaluations: n,
                ..Default::default()
            });
        }
    }

    fn record_violation<C: Serialize + std::fmt::Debug>(&mut self, part: &str, case: &C, fl: &Failure) {
        let dir = Path::new(VERIF_DIR).join("replays").join(&self.id);
        let _ = std::fs::create_dir_all(&dir);
        let case_v = serde_json::to_value(case).unwrap_or_else(|_| json!(format!("{case:?}")));
        let rf = ReplayFile {
            property: self.id.clone(),
            part: part.to_string(),
            signature: fl.sig.clone(),
            message: fl.msg.clone(),
            case: case_v,
        };
        let body = serde_json::to_string_pretty(&rf).unwrap();
        let path = dir.join(format!("{:016x}.json", fixed_hash(&(part, &fl.sig, rf.case.to_string()))));
        if self.replay.is_none() {
            let _ = std::fs::write(&path, body);
        }
        println!("VIOLATION property={} replay={}", self.id, path.display());
        println!("  part={} sig={} :: {}", part, fl.sig, first_line(&fl.msg, 600));
        self.violations.push((fl.sig.clone(), path, fl.msg.clone()));
    }

    /// Register a part whose work was done by custom code.
    pub fn add_part(&mut self, st: PartStats) {
        self.parts.push(st);
    }

    pub fn warn(&mut self, w: impl Into<String>) {
        let w = w.into();
        eprintln!("warning: {w}");
        self.warnings.push(w);
    }

    /// Warn (never fail) when a mandatory label was not reached.
    pub fn expect_labels(&mut self, part: &str, labels: &[&str]) {
        if self.replay.is_some() {
            return;
        }
        let missing: Vec<String> = match self.parts.iter().find(|p| p.name == part) {
            Some(p) => labels.iter().filter(|l| p.labels.get(**l).copied().unwrap_or(0) == 0).map(|s| s.to_string()).collect(),
            None => vec![],
        };
        for m in missing {
            self.warn(format!("{}:{part}: mandatory label '{m}' was not reached in this run", self.id));
        }
    }

    /// Writes evidence and returns the process exit code.
    pub fn finish(mut self) -> i32 {
        if let Some(f) = self.parts_in.clone() {
            // parts of the same check produced by another binary (different cargo features)
            if let Ok(txt) = std::fs::read_to_string(&f) {
                if let Ok(v) = serde_json::from_str::<Value>(&txt) {
                    if let Ok(parts) = serde_json::from_value::<Vec<PartStats>>(v["parts"].clone()) {
                        self.parts.extend(parts);
                    }
                    for w in v["warnings"].as_array().cloned().unwrap_or_default() {
                        self.warnings.push(w.as_str().unwrap_or("").to_string());
                    }
                    for a in v["assumptions"].as_array().cloned().unwrap_or_default() {
                        self.assumptions.push(a.as_str().unwrap_or("").to_string());
                    }
                    for x in v["violations"].as_array().cloned().unwrap_or_default() {
                        self.violations.push((x[0].as_str().unwrap_or("").to_string(), PathBuf::from(x[1].as_str().unwrap_or("")), x[2].as_str().unwrap_or("").to_string()));
                    }
                }
            } else {
                self.warn(format!("parts file {f} of the companion binary is missing"));
            }
        }
        if let Some(f) = self.parts_out.clone() {
            for (sig, (n, example)) in &self.known_hits {
                let what = self.known.iter().find(|k| &k.signature == sig).map(|k| k.what.clone()).unwrap_or_default();
                println!("KNOWN-FINDING: property={} {} [signature {}; {} generated cases hit it; e.g. {}]", self.id, what, sig, n, first_line(example, 300));
            }
            let v = json!({"parts": self.parts, "warnings": self.warnings, "assumptions": self.assumptions,
                "violations": self.violations.iter().map(|(a, b, c)| json!([a, b.display().to_string(), c])).collect::<Vec<_>>()});
            if std::fs::write(&f, v.to_string()).is_err() {
                eprintln!("cannot write {f}");
                return 2;
            }
            return if self.violations.is_empty() { 0 } else { 1 };
        }
        for (sig, (n, example)) in &self.known_hits {
            let what = self.known.iter().find(|k| &k.signature == sig).map(|k| k.what.clone()).unwrap_or_default();
            println!("KNOWN-FINDING: property={} {} [signature {}; {} generated cases hit it; e.g. {}]", self.id, what, sig, n, first_line(example, 300));
        }
        let evaluations: u64 = self.parts.iter().map(|p| p.evaluations).sum();
        let distinct: u64 = self.parts.iter().map(|p| p.distinct_nontrivial).sum();
        let mut samples: Vec<Value> = vec![];
        for p in &self.parts {
            for s in p.samples.iter().take(2) {
                samples.push(json!({ "part": p.name, "case": s }));
            }
        }
        if samples.is_empty() {
            samples.push(json!("no non-trivial case was sampled in this run"));
        }
        let rule = self.parts.iter().filter(|p| !p.rule.is_empty()).map(|p| format!("[{}] {}", p.name, p.rule)).collect::<Vec<_>>().join(" || ");
        let exhaustive = !self.parts.is_empty() && self.parts.iter().all(|p| p.exhaustive);
        let parts: Vec<Value> = self
            .parts
            .iter()
            .map(|p| {
                json!({
                    "name": p.name, "evaluations": p.evaluations, "distinct_nontrivial": p.distinct_nontrivial,
                    "labels": p.labels, "known_finding_cases_masked": p.known_masked, "exhaustive": p.exhaustive,
                })
            })
            .collect();
        let ev = json!({
            "property_id": self.id,
            "tier": self.tier.name(),
            "seed": self.seed,
            "level": self.level,
            "coverage": {
                "evaluations": evaluations,
                "distinct_nontrivial": distinct,
                "rule": rule,
                "samples": samples,
                "exhaustive": exhaustive,
                "parts": parts,
                "warnings": self.warnings,
                "known_findings_hit": self.known_hits.iter().map(|(k, (n, _))| json!({"signature": k, "cases": n})).collect::<Vec<_>>(),
            },
            "assumptions": self.assumptions,
            "wall_s": self.start.elapsed().as_secs_f64(),
            "violations": self.violations.len(),
        });
        if self.replay.is_none() {
            let dir = Path::new(VERIF_DIR).join("evidence");
            let _ = std::fs::create_dir_all(&dir);
            let path = dir.join(format!("{}.json", self.id));
            if let Err(e) = std::fs::write(&path, serde_json::to_string_pretty(&ev).unwrap()) {
                eprintln!("cannot write evidence {}: {e}", path.display());
                return 2;
            }
        }
        println!(
            "{} tier={} seed={} evaluations={} distinct_nontrivial={} violations={} known_findings_hit={} wall={:.1}s",
            self.id,
            self.tier.name(),
            self.seed,
            evaluations,
            distinct,
            self.violations.len(),
            self.known_hits.len(),
            self.start.elapsed().as_secs_f64()
        );
        if self.violations.is_empty() {
            0
        } else {
            1
        }
    }
}

pub fn first_line(s: &str, max: usize) -> String {
    let l = s.lines().next().unwrap_or("");
    if l.len() > max {
        let mut end = max;
        while !l.is_char_boundary(end) {
            end -= 1;
        }
        format!("{}…", &l[..end])
    } else {
        l.to_string()
    }
}

pub fn load_known(id: &str) -> Vec<KnownFinding> {
    let p = Path::new(VERIF_DIR).join("known_findings.jsonl");
    let Ok(txt) = std::fs::read_to_string(p) else { return vec![] };
    txt.lines()
        .filter(|l| !l.trim().is_empty() && !l.trim_start().starts_with('#'))
        .filter_map(|l| serde_json::from_str::<KnownFinding>(l).ok())
        .filter(|k| k.property == id)
        .collect()
}

/// Guard against concurrent stdout interleaving in helper threads.
pub static PRINT_LOCK: Mutex<()> = Mutex::new(());

/// Monotone index mapping (shrinks towards element 0), for strategies that pick from pools.
pub fn pick_idx(raw: u16, len: usize) -> usize {
    ((raw as usize) * len) >> 16
}
