//! Generators (pure data in refevm types; no dependency on the code under test).
pub mod pool;
pub mod prog;
pub mod world;
pub use refevm;
