//! Fixed address / key pools (fixed so that shrinking is meaningful).
use refevm::{Address, Hash, U256};

pub const N_EOA: u8 = 4;
pub const N_CONTRACT: u8 = 6;

/// Index space of `addr(i)`:
/// 0..4 EOAs, 4..10 contract slots, 10..12 empty-but-existing, 12..14 non-existent,
/// 14 dedicated coinbase, 15 whale, 16..33 precompiles 0x01..0x11, 33 = 0x100,
/// 34 EIP-2935 history contract, 35 EIP-4788 beacon roots, 36 zero address, 37.. derived.
pub const IDX_EOA0: u8 = 0;
pub const IDX_CONTRACT0: u8 = 4;
pub const IDX_EMPTY0: u8 = 10;
pub const IDX_NONE0: u8 = 12;
pub const IDX_COINBASE: u8 = 14;
pub const IDX_WHALE: u8 = 15;
pub const IDX_PRECOMPILE0: u8 = 16;
pub const IDX_P256: u8 = 33;
pub const IDX_HISTORY: u8 = 34;
pub const IDX_BEACON: u8 = 35;
pub const IDX_ZERO: u8 = 36;
pub const N_FIXED: u8 = 37;

fn tagged(tag: u8, i: u8) -> Address {
    let mut a = [0u8; 20];
    a[0] = tag;
    a[1] = 0x5e;
    a[18] = tag;
    a[19] = i;
    a
}

pub fn low(n: u16) -> Address {
    let mut a = [0u8; 20];
    a[18] = (n >> 8) as u8;
    a[19] = n as u8;
    a
}

pub fn eoa(i: u8) -> Address {
    tagged(0xe0, i % N_EOA)
}
pub fn contract(i: u8) -> Address {
    tagged(0xc0, i % N_CONTRACT)
}

pub fn hexaddr(s: &str) -> Address {
    let v = hex::decode(s).unwrap();
    let mut a = [0u8; 20];
    a.copy_from_slice(&v);
    a
}

/// The fixed part of the pool.
pub fn addr(i: u8) -> Address {
    match i {
        0..=3 => eoa(i),
        4..=9 => contract(i - 4),
        10 | 11 => tagged(0xee, i - 10),
        12 | 13 => tagged(0x0f, i - 12),
        14 => tagged(0xcb, 0),
        15 => tagged(0xaa, 0),
        16..=32 => low((i - 15) as u16),
        33 => low(0x100),
        34 => hexaddr("0000f90827f1c53a10cb7a02335b175320002935"),
        35 => hexaddr("000f3df6d732807ef1319fb7b8bb8522d0beac02"),
        36 => [0u8; 20],
        // derived: CREATE addresses of the contract slots (nonces 0..3) and of the EOAs (nonces 0..2)
        37..=54 => refevm::create_address(contract((i - 37) / 3), ((i - 37) % 3) as u64),
        55..=62 => refevm::create_address(eoa((i - 55) / 2), ((i - 55) % 2) as u64),
        // CREATE addresses of the second "empty" slot (nonces 1..3): C07's sibling-prefix contract lives there
        63..=65 => refevm::create_address(tagged(0xee, 1), (i - 62) as u64),
        _ => addr(i % 63),
    }
}

pub fn key(i: u8) -> U256 {
    match i % 7 {
        0 => U256::zero(),
        1 => U256::one(),
        2 => U256::from(2),
        3 => U256::from(3),
        4 => U256::MAX,
        5 => U256::from_big_endian(&refevm::keccak256(b"key5")),
        _ => U256::from(0x100),
    }
}

pub fn h(b: u8) -> Hash {
    let mut x = [0u8; 32];
    x[31] = b;
    x
}

pub fn addr_word(a: &Address) -> U256 {
    U256::from_big_endian(a)
}
