//! Program AST, assembler and proptest strategies for legacy EVM bytecode.
use crate::pool;
use refevm::U256;
use serde::{Deserialize, Serialize};
use vcore::proptest::prelude::*;

#[derive(Clone, Debug, Hash, PartialEq, Eq, Serialize, Deserialize)]
pub enum Arg {
    N(u64),
    W(U256),
    /// pool address (fixed part)
    Addr(u8),
    /// pool address with garbage in the upper 96 bits (must be ignored by the EVM)
    AddrDirty(u8),
    /// explicit address (derived addresses)
    A([u8; 20]),
    Key(u8),
    /// all remaining gas (GAS opcode)
    GasAll,
}

#[derive(Clone, Debug, Hash, PartialEq, Eq, Serialize, Deserialize)]
pub enum Sink {
    Pop,
    Sstore(u8),
    Mstore(u16),
    Keep,
}

#[derive(Clone, Debug, Hash, PartialEq, Eq, Serialize, Deserialize)]
pub enum Term {
    Stop,
    Return(Arg, Arg),
    Revert(Arg, Arg),
    Invalid,
    SelfDestruct(Arg),
    /// no terminator: execution falls off the end of the code
    FallOff,
}

#[derive(Clone, Debug, Hash, PartialEq, Eq, Serialize, Deserialize)]
pub enum Init {
    /// constructor statements, then deploys `runtime`
    Deploy { ctor: Vec<Stmt>, runtime: Box<Program> },
    /// constructor that returns exactly these bytes as runtime code
    ReturnBytes(Vec<u8>),
    Revert,
    Invalid,
    /// returns `n` zero bytes as runtime code (code size limit)
    ReturnZeros(u32),
    /// empty initcode
    Empty,
    /// arbitrary initcode bytes
    RawInit(Vec<u8>),
    /// initcode of `n` bytes (JUMPDEST filler + STOP): initcode size limit
    Big(u32),
}

#[derive(Clone, Debug, Hash, PartialEq, Eq, Serialize, Deserialize)]
pub enum Stmt {
    Op { op: u8, args: Vec<Arg>, sink: Sink },
    Call { kind: u8, gas: Arg, to: Arg, value: Arg, in_off: Arg, in_len: Arg, out_off: Arg, out_len: Arg, status: Sink, rdsize: Option<Sink>, rdcopy: Option<(Arg, Arg, Arg)> },
    Create { create2: bool, value: Arg, salt: Arg, init: Init, status: Sink },
    Loop { n: u8, body: Vec<Stmt> },
    Skip { cond: Arg, body: Vec<Stmt> },
    BadJump { target: Arg, cond: Option<Arg> },
    Raw(Vec<u8>),
    Term(Term),
}

#[derive(Clone, Debug, Hash, PartialEq, Eq, Serialize, Deserialize)]
pub struct Program {
    pub body: Vec<Stmt>,
    pub end: Term,
}

/// (inputs, outputs) of an opcode as used by the assembler for sinks; unknown bytes are (0,0).
pub fn op_io(op: u8) -> (u8, u8) {
    match op {
        0x01..=0x07 | 0x0a | 0x0b | 0x10..=0x14 | 0x16..=0x18 | 0x1a..=0x1d | 0x20 => (2, 1),
        0x08 | 0x09 => (3, 1),
        0x15 | 0x19 | 0x31 | 0x35 | 0x3b | 0x3f | 0x40 | 0x49 | 0x51 | 0x54 | 0x5c => (1, 1),
        0x30 | 0x32..=0x34 | 0x36 | 0x38 | 0x3a | 0x3d | 0x41..=0x48 | 0x4a | 0x58..=0x5a | 0x5f => (0, 1),
        0x37 | 0x39 | 0x3e | 0x5e => (3, 0),
        0x3c => (4, 0),
        0x50 => (1, 0),
        0x52 | 0x53 | 0x55 | 0x5d => (2, 0),
        0x80..=0x8f => (op - 0x7f, op - 0x7f + 1),
        0x90..=0x9f => (op - 0x8f + 1, op - 0x8f + 1),
        0xa0..=0xa4 => (2 + (op - 0xa0), 0),
        _ => (0, 0),
    }
}

// ------------------------------------------------------------------------------------------
// assembler
// ------------------------------------------------------------------------------------------

#[derive(Default)]
pub struct Asm {
    pub code: Vec<u8>,
    labels: Vec<Option<usize>>,
    fixups: Vec<(usize, usize)>,
    data: Vec<(usize, Vec<u8>)>,
}

impl Asm {
    fn new_label(&mut self) -> usize {
        self.labels.push(None);
        self.labels.len() - 1
    }
    fn place(&mut self, l: usize) {
        self.labels[l] = Some(self.code.len());
    }
    fn push_label(&mut self, l: usize) {
        self.code.push(0x61);
        self.fixups.push((self.code.len(), l));
        self.code.extend_from_slice(&[0, 0]);
    }
    pub fn push_u256(&mut self, v: U256) {
        let mut be = [0u8; 32];
        v.to_big_endian(&mut be);
        let skip = be.iter().take_while(|b| **b == 0).count().min(31);
        let n = 32 - skip;
        self.code.push(0x5f + n as u8);
        self.code.extend_from_slice(&be[skip..]);
    }
    pub fn push_n(&mut self, n: u64) {
        self.push_u256(U256::from(n));
    }
    pub fn op(&mut self, b: u8) {
        self.code.push(b);
    }
    pub fn arg(&mut self, a: &Arg) {
        match a {
            Arg::N(n) => self.push_n(*n),
            Arg::W(w) => self.push_u256(*w),
            Arg::Addr(i) => self.push_u256(pool::addr_word(&pool::addr(*i))),
            Arg::A(a) => self.push_u256(pool::addr_word(a)),
            Arg::AddrDirty(i) => {
                let w = pool::addr_word(&pool::addr(*i)) | (U256::from(0xdead_beef_u64) << 200);
                self.push_u256(w)
            }
            Arg::Key(k) => self.push_u256(pool::key(*k)),
            Arg::GasAll => self.op(0x5a),
        }
    }
    fn sink(&mut self, s: &Sink) {
        match s {
            Sink::Pop => self.op(0x50),
            Sink::Sstore(k) => {
                self.push_u256(pool::key(*k));
                self.op(0x55)
            }
            Sink::Mstore(off) => {
                self.push_n(*off as u64);
                self.op(0x52)
            }
            Sink::Keep => {}
        }
    }
    fn term(&mut self, t: &Term) {
        match t {
            Term::Stop => self.op(0x00),
            Term::Return(o, l) => {
                self.arg(l);
                self.arg(o);
                self.op(0xf3)
            }
            Term::Revert(o, l) => {
                self.arg(l);
                self.arg(o);
                self.op(0xfd)
            }
            Term::Invalid => self.op(0xfe),
            Term::SelfDestruct(a) => {
                self.arg(a);
                self.op(0xff)
            }
            Term::FallOff => {}
        }
    }
    fn stmts(&mut self, ss: &[Stmt]) {
        for s in ss {
            self.stmt(s);
        }
    }
    fn stmt(&mut self, s: &Stmt) {
        match s {
            Stmt::Op { op, args, sink } => {
                for a in args.iter().rev() {
                    self.arg(a);
                }
                self.op(*op);
                let (_, outs) = op_io(*op);
                if outs > 0 {
                    self.sink(sink);
                    for _ in 1..outs {
                        self.op(0x50);
                    }
                }
            }
            Stmt::Call { kind, gas, to, value, in_off, in_len, out_off, out_len, status, rdsize, rdcopy } => {
                self.arg(out_len);
                self.arg(out_off);
                self.arg(in_len);
                self.arg(in_off);
                if *kind == 0xf1 || *kind == 0xf2 {
                    self.arg(value);
                }
                self.arg(to);
                self.arg(gas);
                self.op(*kind);
                self.sink(status);
                if let Some(s) = rdsize {
                    self.op(0x3d);
                    self.sink(s);
                }
                if let Some((d, o, l)) = rdcopy {
                    self.arg(l);
                    self.arg(o);
                    self.arg(d);
                    self.op(0x3e);
                }
            }
            Stmt::Create { create2, value, salt, init, status } => {
                let blob = assemble_init(init);
                let len = blob.len() as u64;
                let l = self.new_label();
                self.data.push((l, blob));
                // CODECOPY(0, label, len)
                self.push_n(len);
                self.push_label(l);
                self.push_n(0);
                self.op(0x39);
                if *create2 {
                    self.arg(salt);
                }
                self.push_n(len);
                self.push_n(0);
                self.arg(value);
                self.op(if *create2 { 0xf5 } else { 0xf0 });
                self.sink(status);
            }
            Stmt::Loop { n, body } => {
                self.push_n(*n as u64);
                let l = self.new_label();
                self.place(l);
                self.op(0x5b);
                self.stmts(body);
                self.push_n(1);
                self.op(0x90); // SWAP1
                self.op(0x03); // SUB
                self.op(0x80); // DUP1
                self.push_label(l);
                self.op(0x57);
                self.op(0x50);
            }
            Stmt::Skip { cond, body } => {
                let l = self.new_label();
                self.arg(cond);
                self.push_label(l);
                self.op(0x57);
                self.stmts(body);
                self.place(l);
                self.op(0x5b);
            }
            Stmt::BadJump { target, cond } => {
                if let Some(c) = cond {
                    self.arg(c);
                    self.arg(target);
                    self.op(0x57);
                } else {
                    self.arg(target);
                    self.op(0x56);
                }
            }
            Stmt::Raw(b) => self.code.extend_from_slice(b),
            Stmt::Term(t) => self.term(t),
        }
    }
    fn finish(mut self) -> Vec<u8> {
        let data = std::mem::take(&mut self.data);
        for (l, blob) in data {
            self.place(l);
            self.code.extend_from_slice(&blob);
        }
        for (pos, l) in &self.fixups {
            let t = self.labels[*l].unwrap_or(0xffff).min(0xffff);
            self.code[*pos] = (t >> 8) as u8;
            self.code[*pos + 1] = t as u8;
        }
        self.code
    }
}

pub fn assemble(p: &Program) -> Vec<u8> {
    let mut a = Asm::default();
    a.stmts(&p.body);
    a.term(&p.end);
    a.finish()
}

/// Initcode that copies `runtime` to memory and returns it.
pub fn deployer(ctor: &[Stmt], runtime: &[u8]) -> Vec<u8> {
    let mut a = Asm::default();
    a.stmts(ctor);
    let l = a.new_label();
    a.push_n(runtime.len() as u64);
    a.push_label(l);
    a.push_n(0);
    a.op(0x39);
    a.push_n(runtime.len() as u64);
    a.push_n(0);
    a.op(0xf3);
    a.data.push((l, runtime.to_vec()));
    a.finish()
}

pub fn assemble_init(init: &Init) -> Vec<u8> {
    match init {
        Init::Deploy { ctor, runtime } => deployer(ctor, &assemble(runtime)),
        Init::ReturnBytes(b) => deployer(&[], b),
        Init::Revert => vec![0x60, 0x00, 0x60, 0x00, 0xfd],
        Init::Invalid => vec![0xfe],
        Init::ReturnZeros(n) => {
            let mut a = Asm::default();
            a.push_n(*n as u64);
            a.push_n(0);
            a.op(0xf3);
            a.finish()
        }
        Init::Empty => vec![],
        Init::RawInit(b) => b.clone(),
        Init::Big(n) => {
            let mut v = vec![0x00];
            v.resize((*n as usize).max(1), 0x5b);
            v
        }
    }
}

// ------------------------------------------------------------------------------------------
// strategies
// ------------------------------------------------------------------------------------------

/// What the program generator may refer to.
#[derive(Clone, Debug)]
pub struct GenCfg {
    /// addresses worth calling (pool indices)
    pub callees: Vec<u8>,
    /// extra explicit addresses (derived create addresses)
    pub extra_addrs: Vec<[u8; 20]>,
    pub max_stmts: usize,
    pub depth: u32,
    /// allow CREATE/CREATE2 templates
    pub creates: bool,
    /// bias call templates towards STATICCALL (C10)
    pub static_bias: bool,
    /// weight of call templates among statements (generic ops have 14)
    pub call_weight: u32,
}

impl Default for GenCfg {
    fn default() -> Self {
        GenCfg { callees: (pool::IDX_CONTRACT0..pool::IDX_CONTRACT0 + 5).collect(), extra_addrs: vec![], max_stmts: 8, depth: 2, creates: true, static_bias: false, call_weight: 6 }
    }
}

pub fn mem_off() -> BoxedStrategy<Arg> {
    prop_oneof![
        36 => prop::sample::select(vec![0u64, 1, 31, 32, 33, 64, 96, 128, 255, 256, 320]).prop_map(Arg::N),
        8 => (0u64..400).prop_map(Arg::N),
        1 => prop::sample::select(vec![1u64 << 16, 1 << 24, (1 << 32) - 1, 1 << 32, u64::MAX - 31, u64::MAX]).prop_map(Arg::N),
        1 => prop::sample::select(vec![U256::from(1u128 << 64), U256::one() << 255, U256::MAX]).prop_map(Arg::W),
    ]
    .boxed()
}

pub fn len_arg() -> BoxedStrategy<Arg> {
    prop_oneof![
        36 => prop::sample::select(vec![0u64, 1, 2, 31, 32, 33, 64, 65, 100]).prop_map(Arg::N),
        6 => (0u64..200).prop_map(Arg::N),
        1 => prop::sample::select(vec![1u64 << 16, 1 << 20, (1 << 32) - 1, 1 << 32, u64::MAX]).prop_map(Arg::N),
        1 => prop::sample::select(vec![U256::from(1u128 << 64), U256::one() << 255, U256::MAX]).prop_map(Arg::W),
    ]
    .boxed()
}

pub fn edge_u256() -> Vec<U256> {
    let mut v = vec![U256::zero(), U256::one(), U256::from(2), U256::MAX, U256::MAX - 1, U256::one() << 255, (U256::one() << 255) - 1, (U256::one() << 255) + 1];
    for k in [8usize, 16, 32, 64, 128, 160, 255] {
        v.push(U256::one() << k);
        v.push((U256::one() << k) - 1);
    }
    v
}

pub fn val_arg() -> BoxedStrategy<Arg> {
    prop_oneof![
        5 => (0u64..40).prop_map(Arg::N),
        3 => prop::sample::select(edge_u256()).prop_map(Arg::W),
        2 => any::<[u8; 32]>().prop_map(|b| Arg::W(U256::from_big_endian(&b))),
        1 => any::<u64>().prop_map(Arg::N),
        1 => (0u8..pool::N_FIXED).prop_map(Arg::Addr),
    ]
    .boxed()
}

pub fn addr_arg(cfg: &GenCfg) -> BoxedStrategy<Arg> {
    let callees = cfg.callees.clone();
    let extra = cfg.extra_addrs.clone();
    let mut v: Vec<(u32, BoxedStrategy<Arg>)> = vec![
        (10, prop::sample::select(callees.clone()).prop_map(Arg::Addr).boxed()),
        (1, prop::sample::select(callees).prop_map(Arg::AddrDirty).boxed()),
        (2, (0u8..pool::N_FIXED).prop_map(Arg::Addr).boxed()),
        (1, any::<[u8; 20]>().prop_map(Arg::A).boxed()),
    ];
    if !extra.is_empty() {
        v.push((4, prop::sample::select(extra).prop_map(Arg::A).boxed()));
    }
    proptest::strategy::Union::new_weighted(v).boxed()
}
use vcore::proptest;

pub fn key_arg() -> BoxedStrategy<Arg> {
    prop_oneof![8 => (0u8..7).prop_map(Arg::Key), 1 => (0u64..5).prop_map(Arg::N)].boxed()
}

pub fn sink() -> BoxedStrategy<Sink> {
    prop_oneof![
        3 => Just(Sink::Pop),
        4 => (0u8..7).prop_map(Sink::Sstore),
        4 => prop::sample::select(vec![0u16, 32, 64, 96, 128]).prop_map(Sink::Mstore),
    ]
    .boxed()
}

pub fn gas_arg() -> BoxedStrategy<Arg> {
    prop_oneof![
        4 => Just(Arg::GasAll),
        6 => prop::sample::select(vec![0u64, 1, 100, 700, 2299, 2300, 2301, 5000, 10_000, 30_000, 100_000, 1_000_000]).prop_map(Arg::N),
        1 => Just(Arg::W(U256::MAX)),
        1 => any::<u32>().prop_map(|g| Arg::N(g as u64 % 200_000)),
    ]
    .boxed()
}

pub fn value_arg() -> BoxedStrategy<Arg> {
    prop_oneof![
        8 => Just(Arg::N(0)),
        4 => Just(Arg::N(1)),
        3 => (0u64..100_000).prop_map(Arg::N),
        1 => Just(Arg::W(U256::from(10u64).pow(U256::from(18)))),
        1 => Just(Arg::W(U256::MAX)),
        1 => Just(Arg::W(U256::one() << 255)),
    ]
    .boxed()
}

/// Every byte that may appear as a generic op (jumps, calls, creates and terminators have templates).
fn generic_op(cfg: &GenCfg) -> BoxedStrategy<Stmt> {
    let a = addr_arg(cfg);
    let defined: Vec<u8> = (0u8..=0xff).filter(|o| matches!(o, 0x01..=0x0b | 0x10..=0x1d | 0x20 | 0x30..=0x4a | 0x50..=0x55 | 0x58..=0x5f | 0x80..=0xa4)).collect();
    let anyop: Vec<u8> = (0u8..=0xff).filter(|o| !matches!(o, 0x56 | 0x57 | 0x60..=0x7f | 0xf0..=0xff | 0x00)).collect();
    let state_ops: Vec<u8> = vec![0x54, 0x55, 0x55, 0x5c, 0x5d, 0x31, 0x3b, 0x3c, 0x3f, 0x47, 0x5a, 0xa0, 0xa1, 0xa2, 0x51, 0x52, 0x20, 0x37, 0x3e, 0x5e];
    let opsel = prop_oneof![12 => prop::sample::select(defined), 6 => prop::sample::select(state_ops), 1 => prop::sample::select(anyop)];
    (opsel, sink(), prop::collection::vec(val_arg(), 17), mem_off(), mem_off(), len_arg(), a, key_arg(), 0u64..600)
        .prop_map(|(op, sink, vals, m1, m2, len, addr, key, small)| {
            let v = |i: usize| vals[i].clone();
            let args: Vec<Arg> = match op {
                0x0a => vec![v(0), if small % 3 == 0 { v(1) } else { Arg::N(small % 70) }],
                0x0b | 0x1a => vec![Arg::N(small % 34), v(0)],
                0x1b..=0x1d => vec![if small % 4 == 0 { v(1) } else { Arg::N(small % 260) }, v(0)],
                0x20 => vec![m1, len],
                0x31 | 0x3b | 0x3f => vec![addr],
                0x35 => vec![if small % 5 == 0 { m1 } else { Arg::N(small % 40) }],
                0x37 | 0x39 | 0x3e => vec![m1, if small % 5 == 0 { m2 } else { Arg::N(small % 70) }, len],
                0x3c => vec![addr, m1, if small % 5 == 0 { m2 } else { Arg::N(small % 70) }, len],
                0x40 => vec![Arg::N(small)],
                0x49 => vec![Arg::N(small % 8)],
                0x51 => vec![m1],
                0x52 | 0x53 => vec![m1, v(0)],
                0x54 | 0x5c => vec![key],
                0x55 | 0x5d => vec![key, if small % 3 == 0 { Arg::N(0) } else { v(0) }],
                0x5e => vec![m1, m2, len],
                0xa0..=0xa4 => {
                    let mut x = vec![m1, len];
                    for i in 0..(op - 0xa0) as usize {
                        x.push(v(i));
                    }
                    x
                }
                _ => {
                    let (ins, _) = op_io(op);
                    (0..ins as usize).map(v).collect()
                }
            };
            Stmt::Op { op, args, sink }
        })
        .boxed()
}

fn call_stmt(cfg: &GenCfg) -> BoxedStrategy<Stmt> {
    (
        prop::sample::select(if cfg.static_bias { vec![0xf1u8, 0xf2, 0xf4, 0xfa, 0xfa, 0xfa] } else { vec![0xf1u8, 0xf1, 0xf1, 0xf2, 0xf4, 0xfa] }),
        gas_arg(),
        addr_arg(cfg),
        value_arg(),
        (mem_off(), len_arg(), mem_off(), len_arg()),
        sink(),
        prop::option::weighted(0.4, sink()),
        prop::option::weighted(0.3, (mem_off(), prop_oneof![4 => (0u64..40).prop_map(Arg::N), 1 => mem_off()], len_arg())),
    )
        .prop_map(|(kind, gas, to, value, (in_off, in_len, out_off, out_len), status, rdsize, rdcopy)| Stmt::Call { kind, gas, to, value, in_off, in_len, out_off, out_len, status, rdsize, rdcopy })
        .boxed()
}

fn term(cfg: &GenCfg) -> BoxedStrategy<Term> {
    prop_oneof![
        5 => Just(Term::Stop),
        5 => (mem_off(), len_arg()).prop_map(|(o, l)| Term::Return(o, l)),
        3 => (mem_off(), len_arg()).prop_map(|(o, l)| Term::Revert(o, l)),
        1 => Just(Term::Invalid),
        2 => addr_arg(cfg).prop_map(Term::SelfDestruct),
        2 => Just(Term::FallOff),
    ]
    .boxed()
}

fn raw_bytes() -> BoxedStrategy<Vec<u8>> {
    prop_oneof![
        3 => prop::collection::vec(any::<u8>(), 1..24),
        1 => prop::collection::vec(prop_oneof![Just(0x5bu8), 0x60u8..=0x7f, Just(0x56u8), Just(0x57u8), Just(0x5au8), Just(0x80u8)], 1..24),
        1 => (0x60u8..=0x7f).prop_map(|p| vec![p]),
    ]
    .boxed()
}

fn init(cfg: &GenCfg, depth: u32) -> BoxedStrategy<Init> {
    let sub = GenCfg { max_stmts: 4, depth: 0, creates: false, ..cfg.clone() };
    let mut v: Vec<(u32, BoxedStrategy<Init>)> = vec![
        (3, prop::collection::vec(any::<u8>(), 0..40).prop_map(Init::ReturnBytes).boxed()),
        (1, prop::collection::vec(any::<u8>(), 0..6).prop_map(|mut b| { b.insert(0, 0xef); Init::ReturnBytes(b) }).boxed()),
        (1, Just(Init::Revert).boxed()),
        (1, Just(Init::Invalid).boxed()),
        (1, prop::sample::select(vec![0u32, 1, 24575, 24576, 24577, 30000]).prop_map(Init::ReturnZeros).boxed()),
        (1, Just(Init::Empty).boxed()),
        (1, prop::collection::vec(any::<u8>(), 0..30).prop_map(Init::RawInit).boxed()),
    ];
    if depth > 0 {
        v.push((6, (stmts(&sub, 0, 3), program(&sub, depth - 1)).prop_map(|(ctor, rt)| Init::Deploy { ctor, runtime: Box::new(rt) }).boxed()));
    } else {
        v.push((4, stmts(&sub, 0, 3).prop_map(|ctor| Init::Deploy { ctor, runtime: Box::new(Program { body: vec![], end: Term::Stop }) }).boxed()));
    }
    proptest::strategy::Union::new_weighted(v).boxed()
}

fn create_stmt(cfg: &GenCfg, depth: u32) -> BoxedStrategy<Stmt> {
    (any::<bool>(), value_arg(), prop_oneof![3 => Just(Arg::N(0)), 1 => Just(Arg::N(1)), 1 => val_arg()], init(cfg, depth), sink())
        .prop_map(|(create2, value, salt, init, status)| Stmt::Create { create2, value, salt, init, status })
        .boxed()
}

pub fn stmt(cfg: &GenCfg, depth: u32) -> BoxedStrategy<Stmt> {
    let mut v: Vec<(u32, BoxedStrategy<Stmt>)> = vec![
        (14, generic_op(cfg)),
        (cfg.call_weight, call_stmt(cfg)),
        (2, raw_bytes().prop_map(Stmt::Raw).boxed()),
        (1, (prop_oneof![(0u64..700).prop_map(Arg::N), val_arg()], prop::option::of(val_arg())).prop_map(|(target, cond)| Stmt::BadJump { target, cond }).boxed()),
        (1, term(cfg).prop_map(Stmt::Term).boxed()),
    ];
    if cfg.creates {
        v.push((3, create_stmt(cfg, depth)));
    }
    if depth > 0 {
        v.push((2, (1u8..4, stmts(cfg, depth - 1, 4)).prop_map(|(n, body)| Stmt::Loop { n, body }).boxed()));
        v.push((2, (prop_oneof![Just(Arg::N(0)), Just(Arg::N(1)), val_arg()], stmts(cfg, depth - 1, 4)).prop_map(|(cond, body)| Stmt::Skip { cond, body }).boxed()));
    }
    proptest::strategy::Union::new_weighted(v).boxed()
}

pub fn stmts(cfg: &GenCfg, depth: u32, max: usize) -> BoxedStrategy<Vec<Stmt>> {
    prop::collection::vec(stmt(cfg, depth), 0..=max).boxed()
}

pub fn program(cfg: &GenCfg, depth: u32) -> BoxedStrategy<Program> {
    (stmts(cfg, depth, cfg.max_stmts), term(cfg)).prop_map(|(body, end)| Program { body, end }).boxed()
}
