//! World generator: spec, pre-state, block, transaction (DESIGN.md 3.1).
use crate::pool::{self, *};
use crate::prog::{self, assemble, assemble_init, GenCfg, Init, Program};
use refevm::{Account, Address, Authorization, Block, Fork, Tx, TxType, World, U256};
use serde::{Deserialize, Serialize};
use vcore::proptest;
use vcore::proptest::prelude::*;

/// Names of revm's mainnet SpecIds in enum order (index = `WorldCase::spec`).
pub const SPEC_NAMES: [&str; 20] = [
    "FRONTIER", "FRONTIER_THAWING", "HOMESTEAD", "DAO_FORK", "TANGERINE", "SPURIOUS_DRAGON", "BYZANTIUM", "CONSTANTINOPLE", "PETERSBURG", "ISTANBUL", "MUIR_GLACIER", "BERLIN", "LONDON",
    "ARROW_GLACIER", "GRAY_GLACIER", "MERGE", "SHANGHAI", "CANCUN", "PRAGUE", "OSAKA",
];
pub const SPEC_OSAKA: u8 = 19;
pub const SPEC_PRAGUE: u8 = 18;

/// Reference rule set of a spec index (None for OSAKA: no reference exists).
pub fn fork_of(spec: u8) -> Option<Fork> {
    Some(match spec {
        0 | 1 => Fork::Frontier,
        2 | 3 => Fork::Homestead,
        4 => Fork::Tangerine,
        5 => Fork::SpuriousDragon,
        6 => Fork::Byzantium,
        7 | 8 => Fork::Petersburg,
        9 | 10 => Fork::Istanbul,
        11 => Fork::Berlin,
        12..=14 => Fork::London,
        15 => Fork::Merge,
        16 => Fork::Shanghai,
        17 => Fork::Cancun,
        18 => Fork::Prague,
        _ => return None,
    })
}

pub const CHAIN_ID: u64 = 1;

#[derive(Clone, Debug, Hash, PartialEq, Eq, Serialize, Deserialize)]
pub enum Code {
    None,
    Prog(Program),
    Raw(Vec<u8>),
    /// EIP-7702 delegation designator to a pool address
    Delegation(u8),
}

impl Code {
    pub fn bytes(&self) -> Vec<u8> {
        match self {
            Code::None => vec![],
            Code::Prog(p) => assemble(p),
            Code::Raw(b) => b.clone(),
            Code::Delegation(i) => {
                let mut v = vec![0xef, 0x01, 0x00];
                v.extend_from_slice(&pool::addr(*i));
                v
            }
        }
    }
}

#[derive(Clone, Debug, Hash, PartialEq, Eq, Serialize, Deserialize)]
pub struct AccountSpec {
    pub addr: u8,
    pub balance: U256,
    pub nonce: u64,
    pub code: Code,
    pub storage: Vec<(u8, U256)>,
}

#[derive(Clone, Debug, Hash, PartialEq, Eq, Serialize, Deserialize)]
pub struct BlockSpec {
    pub number: u64,
    pub timestamp: u64,
    pub gas_limit: u64,
    pub base_fee: U256,
    pub difficulty: U256,
    pub prevrandao: u8,
    pub excess_blob_gas: u64,
    pub coinbase: u8,
}

#[derive(Clone, Debug, Hash, PartialEq, Eq, Serialize, Deserialize)]
pub enum GasSel {
    Fixed(u64),
    /// intrinsic gas + delta
    Intrinsic(i16),
    /// max(intrinsic, floor) + delta
    Floor(i16),
    /// block gas limit + delta
    BlockLimit(i8),
}

#[derive(Clone, Debug, Hash, PartialEq, Eq, Serialize, Deserialize)]
pub enum PriceSel {
    /// base fee + delta (delta may be negative)
    BaseFeePlus(i64),
    Fixed(U256),
}

#[derive(Clone, Debug, Hash, PartialEq, Eq, Serialize, Deserialize)]
pub enum NonceSel {
    Correct,
    Delta(i8),
    Fixed(u64),
    /// check disabled (tx.nonce = None)
    Unchecked,
}

#[derive(Clone, Debug, Hash, PartialEq, Eq, Serialize, Deserialize)]
pub enum ChainSel {
    Correct,
    Wrong,
    Absent,
    Zero,
}

#[derive(Clone, Debug, Hash, PartialEq, Eq, Serialize, Deserialize)]
pub enum BalanceSel {
    /// leave the pre-state balance alone
    AsIs,
    /// set the sender balance to the maximum up-front cost + delta
    MaxCost(i8),
}

#[derive(Clone, Debug, Hash, PartialEq, Eq, Serialize, Deserialize)]
pub enum DataSpec {
    Bytes(Vec<u8>),
    Init(Init),
    /// `zeros` zero bytes and `nonzeros` non-zero bytes (floor-gas crossover)
    Mix { zeros: u16, nonzeros: u16 },
}

impl DataSpec {
    pub fn bytes(&self) -> Vec<u8> {
        match self {
            DataSpec::Bytes(b) => b.clone(),
            DataSpec::Init(i) => assemble_init(i),
            DataSpec::Mix { zeros, nonzeros } => {
                let mut v = vec![0u8; *zeros as usize];
                v.extend((0..*nonzeros).map(|i| (i % 255) as u8 + 1));
                v
            }
        }
    }
}

#[derive(Clone, Debug, Hash, PartialEq, Eq, Serialize, Deserialize)]
pub struct AuthSpec {
    pub chain: ChainSel,
    /// delegate-to address (pool index; IDX_ZERO clears)
    pub address: u8,
    /// nonce relative to the authority's pre-state nonce (the sender's is bumped before processing)
    pub nonce: NonceSel,
    /// recovered authority (pool index) or None = invalid signature
    pub authority: Option<u8>,
}

#[derive(Clone, Debug, Hash, PartialEq, Eq, Serialize, Deserialize)]
pub struct TxSpec {
    pub ty: TxType,
    pub caller: u8,
    pub to: Option<u8>,
    /// explicit destination overriding `to` (addresses outside the pool, e.g. CREATE2 children)
    #[serde(default)]
    pub to_extra: Option<[u8; 20]>,
    pub value: U256,
    pub data: DataSpec,
    pub gas: GasSel,
    pub price: PriceSel,
    /// priority fee (1559+): None = equal to the max fee
    pub priority: Option<U256>,
    pub nonce: NonceSel,
    pub chain: ChainSel,
    pub access_list: Vec<(u8, Vec<u8>)>,
    /// explicit (non-pool) access-list addresses, e.g. CREATE2 targets
    #[serde(default)]
    pub access_extra: Vec<([u8; 20], Vec<u8>)>,
    pub blobs: Vec<u8>,
    /// max_fee_per_blob_gas = blob gas price + delta
    pub blob_fee_delta: i64,
    pub auths: Vec<AuthSpec>,
    pub balance: BalanceSel,
}

#[derive(Clone, Debug, Hash, PartialEq, Eq, Serialize, Deserialize)]
pub struct WorldCase {
    pub spec: u8,
    pub accounts: Vec<AccountSpec>,
    pub block: BlockSpec,
    pub tx: TxSpec,
}

/// `drop_empty`: from Spurious Dragon on, no reachable state contains an empty account
/// (EIP-161), and revm documents/assumes that; such accounts are only generated before.
/// `delegations`: EIP-7702 designators only exist in states from Prague on.
pub fn build_world(accounts: &[AccountSpec], drop_empty: bool, delegations: bool) -> World {
    let mut w = World::new();
    for a in accounts {
        let code = if !delegations && matches!(a.code, Code::Delegation(_)) { vec![] } else { a.code.bytes() };
        if drop_empty && a.balance.is_zero() && a.nonce == 0 && code.is_empty() && a.storage.iter().all(|(_, v)| v.is_zero()) {
            continue;
        }
        let mut acc = Account { balance: a.balance, nonce: a.nonce, code, storage: Default::default() };
        for (k, v) in &a.storage {
            if !v.is_zero() {
                acc.storage.insert(pool::key(*k), *v);
            }
        }
        w.insert(pool::addr(a.addr), acc);
    }
    w
}

impl BlockSpec {
    pub fn plain() -> BlockSpec {
        BlockSpec { number: 300, timestamp: 1_700_000_000, gas_limit: 30_000_000, base_fee: U256::from(7), difficulty: U256::from(1), prevrandao: 1, excess_blob_gas: 0, coinbase: IDX_COINBASE }
    }
    pub fn build(&self) -> Block {
        Block {
            number: self.number,
            coinbase: pool::addr(self.coinbase),
            timestamp: self.timestamp,
            gas_limit: self.gas_limit,
            base_fee: self.base_fee,
            difficulty: self.difficulty,
            prev_randao: pool::h(self.prevrandao),
            excess_blob_gas: self.excess_blob_gas,
            chain_id: CHAIN_ID,
            block_hashes: Default::default(),
        }
    }
}

fn nonce_of(world: &World, a: &Address) -> u64 {
    world.get(a).map(|x| x.nonce).unwrap_or(0)
}

impl TxSpec {
    /// A plain valid legacy call (directed cases start from this).
    pub fn call(caller: u8, to: Option<u8>, gas: u64) -> TxSpec {
        TxSpec {
            ty: TxType::Legacy,
            caller,
            to,
            to_extra: None,
            value: U256::zero(),
            data: DataSpec::Bytes(vec![]),
            gas: GasSel::Fixed(gas),
            price: PriceSel::BaseFeePlus(1),
            priority: None,
            nonce: NonceSel::Correct,
            chain: ChainSel::Correct,
            access_list: vec![],
            access_extra: vec![],
            blobs: vec![],
            blob_fee_delta: 0,
            auths: vec![],
            balance: BalanceSel::AsIs,
        }
    }

    /// Concrete transaction against `world`.  `fork` is used for intrinsic gas / blob price so
    /// that boundary selectors land exactly on the thresholds.
    pub fn build(&self, fork: Fork, block: &Block, world: &World) -> Tx {
        let caller = pool::addr(self.caller);
        // revm's TxEnv has no type field: shapes that are not recognisable through their fields are
        // the type revm will see (see `normalise`).
        let ty = match self.ty {
            TxType::Eip1559 if fork < Fork::London => TxType::Legacy,
            TxType::Eip2930 if fork < Fork::Berlin && self.access_list.is_empty() && self.access_extra.is_empty() => TxType::Legacy,
            t => t,
        };
        let base = if fork >= Fork::London { block.base_fee } else { U256::zero() };
        let gas_price = match &self.price {
            PriceSel::BaseFeePlus(d) => {
                if *d >= 0 {
                    base.saturating_add(U256::from(*d as u64))
                } else {
                    base.saturating_sub(U256::from(d.unsigned_abs()))
                }
            }
            PriceSel::Fixed(p) => *p,
        };
        let is_1559 = matches!(ty, TxType::Eip1559 | TxType::Eip4844 | TxType::Eip7702);
        let sender_nonce = nonce_of(world, &caller);
        let rel = |sel: &NonceSel, cur: u64| -> Option<u64> {
            match sel {
                NonceSel::Correct => Some(cur),
                NonceSel::Delta(d) => Some(cur.wrapping_add(*d as i64 as u64)),
                NonceSel::Fixed(n) => Some(*n),
                NonceSel::Unchecked => None,
            }
        };
        let chain = |c: &ChainSel| -> Option<u64> {
            match c {
                ChainSel::Correct => Some(CHAIN_ID),
                ChainSel::Wrong => Some(CHAIN_ID + 1),
                ChainSel::Zero => Some(0),
                ChainSel::Absent => None,
            }
        };
        let blob_price = refevm::blob_gas_price(fork, block.excess_blob_gas);
        let mut tx = Tx {
            tx_type: ty,
            caller,
            to: self.to_extra.or(self.to.map(pool::addr)),
            value: self.value,
            data: self.data.bytes(),
            gas_limit: 0,
            gas_price,
            max_priority_fee: if is_1559 { Some(self.priority.unwrap_or(gas_price)) } else { None },
            nonce: rel(&self.nonce, sender_nonce),
            chain_id: chain(&self.chain),
            access_list: if ty == TxType::Legacy {
                vec![]
            } else {
                self.access_list
                    .iter()
                    .map(|(a, ks)| (pool::addr(*a), ks.iter().map(|k| pool::key(*k)).collect()))
                    .chain(self.access_extra.iter().map(|(a, ks)| (*a, ks.iter().map(|k| pool::key(*k)).collect())))
                    .collect()
            },
            blob_hashes: if ty == TxType::Eip4844 {
                self.blobs.iter().enumerate().map(|(i, v)| { let mut h = pool::h(i as u8 + 1); h[0] = *v; h }).collect()
            } else {
                vec![]
            },
            max_fee_per_blob_gas: if ty == TxType::Eip4844 {
                if self.blob_fee_delta >= 0 { blob_price.saturating_add(U256::from(self.blob_fee_delta as u64)) } else { blob_price.saturating_sub(U256::from(self.blob_fee_delta.unsigned_abs())) }
            } else {
                U256::zero()
            },
            authorization_list: if ty == TxType::Eip7702 {
                self.auths
                    .iter()
                    .map(|a| {
                        let authority = a.authority.map(pool::addr);
                        let cur = authority.map(|x| nonce_of(world, &x).wrapping_add(if x == caller { 1 } else { 0 })).unwrap_or(0);
                        Authorization {
                            chain_id: match a.chain { ChainSel::Correct => U256::from(CHAIN_ID), ChainSel::Wrong => U256::from(CHAIN_ID + 1), ChainSel::Zero | ChainSel::Absent => U256::zero() },
                            address: pool::addr(a.address),
                            nonce: rel(&a.nonce, cur).unwrap_or(cur),
                            authority,
                        }
                    })
                    .collect()
            } else {
                vec![]
            },
        };
        let intrinsic = refevm::intrinsic_gas(fork, &tx);
        let floor = refevm::floor_gas(fork, &tx);
        let adj = |b: u64, d: i64| if d >= 0 { b.saturating_add(d as u64) } else { b.saturating_sub(d.unsigned_abs()) };
        tx.gas_limit = match self.gas {
            GasSel::Fixed(g) => g,
            GasSel::Intrinsic(d) => adj(intrinsic, d as i64),
            GasSel::Floor(d) => adj(intrinsic.max(floor), d as i64),
            GasSel::BlockLimit(d) => adj(block.gas_limit, d as i64),
        };
        tx
    }

    /// Maximum up-front cost (gas_limit * max_fee + value + blob max cost) when it fits 256 bits.
    pub fn max_cost(tx: &Tx) -> Option<U256> {
        let gas = U256::from(tx.gas_limit).checked_mul(tx.gas_price)?;
        let blob = U256::from(tx.blob_hashes.len() as u64 * 131072).checked_mul(tx.max_fee_per_blob_gas)?;
        gas.checked_add(tx.value)?.checked_add(blob)
    }
}

impl WorldCase {
    pub fn fork(&self) -> Option<Fork> {
        fork_of(self.spec)
    }
    /// (pre-state, block, tx).  For OSAKA the Prague rule set is used for the derived fields.
    pub fn build(&self) -> (World, Block, Tx) {
        let fork = self.fork().unwrap_or(Fork::Prague);
        let mut world = build_world(&self.accounts, self.spec >= 5, self.spec >= SPEC_PRAGUE);
        let block = self.block.build();
        let tx = self.tx.build(fork, &block, &world);
        if let BalanceSel::MaxCost(d) = self.tx.balance {
            if let Some(c) = TxSpec::max_cost(&tx) {
                let b = if d >= 0 { c.saturating_add(U256::from(d as u64)) } else { c.saturating_sub(U256::from(d.unsigned_abs())) };
                world.entry(tx.caller).or_default().balance = b;
            }
        }
        (world, block, tx)
    }
}

// ------------------------------------------------------------------------------------------
// strategies
// ------------------------------------------------------------------------------------------

pub fn eth(n: u64) -> U256 {
    U256::from(n) * U256::from(10u64).pow(U256::from(18))
}

pub fn balance() -> BoxedStrategy<U256> {
    prop_oneof![
        6 => Just(eth(1000)),
        2 => Just(U256::zero()),
        1 => Just(U256::one()),
        2 => (0u64..1_000_000).prop_map(U256::from),
        1 => any::<u64>().prop_map(U256::from),
    ]
    .boxed()
}

pub fn storage_entries() -> BoxedStrategy<Vec<(u8, U256)>> {
    prop::collection::vec((0u8..7, prop_oneof![3 => (1u64..5).prop_map(U256::from), 1 => Just(U256::MAX), 1 => any::<[u8; 32]>().prop_map(|b| U256::from_big_endian(&b))]), 0..4).boxed()
}

/// Which specs to draw (indices into SPEC_NAMES).
pub fn spec_sel(include_osaka: bool) -> BoxedStrategy<u8> {
    let hi = if include_osaka { 19u8 } else { 18 };
    prop_oneof![
        4 => 0u8..=hi,
        2 => prop::sample::select(vec![17u8, 18]),
        1 => prop::sample::select(vec![0u8, 2, 4, 5, 6, 8, 9, 11, 12, 15, 16]),
    ]
    .boxed()
}

pub fn block_spec() -> BoxedStrategy<BlockSpec> {
    (
        prop_oneof![3 => 1u64..1000, 1 => Just(0u64), 1 => Just(256u64), 1 => Just(257u64), 1 => 1_000_000u64..20_000_000],
        prop_oneof![Just(1u64), Just(1_700_000_000u64), any::<u32>().prop_map(|x| x as u64)],
        prop_oneof![5 => Just(30_000_000u64), 1 => Just(5_000_000u64), 1 => Just(100_000u64), 1 => Just(60_000_000u64)], // work per case is proportional to gas
        prop_oneof![4 => Just(U256::from(7)), 2 => Just(U256::zero()), 2 => (0u64..1000).prop_map(U256::from), 1 => Just(U256::from(10).pow(U256::from(11)))],
        prop_oneof![Just(U256::zero()), Just(U256::from(0x20000)), any::<u64>().prop_map(U256::from)],
        any::<u8>(),
        prop_oneof![4 => Just(0u64), 2 => (0u64..30).prop_map(|k| k * 393216), 1 => 0u64..100_000_000, 1 => Just(250_000_000u64)], // blob price must fit revm's u128 field (ratio < 88)
        prop_oneof![5 => Just(IDX_COINBASE), 1 => 0u8..N_FIXED],
    )
        .prop_map(|(number, timestamp, gas_limit, base_fee, difficulty, prevrandao, excess_blob_gas, coinbase)| BlockSpec { number, timestamp, gas_limit, base_fee, difficulty, prevrandao, excess_blob_gas, coinbase })
        .boxed()
}

pub fn contract_code(cfg: &GenCfg, depth: u32) -> BoxedStrategy<Code> {
    prop_oneof![
        10 => prog::program(cfg, depth).prop_map(Code::Prog),
        1 => prop::collection::vec(any::<u8>(), 0..60).prop_map(|mut b| { if b.first() == Some(&0xef) { b[0] = 0xee; } Code::Raw(b) }),
        1 => Just(Code::None),
    ]
    .boxed()
}

#[derive(Clone, Debug)]
pub struct WorldCfg {
    pub include_osaka: bool,
    /// probability weight of perturbing a validity rule (0 = always valid by construction, 100 = always perturbed)
    pub invalid_pct: u32,
    pub prog: GenCfg,
    pub n_contracts: std::ops::RangeInclusive<usize>,
    /// when set, specs are drawn from this list only (indices into SPEC_NAMES)
    pub spec_pool: Option<Vec<u8>>,
}

impl Default for WorldCfg {
    fn default() -> Self {
        WorldCfg { include_osaka: false, invalid_pct: 8, prog: GenCfg::default(), n_contracts: 1..=4, spec_pool: None }
    }
}

pub fn accounts(cfg: &WorldCfg) -> BoxedStrategy<Vec<AccountSpec>> {
    let pc = cfg.prog.clone();
    let eoas = prop::collection::vec(
        // code of a sender slot: none (usual), an EIP-7702 delegation (Prague+), or real contract code (EIP-3607: such a
        // sender is rejected; encoded as index 255)
        (prop_oneof![8 => Just(eth(1_000_000)), 1 => balance()], prop_oneof![4 => Just(0u64), 2 => 1u64..10, 1 => Just(u64::MAX - 1)], prop_oneof![44 => Just(None), 4 => (4u8..10).prop_map(Some), 1 => Just(Some(255u8))]),
        N_EOA as usize,
    );
    let contracts = prop::collection::vec((contract_code(&pc, pc.depth), balance(), prop_oneof![3 => Just(1u64), 1 => Just(0u64), 1 => 2u64..5, 1 => Just(u64::MAX - 1), 1 => Just(u64::MAX)], storage_entries()), cfg.n_contracts.clone());
    let extras = (
        prop::collection::vec(any::<bool>(), 2),                       // empty-but-existing
        prop::option::weighted(0.04, (0u64..70000).prop_map(|d| U256::MAX - U256::from(d))), // whale
        prop::option::weighted(0.3, balance()),                        // coinbase
        prop::collection::vec((N_FIXED..N_FIXED + 26, prop_oneof![Just(0u8), Just(1), Just(2), Just(3)], storage_entries()), 0..2), // occupied derived addresses
        prop::option::weighted(0.1, (IDX_PRECOMPILE0..IDX_PRECOMPILE0 + 10, balance())), // precompile with balance
    );
    (eoas, contracts, extras)
        .prop_map(|(eoas, contracts, (empties, whale, cb, derived, pc_bal))| {
            let mut v = vec![];
            for (i, (balance, nonce, deleg)) in eoas.into_iter().enumerate() {
                let code = match deleg {
                None => Code::None,
                Some(255) => Code::Raw(vec![0x00]),
                Some(d) => Code::Delegation(d),
            };
            v.push(AccountSpec { addr: i as u8, balance, nonce, code, storage: vec![] });
            }
            for (i, (code, balance, nonce, storage)) in contracts.into_iter().enumerate() {
                v.push(AccountSpec { addr: IDX_CONTRACT0 + i as u8, balance, nonce, code, storage });
            }
            for (i, e) in empties.into_iter().enumerate() {
                if e {
                    v.push(AccountSpec { addr: IDX_EMPTY0 + i as u8, balance: U256::zero(), nonce: 0, code: Code::None, storage: vec![] });
                }
            }
            if let Some(b) = whale {
                v.push(AccountSpec { addr: IDX_WHALE, balance: b, nonce: 0, code: Code::None, storage: vec![] });
            }
            if let Some(b) = cb {
                v.push(AccountSpec { addr: IDX_COINBASE, balance: b, nonce: 0, code: Code::None, storage: vec![] });
            }
            for (a, kind, storage) in derived {
                // kind: 0 storage only, 1 nonce only, 2 code only, 3 balance only
                v.push(AccountSpec {
                    addr: a,
                    balance: if kind == 3 { U256::from(5) } else { U256::zero() },
                    nonce: if kind == 1 { 1 } else { 0 },
                    code: if kind == 2 { Code::Raw(vec![0x00]) } else { Code::None },
                    storage: if kind == 0 { if storage.is_empty() { vec![(1, U256::one())] } else { storage } } else { vec![] },
                });
            }
            if let Some((a, b)) = pc_bal {
                v.push(AccountSpec { addr: a, balance: b, nonce: 0, code: Code::None, storage: vec![] });
            }
            v
        })
        .boxed()
}

/// `invalid_pct` applies per rule: weight of a perturbed choice against the valid one.
fn dial<T: Clone + std::fmt::Debug + 'static>(pct: u32, ok: BoxedStrategy<T>, bad: BoxedStrategy<T>) -> BoxedStrategy<T> {
    if pct == 0 {
        ok
    } else {
        proptest::strategy::Union::new_weighted(vec![(100 - pct.min(99), ok), (pct.min(99), bad)]).boxed()
    }
}

pub fn tx_spec(cfg: &WorldCfg) -> BoxedStrategy<TxSpec> {
    // each rule is perturbed independently with probability p/8 so that ~invalid_pct of txs are invalid overall
    let p = (cfg.invalid_pct / 6).max(if cfg.invalid_pct > 0 { 1 } else { 0 });
    let ty = prop_oneof![4 => Just(TxType::Legacy), 2 => Just(TxType::Eip2930), 3 => Just(TxType::Eip1559), 2 => Just(TxType::Eip4844), 3 => Just(TxType::Eip7702)];
    let to = prop_oneof![
        10 => (IDX_CONTRACT0..IDX_CONTRACT0 + 4).prop_map(Some),
        2 => (0u8..N_FIXED + 26).prop_map(Some),
        3 => Just(None),
    ];
    let value = prop_oneof![6 => Just(U256::zero()), 2 => Just(U256::one()), 2 => (0u64..1_000_000).prop_map(U256::from), 2 => Just(eth(1)), 1 => prop_oneof![12 => Just(eth(2)), 1 => Just(U256::MAX)]];
    let data = prop_oneof![
        4 => prop::collection::vec(any::<u8>(), 0..68).prop_map(DataSpec::Bytes),
        1 => prop::collection::vec(prop_oneof![Just(0u8), any::<u8>()], 0..200).prop_map(DataSpec::Bytes),
        2 => (0u16..400, 0u16..400).prop_map(|(zeros, nonzeros)| DataSpec::Mix { zeros, nonzeros }),
    ];
    let gas = dial(
        p,
        prop_oneof![
            24 => prop::sample::select(vec![100_000u64, 300_000, 1_000_000, 1_000_000, 5_000_000]).prop_map(GasSel::Fixed),
            2 => (0i16..3000).prop_map(GasSel::Floor),
            1 => Just(GasSel::Floor(0)),
            1 => Just(GasSel::Intrinsic(0)),
            1 => (21000u64..90_000).prop_map(GasSel::Fixed),
            1 => Just(GasSel::BlockLimit(0)),
        ]
        .boxed(),
        prop_oneof![
            2 => Just(GasSel::Intrinsic(-1)),
            2 => Just(GasSel::Floor(-1)),
            1 => (-300i16..0).prop_map(GasSel::Intrinsic),
            2 => Just(GasSel::BlockLimit(1)),
            1 => (0u64..21000).prop_map(GasSel::Fixed),
        ]
        .boxed(),
    );
    let price = dial(
        p,
        prop_oneof![3 => Just(PriceSel::BaseFeePlus(0)), 4 => (0i64..100).prop_map(PriceSel::BaseFeePlus), 1 => Just(PriceSel::Fixed(U256::from(10).pow(U256::from(10))))].boxed(),
        prop_oneof![2 => Just(PriceSel::BaseFeePlus(-1)), 1 => Just(PriceSel::Fixed(U256::zero())), 1 => Just(PriceSel::Fixed(U256::MAX)), 1 => Just(PriceSel::Fixed(U256::one() << 200))].boxed(),
    );
    let priority = dial(
        p,
        prop_oneof![2 => Just(None), 3 => (0u64..10).prop_map(|x| Some(U256::from(x))), 1 => Just(Some(U256::zero()))].boxed(),
        prop_oneof![Just(Some(U256::MAX)), Just(Some(U256::from(1_000_000_007u64)))].boxed(),
    );
    let nonce = dial(p, prop_oneof![8 => Just(NonceSel::Correct), 1 => Just(NonceSel::Unchecked)].boxed(), prop_oneof![Just(NonceSel::Delta(1)), Just(NonceSel::Delta(-1)), Just(NonceSel::Fixed(0)), Just(NonceSel::Fixed(7))].boxed());
    let chain = dial(p, prop_oneof![6 => Just(ChainSel::Correct), 1 => Just(ChainSel::Absent)].boxed(), prop_oneof![Just(ChainSel::Wrong), Just(ChainSel::Zero)].boxed());
    let access_list = prop::collection::vec((prop_oneof![3 => IDX_CONTRACT0..IDX_CONTRACT0 + 6, 2 => 0u8..N_FIXED + 26], prop::collection::vec(0u8..7, 0..4)), 0..4);
    let blobs = dial(
        p,
        prop::collection::vec(Just(1u8), 1..=6).boxed(),
        prop_oneof![Just(vec![]), prop::collection::vec(Just(1u8), 7..=10), Just(vec![0u8]), Just(vec![1u8, 2]), prop::collection::vec(any::<u8>(), 1..3)].boxed(),
    );
    let blob_fee = dial(p, prop_oneof![3 => Just(0i64), 3 => 0i64..1000].boxed(), prop_oneof![Just(-1i64), Just(-1000)].boxed());
    let auth = (
        prop_oneof![5 => Just(ChainSel::Correct), 2 => Just(ChainSel::Zero), 1 => Just(ChainSel::Wrong)],
        prop_oneof![6 => IDX_CONTRACT0..IDX_CONTRACT0 + 6, 1 => Just(IDX_ZERO), 1 => 0u8..N_FIXED, 1 => IDX_PRECOMPILE0..IDX_PRECOMPILE0 + 17],
        prop_oneof![6 => Just(NonceSel::Correct), 1 => Just(NonceSel::Delta(1)), 1 => Just(NonceSel::Delta(-1)), 1 => Just(NonceSel::Fixed(u64::MAX)), 1 => Just(NonceSel::Fixed(0))],
        prop_oneof![8 => (0u8..N_EOA).prop_map(Some), 2 => (IDX_EMPTY0..IDX_NONE0 + 2).prop_map(Some), 1 => (IDX_CONTRACT0..IDX_CONTRACT0 + 6).prop_map(Some), 1 => Just(None)],
    )
        .prop_map(|(chain, address, nonce, authority)| AuthSpec { chain, address, nonce, authority });
    let auths = dial(p, prop::collection::vec(auth.clone(), 1..4).boxed(), Just(vec![]).boxed());
    let balance = dial(p.max(2), prop_oneof![8 => Just(BalanceSel::AsIs), 1 => Just(BalanceSel::MaxCost(0)), 1 => Just(BalanceSel::MaxCost(1))].boxed(), Just(BalanceSel::MaxCost(-1)).boxed());
    ((ty, 0u8..N_EOA, to, value, data), (gas, price, priority, nonce, chain), (access_list, blobs, blob_fee, auths, balance))
        .prop_map(|((ty, caller, to, value, data), (gas, price, priority, nonce, chain), (access_list, blobs, blob_fee_delta, auths, balance))| TxSpec {
            ty,
            caller,
            to,
            to_extra: None,
            value,
            data,
            gas,
            price,
            priority,
            nonce,
            chain,
            access_list,
            access_extra: vec![],
            blobs,
            blob_fee_delta,
            auths,
            balance,
        })
        .boxed()
}

/// Adjust type/fields so that the transaction type exists in `spec` (unless the validity dial says otherwise),
/// and give create transactions an initcode.
fn normalise(spec: u8, mut tx: TxSpec, init: Init, keep_foreign_type: bool) -> TxSpec {
    if !keep_foreign_type {
        let max_ty = match spec {
            0..=10 => 0,
            11 => 1,
            12..=16 => 2,
            17 => 3,
            _ => 4,
        };
        let rank = |t: TxType| match t {
            TxType::Legacy => 0,
            TxType::Eip2930 => 1,
            TxType::Eip1559 => 2,
            TxType::Eip4844 => 3,
            TxType::Eip7702 => 4,
        };
        if rank(tx.ty) > max_ty {
            tx.ty = match max_ty {
                0 => TxType::Legacy,
                1 => TxType::Eip2930,
                2 => TxType::Eip1559,
                3 => TxType::Eip4844,
                _ => TxType::Eip7702,
            };
        }
        if matches!(tx.ty, TxType::Eip4844 | TxType::Eip7702) && tx.to.is_none() {
            tx.to = Some(IDX_CONTRACT0);
        }
    }
    // revm's TxEnv has no transaction-type field: a type is recognisable only through its fields.
    // Shapes that are not representable/recognisable are mapped to the type revm will see.
    if tx.ty == TxType::Eip1559 && spec < 12 {
        tx.ty = TxType::Legacy; // a priority-fee field has no meaning before London
    }
    if tx.ty == TxType::Eip2930 && spec < 11 && tx.access_list.is_empty() {
        tx.ty = TxType::Legacy;
    }
    if tx.to.is_none() {
        tx.data = DataSpec::Init(init);
    }
    tx
}

pub fn world_case(cfg: &WorldCfg) -> BoxedStrategy<WorldCase> {
    let sub = GenCfg { max_stmts: 5, depth: 1, ..cfg.prog.clone() };
    let keep_foreign = if cfg.invalid_pct == 0 { Just(false).boxed() } else { prop::bool::weighted((cfg.invalid_pct as f64 / 300.0).min(0.5)).boxed() };
    let specs = match &cfg.spec_pool {
        Some(p) => prop::sample::select(p.clone()).boxed(),
        None => spec_sel(cfg.include_osaka),
    };
    (specs, accounts(cfg), block_spec(), tx_spec(cfg), init_for_tx(&sub), keep_foreign)
        .prop_map(|(spec, accounts, block, tx, init, keep)| {
            let tx = normalise(spec, tx, init, keep);
            WorldCase { spec, accounts, block, tx }
        })
        .boxed()
}

fn init_for_tx(cfg: &GenCfg) -> BoxedStrategy<Init> {
    let sub = GenCfg { max_stmts: 4, depth: 0, creates: false, ..cfg.clone() };
    prop_oneof![
        6 => (prog::stmts(cfg, 1, 4), prog::program(&sub, 0)).prop_map(|(ctor, rt)| Init::Deploy { ctor, runtime: Box::new(rt) }),
        2 => prop::collection::vec(any::<u8>(), 0..40).prop_map(Init::ReturnBytes),
        1 => Just(Init::Revert),
        1 => Just(Init::Invalid),
        1 => prop::sample::select(vec![24576u32, 24577]).prop_map(Init::ReturnZeros),
        1 => Just(Init::Empty),
        1 => prop::sample::select(vec![49152u32, 49153]).prop_map(Init::Big),
        1 => prop::collection::vec(any::<u8>(), 0..30).prop_map(Init::RawInit),
    ]
    .boxed()
}
