//! C33: Optimism transactions charge and distribute fees consistently.
use crate::common::{big, era, Era};
use crate::evmrun::*;
use crate::monitors::*;
use num_bigint::BigUint;
use num_traits::Zero;
use refevm as r;
use revm::db::DatabaseCommit;
use revm::inspector_handle_register;
use revm::primitives::{address, Address, Bytes, Env, ExecutionResult, HaltReason, ResultAndState, SpecId, B256};
use revm::Evm;
use serde::{Deserialize, Serialize};
use vcore::proptest::prelude::*;
use vcore::{ensure, CaseResult, Ctx, Failure, Outcome};
use vgen::world::{world_case, BalanceSel, PriceSel, TxSpec, WorldCase, WorldCfg};

pub const OP_SPECS: [SpecId; 8] = [SpecId::BEDROCK, SpecId::REGOLITH, SpecId::CANYON, SpecId::ECOTONE, SpecId::FJORD, SpecId::GRANITE, SpecId::HOLOCENE, SpecId::ISTHMUS];
const L1_BLOCK: Address = address!("4200000000000000000000000000000000000015");
const BASE_VAULT: Address = address!("4200000000000000000000000000000000000019");
const L1_VAULT: Address = address!("420000000000000000000000000000000000001A");
const OP_VAULT: Address = address!("420000000000000000000000000000000000001B");

#[derive(Clone, Debug, Hash, PartialEq, Eq, Serialize, Deserialize)]
pub struct L1Params {
    pub base_fee: u64,
    pub overhead: u64,
    pub scalar: u64,
    pub blob_base_fee: u64,
    pub base_fee_scalar: u32,
    pub blob_base_fee_scalar: u32,
    pub op_scalar: u32,
    pub op_const: u64,
}

#[derive(Clone, Debug, Hash, PartialEq, Eq, Serialize, Deserialize)]
pub enum Envelope {
    Empty,
    Bytes(Vec<u8>),
    Mix { zeros: u16, nonzeros: u16 },
    Repeat { unit: Vec<u8>, times: u16 },
}

impl Envelope {
    pub fn bytes(&self) -> Vec<u8> {
        match self {
            Envelope::Empty => vec![],
            Envelope::Bytes(b) => b.clone(),
            Envelope::Mix { zeros, nonzeros } => {
                let mut v: Vec<u8> = (0..*nonzeros).map(|i| (i % 250) as u8 + 2).collect();
                v.extend(std::iter::repeat(0u8).take(*zeros as usize));
                v
            }
            Envelope::Repeat { unit, times } => {
                let mut v = vec![0x02];
                for _ in 0..*times {
                    v.extend_from_slice(unit);
                }
                v
            }
        }
    }
}

#[derive(Clone, Debug, Hash, PartialEq, Eq, Serialize, Deserialize)]
pub enum Kind {
    Regular { envelope: Envelope },
    Deposit { mint: Option<u128>, system: bool },
}

#[derive(Clone, Debug, Hash, PartialEq, Eq, Serialize, Deserialize)]
pub struct OpCase {
    /// index into OP_SPECS
    pub op_spec: u8,
    pub world: WorldCase,
    pub l1: L1Params,
    pub kind: Kind,
    /// pre-existing balances of base-fee / L1-fee / operator-fee vaults
    pub vaults: [Option<u64>; 3],
    /// a second transaction on the same Evm after new L1 attributes were written (reuse part)
    pub second: Option<(L1Params, Envelope)>,
}

fn bu(v: r::U256) -> BigUint {
    big(ru(v))
}

fn slot_word(hi: &[(usize, Vec<u8>)]) -> r::U256 {
    let mut w = [0u8; 32];
    for (off, b) in hi {
        w[*off..*off + b.len()].copy_from_slice(b);
    }
    r::U256::from_big_endian(&w)
}

/// The L1Block predeploy's storage for these attributes (layout of the OP-stack L1Block contract).
fn l1_storage(p: &L1Params) -> std::collections::BTreeMap<r::U256, r::U256> {
    let mut m = std::collections::BTreeMap::new();
    let mut put = |k: u64, v: r::U256| {
        if !v.is_zero() {
            m.insert(r::U256::from(k), v);
        }
    };
    put(1, r::U256::from(p.base_fee));
    put(5, r::U256::from(p.overhead));
    put(6, r::U256::from(p.scalar));
    put(7, r::U256::from(p.blob_base_fee));
    put(3, slot_word(&[(16, p.base_fee_scalar.to_be_bytes().to_vec()), (20, p.blob_base_fee_scalar.to_be_bytes().to_vec()), (24, 77u64.to_be_bytes().to_vec())]));
    put(8, slot_word(&[(20, p.op_scalar.to_be_bytes().to_vec()), (24, p.op_const.to_be_bytes().to_vec())]));
    m
}

/// Own transcription of the OP-stack L1 data fee (Bedrock / Regolith / Ecotone); None from Fjord (FastLZ estimate).
fn l1_cost_own(spec_idx: u8, p: &L1Params, env: &[u8]) -> Option<BigUint> {
    if env.is_empty() || env[0] == 0x7f {
        return Some(BigUint::zero());
    }
    if spec_idx >= 4 {
        return None;
    }
    let zeros = env.iter().filter(|b| **b == 0).count() as u64;
    let nonzeros = env.len() as u64 - zeros;
    let mut data_gas = BigUint::from(4 * zeros + 16 * nonzeros);
    if spec_idx == 0 {
        data_gas += 68u32 * 16;
    }
    let bedrock = |dg: &BigUint| (dg + p.overhead) * p.base_fee * p.scalar / 1_000_000u32;
    if spec_idx < 3 {
        return Some(bedrock(&data_gas));
    }
    // Ecotone activation block (all Ecotone attributes still unset): that block carries no regular
    // transactions on any valid chain, so no formula is asserted for it (the identities still are).
    if p.blob_base_fee == 0 && p.base_fee_scalar == 0 && p.blob_base_fee_scalar == 0 {
        return None;
    }
    let scaled = BigUint::from(16u32) * p.base_fee * p.base_fee_scalar + BigUint::from(p.blob_base_fee) * p.blob_base_fee_scalar;
    Some(data_gas * scaled / 16_000_000u32)
}

fn op_fee_own(spec_idx: u8, p: &L1Params, gas: u64) -> BigUint {
    if spec_idx < 7 {
        return BigUint::zero();
    }
    BigUint::from(gas) * p.op_scalar / 1_000_000u32 + p.op_const
}

struct OpRun {
    spec: SpecId,
    pre: r::World,
    block: r::Block,
    tx: r::Tx,
    env: Env,
    res: Result<ResultAndState, String>,
    rec: Recorder,
}

fn install_l1(world: &mut r::World, p: &L1Params) {
    world.insert(pa(&L1_BLOCK), r::Account { balance: r::U256::zero(), nonce: 1, code: vec![0x00], storage: l1_storage(p) });
}

fn op_env(spec: SpecId, block: &r::Block, tx: &r::Tx, kind: &Kind, envelope: Option<&Envelope>) -> Env {
    let mut env = make_env(spec, block, tx);
    match kind {
        Kind::Regular { envelope: e } => {
            env.tx.optimism.enveloped_tx = Some(Bytes::from(envelope.unwrap_or(e).bytes()));
        }
        Kind::Deposit { mint, system } => {
            env.tx.optimism.source_hash = Some(B256::with_last_byte(0xd0));
            env.tx.optimism.mint = *mint;
            env.tx.optimism.is_system_transaction = Some(*system);
            env.tx.optimism.enveloped_tx = Some(Bytes::from(vec![0x7e, 1, 2, 3]));
        }
    }
    env
}

fn build(c: &OpCase) -> (SpecId, r::World, r::Block, r::Tx) {
    let spec = OP_SPECS[c.op_spec as usize % 8];
    let (mut world, block, tx) = c.world.build();
    install_l1(&mut world, &c.l1);
    for (i, a) in [BASE_VAULT, L1_VAULT, OP_VAULT].iter().enumerate() {
        if let Some(b) = c.vaults[i] {
            world.insert(pa(a), r::Account { balance: r::U256::from(b), nonce: 0, code: vec![], storage: Default::default() });
        }
    }
    // boundary of the balance check: the up-front cost on Optimism also contains the L1 data fee and the operator fee
    if let (BalanceSel::MaxCost(d), Kind::Regular { envelope }) = (&c.world.tx.balance, &c.kind) {
        if let (Some(max), Some(l1)) = (TxSpec::max_cost(&tx), l1_cost_own(c.op_spec % 8, &c.l1, &envelope.bytes())) {
            let total = bu(max) + l1 + op_fee_own(c.op_spec % 8, &c.l1, tx.gas_limit);
            let total = if *d >= 0 { total + (*d as u64) } else { total - std::cmp::min(BigUint::from(d.unsigned_abs()), bu(max)) };
            if total.bits() <= 256 {
                world.entry(tx.caller).or_default().balance = r::U256::from_big_endian(&{
                    let b = total.to_bytes_be();
                    let mut w = [0u8; 32];
                    w[32 - b.len()..].copy_from_slice(&b);
                    w
                });
            }
        }
    }
    (spec, world, block, tx)
}

fn run_op(c: &OpCase) -> OpRun {
    run_op_at(c, None)
}

/// Same world and transaction, optionally executed under another spec of the same family.
fn run_op_at(c: &OpCase, spec_override: Option<SpecId>) -> OpRun {
    let (spec, pre, block, tx) = build(c);
    let spec = spec_override.unwrap_or(spec);
    let env = op_env(spec, &block, &tx, &c.kind, None);
    let db = ModelDB::new(pre.clone());
    let mut evm = Evm::builder()
        .with_db(db)
        .with_external_context(Recorder::new(RecCfg::default()))
        .with_spec_id(spec)
        .with_env(Box::new(env.clone()))
        .optimism()
        .append_handler_register(inspector_handle_register)
        .build();
    let res = evm.transact().map_err(|e| format!("{e:?}"));
    let mut rec = std::mem::replace(&mut evm.context.external, Recorder::new(RecCfg::default()));
    rec.finish();
    OpRun { spec, pre, block, tx, env, res, rec }
}

fn state_digest(st: &revm::primitives::EvmState) -> Vec<(Address, String)> {
    let mut v: Vec<(Address, String)> = st
        .iter()
        .map(|(a, acc)| {
            let mut slots: Vec<_> = acc.storage.iter().map(|(k, s)| (*k, s.original_value, s.present_value, s.is_cold)).collect();
            slots.sort();
            (*a, format!("{:?} {:?} {:?}", acc.info, acc.status, slots))
        })
        .collect();
    v.sort();
    v
}

fn bal(w: &r::World, a: &Address) -> BigUint {
    w.get(&pa(a)).map(|x| bu(x.balance)).unwrap_or_default()
}

fn burns_of(run: &OpRun, rs: &ResultAndState) -> BigUint {
    let cancun = era(run.spec) >= Era::Cancun;
    let mut burns = BigUint::zero();
    for (a, b) in &run.rec.self_burns {
        if !cancun || run.rec.created.contains(a) {
            burns += big(*b);
        }
    }
    for (_, acc) in rs.state.iter() {
        if acc.is_selfdestructed() && acc.is_touched() {
            burns += big(acc.info.balance);
        }
    }
    burns
}

fn inner_flow_names(rec: &Recorder, who: &Address) -> bool {
    rec.events.iter().skip(1).any(|e| match e {
        Ev::Call { inputs, .. } => inputs.transfers_value() && (inputs.caller == *who || inputs.target_address == *who),
        Ev::Create { inputs, .. } => !inputs.value.is_zero() && inputs.caller == *who,
        Ev::Step { op: 0xff, addr, top, .. } => addr == who || top.first().map(|t| Address::from_slice(&t.to_be_bytes::<32>()[12..]) == *who).unwrap_or(false),
        _ => false,
    })
}

pub fn c33_case(c: &OpCase) -> CaseResult {
    let run = run_op(c);
    let si = c.op_spec % 8;
    let sender = ra(&run.tx.caller);
    let coinbase = ra(&run.block.coinbase);
    let to = run.tx.to.as_ref().map(ra);
    let spec = run.spec;
    let is_deposit = matches!(c.kind, Kind::Deposit { .. });
    let mut o = Outcome::trivial();
    o.labels.push(["BEDROCK", "REGOLITH", "CANYON", "ECOTONE", "FJORD", "GRANITE", "HOLOCENE", "ISTHMUS"][si as usize]);
    let supply_pre = total_supply(&run.pre);
    if supply_pre.bits() > 255 {
        return Ok(o.label("excluded:supply-near-2^256"));
    }
    let rs = match &run.res {
        Ok(rs) => rs,
        Err(e) => {
            // deposits are never rejected: a failure is reported as Halt(FailedDeposit)
            ensure!(!is_deposit || !e.starts_with("Transaction"), "C33|deposit|rejected", "deposit transaction was rejected with {e} instead of being included as a failed deposit");
            if let Kind::Regular { envelope } = &c.kind {
                // a transaction whose sender can pay everything is not rejected for lack of funds
                if let (Some(max), Some(l1)) = (TxSpec::max_cost(&run.tx), l1_cost_own(si, &c.l1, &envelope.bytes())) {
                    let total = bu(max) + l1 + op_fee_own(si, &c.l1, run.tx.gas_limit);
                    let have = bal(&run.pre, &sender);
                    ensure!(!(e.contains("LackOfFundForMaxFee") && have >= total), "C33|balance-check|rejects-although-funded", "rejected with {e} although the sender holds {have} >= gas_limit*price + value + L1 fee + operator fee = {total}");
                    if e.contains("LackOfFundForMaxFee") {
                        o.labels.push("rejected:lack-of-funds");
                    }
                }
            }
            return Ok(o.label("rejected"));
        }
    };
    let mut post = run.pre.clone();
    apply_state(&mut post, &rs.state, true);
    let supply_post = total_supply(&post);
    let burns = burns_of(&run, rs);
    let gas_used = rs.result.gas_used();
    let limit = run.tx.gas_limit;
    let mint = match &c.kind {
        Kind::Deposit { mint, .. } => BigUint::from(mint.unwrap_or(0)),
        _ => BigUint::zero(),
    };
    let status = match &rs.result {
        ExecutionResult::Success { .. } => "success",
        ExecutionResult::Revert { .. } => "revert",
        ExecutionResult::Halt { reason: HaltReason::FailedDeposit, .. } => "halt:FailedDeposit",
        ExecutionResult::Halt { .. } => "halt",
    };
    o.labels.push(status);

    // (1) conservation: nothing is burned on Optimism (the base fee goes to its vault); deposits mint
    let lhs = &supply_post + &burns;
    let rhs = &supply_pre + &mint;
    if lhs != rhs {
        let (what, diff) = if lhs > rhs { ("created", &lhs - &rhs) } else { ("destroyed", &rhs - &lhs) };
        let class = if is_deposit { "deposit" } else if si >= 7 { "isthmus" } else { "pre-isthmus" };
        return Err(vec![Failure::new(
            format!("C33|conservation|ether-{what}|{class}"),
            format!("{diff} wei {what}: sum(pre) {supply_pre} + mint {mint} != sum(post) {supply_post} + burns {burns} [{spec:?} {status} gas_used {gas_used} of {limit}]"),
        )]);
    }

    match &c.kind {
        Kind::Regular { envelope } => {
            let env_bytes = envelope.bytes();
            let parties = [sender, coinbase, BASE_VAULT, L1_VAULT, OP_VAULT];
            let distinct = (0..5).all(|i| (i + 1..5).all(|j| parties[i] != parties[j])) && to.map(|t| !parties.contains(&t)).unwrap_or(true);
            let untouched = distinct && parties[1..].iter().all(|p| !run.rec.flow_addrs.contains(p)) && !inner_flow_names(&run.rec, &sender) && run.rec.ops[0xff] == 0;
            if untouched {
                let d = |a: &Address| -> Result<BigUint, Vec<Failure>> {
                    let (p, q) = (bal(&run.pre, a), bal(&post, a));
                    ensure!(q >= p, "C33|vault-lost-ether", "{a} went from {p} to {q}");
                    Ok(q - p)
                };
                let base = bu(run.block.base_fee);
                let price = match run.tx.max_priority_fee {
                    Some(p) => std::cmp::min(bu(run.tx.gas_price), &base + bu(p)),
                    None => bu(run.tx.gas_price),
                };
                let d_base = d(&BASE_VAULT)?;
                let d_l1 = d(&L1_VAULT)?;
                let d_op = d(&OP_VAULT)?;
                let d_cb = d(&coinbase)?;
                ensure!(d_base == &base * gas_used, "C33|base-fee-vault", "base-fee vault received {d_base}, basefee*gas_used = {}", &base * gas_used);
                ensure!(d_cb == (&price - &base) * gas_used, "C33|beneficiary", "beneficiary received {d_cb}, (effective price - basefee)*gas_used = {}", (&price - &base) * gas_used);
                let want_op = op_fee_own(si, &c.l1, gas_used);
                ensure!(d_op == want_op, "C33|operator-fee-vault", "operator-fee vault received {d_op}, gas_used*scalar/1e6 + constant = {want_op} [gas_used {gas_used} scalar {} constant {}]", c.l1.op_scalar, c.l1.op_const);
                if let Some(want_l1) = l1_cost_own(si, &c.l1, &env_bytes) {
                    ensure!(d_l1 == want_l1, "C33|l1-fee-vault", "L1-fee vault received {d_l1}, the {spec:?} L1 data fee of the {}-byte envelope is {want_l1}", env_bytes.len());
                    o.labels.push("l1-cost-formula-checked");
                } else if si >= 4 {
                    // Fjord+: bounds of the FastLZ-based estimate (min size 100 bytes; FastLZ never expands by more than 1/32 + 2)
                    let scaled = BigUint::from(16u32) * c.l1.base_fee * c.l1.base_fee_scalar + BigUint::from(c.l1.blob_base_fee) * c.l1.blob_base_fee_scalar;
                    let lo = BigUint::from(100_000_000u64) * &scaled / 1_000_000_000_000u64;
                    let n = env_bytes.len() as u64;
                    let hi_size = std::cmp::max(100_000_000u64, (836_500u64 * (n + n / 32 + 2)).saturating_sub(42_585_600));
                    let hi = BigUint::from(hi_size) * &scaled / 1_000_000_000_000u64;
                    ensure!(d_l1 >= lo && d_l1 <= hi, "C33|l1-fee-vault|fjord-bounds", "L1-fee vault received {d_l1}, outside the bounds [{lo}, {hi}] of the Fjord estimate for {n} bytes");
                    o.labels.push("l1-cost-bounds-checked");
                }
                let (ps, qs) = (bal(&run.pre, &sender), bal(&post, &sender));
                let moved = if rs.result.is_success() { bu(run.tx.value) } else { BigUint::zero() };
                let want = &moved + &d_base + &d_l1 + &d_op + &d_cb;
                ensure!(ps >= qs && &ps - &qs == want, "C33|sender-debit", "sender paid {} but value {moved} + beneficiary {d_cb} + base vault {d_base} + L1 vault {d_l1} + operator vault {d_op} = {want}", if ps >= qs { &ps - &qs } else { BigUint::zero() });
                o.labels.push("parties-checked");
                o.nontrivial = !d_l1.is_zero() && (si < 7 || c.l1.op_scalar > 0);
                if si >= 7 && c.l1.op_scalar > 0 && gas_used < limit {
                    o.labels.push("isthmus-operator-refund");
                }
            }
        }
        Kind::Deposit { system, .. } => {
            let failed = !rs.result.is_success();
            let pre_acc = run.pre.get(&run.tx.caller).cloned().unwrap_or_default();
            let post_acc = post.get(&run.tx.caller).cloned().unwrap_or_default();
            let plain_sender = pre_acc.code.is_empty() && !inner_flow_names(&run.rec, &sender) && to != Some(sender) && run.rec.ops[0xff] == 0 && sender != coinbase;
            if plain_sender {
                // root-cause key of the one recorded finding: pre-Regolith contract-creation deposit whose value exceeds balance + mint
                let bedrock_create_oof = si == 0 && run.tx.to.is_none() && bu(run.tx.value) > bu(pre_acc.balance) + &mint;
                ensure!(post_acc.nonce == pre_acc.nonce + 1, if bedrock_create_oof { "C33|deposit|nonce|bedrock-create-deposit-value-exceeds-balance" } else { "C33|deposit|nonce" }, "{status} deposit [{spec:?}]: sender nonce {} -> {} (must be incremented exactly once)", pre_acc.nonce, post_acc.nonce);
                let moved = if rs.result.is_success() { bu(run.tx.value) } else { BigUint::zero() };
                let want = bu(pre_acc.balance) + &mint - &moved;
                ensure!(bu(post_acc.balance) == want, "C33|deposit|balance", "{status} deposit [{spec:?}]: sender balance {} -> {}, expected pre + mint {mint} - value moved {moved} = {want}", pre_acc.balance, post_acc.balance);
                o.labels.push("deposit-sender-checked");
            }
            if failed {
                // nothing but the mint and the nonce increment survives a failed deposit
                let mut a = run.pre.clone();
                let mut b = post.clone();
                a.remove(&run.tx.caller);
                b.remove(&run.tx.caller);
                // an account that merely came into existence as touched-empty is not a change
                if a != b {
                    let diff: Vec<String> = a.keys().chain(b.keys()).filter(|k| a.get(*k) != b.get(*k)).map(|k| hex::encode(k)).collect();
                    return Err(vec![Failure::new("C33|deposit|failed-deposit-changed-other-accounts", format!("{status} deposit [{spec:?}] changed accounts other than the sender: {diff:?}"))]);
                }
                o.labels.push("failed-deposit");
                o.nontrivial = true;
            }
            // documented gas reporting
            let regolith = si >= 1;
            match &rs.result {
                ExecutionResult::Halt { reason: HaltReason::FailedDeposit, .. } => {
                    let want = if regolith || !*system { limit } else { 0 };
                    ensure!(gas_used == want, "C33|deposit|gas_used", "failed deposit [{spec:?} system {system}] reports gas_used {gas_used}, documented {want}");
                }
                ExecutionResult::Success { .. } if !regolith => {
                    let want = if *system { 0 } else { limit };
                    ensure!(gas_used == want, "C33|deposit|gas_used", "Bedrock deposit [system {system}] reports gas_used {gas_used}, documented {want}");
                }
                _ => ensure!(gas_used <= limit, "C33|deposit|gas_used", "gas_used {gas_used} > limit {limit}"),
            }
            if !mint.is_zero() {
                o.labels.push("mint>0");
            }
        }
    }

    // (reuse) a second transaction on the same Evm after the L1 attributes changed must see the new attributes
    if let (Some((l1b, env2)), Kind::Regular { .. }) = (&c.second, &c.kind) {
        let db = ModelDB::new(run.pre.clone());
        let mut evm = Evm::builder().with_db(db).with_spec_id(spec).with_env(Box::new(run.env.clone())).optimism().build();
        let first = evm.transact();
        if let Ok(rs1) = first {
            evm.context.evm.db.commit(rs1.state);
        }
        install_l1(&mut evm.context.evm.db.world, l1b);
        let mid = evm.context.evm.db.world.clone();
        let tx2 = c.world.tx.build(c.world.fork().unwrap_or(r::Fork::Prague), &run.block, &mid);
        let env2e = op_env(spec, &run.block, &tx2, &c.kind, Some(env2));
        *evm.context.evm.env = env2e.clone();
        let again = evm.transact().map(|x| (x.result, state_digest(&x.state))).map_err(|e| format!("{e:?}"));
        let mut fresh = Evm::builder().with_db(ModelDB::new(mid)).with_spec_id(spec).with_env(Box::new(env2e)).optimism().build();
        let want = fresh.transact().map(|x| (x.result, state_digest(&x.state))).map_err(|e| format!("{e:?}"));
        ensure!(again == want, "C33|reuse|second-transaction-differs", "second transaction on a reused Evm (new L1 attributes, new envelope) gave {again:?}, a fresh Evm gives {want:?}");
        o.labels.push("reuse-checked");
    }
    Ok(o)
}

fn l1_params() -> BoxedStrategy<L1Params> {
    let fee = prop_oneof![2 => Just(0u64), 3 => 1u64..100, 3 => 1_000_000_000u64..200_000_000_000, 1 => any::<u32>().prop_map(|x| x as u64)];
    let sc32 = prop_oneof![2 => Just(0u32), 3 => 1u32..5000, 2 => 100_000u32..2_000_000, 1 => any::<u32>()];
    (
        fee.clone(),
        prop_oneof![Just(0u64), Just(188u64), Just(2100u64), 0u64..100_000],
        prop_oneof![Just(0u64), Just(684_000u64), Just(1_000_000u64), 0u64..3_000_000],
        fee,
        sc32.clone(),
        sc32.clone(),
        sc32,
        prop_oneof![3 => Just(0u64), 2 => 1u64..1000, 2 => 1_000_000u64..10_000_000_000, 1 => any::<u32>().prop_map(|x| x as u64)],
    )
        .prop_map(|(base_fee, overhead, scalar, blob_base_fee, base_fee_scalar, blob_base_fee_scalar, op_scalar, op_const)| L1Params { base_fee, overhead, scalar, blob_base_fee, base_fee_scalar, blob_base_fee_scalar, op_scalar, op_const })
        .boxed()
}

fn envelope() -> BoxedStrategy<Envelope> {
    prop_oneof![
        1 => Just(Envelope::Empty),
        3 => prop::collection::vec(any::<u8>(), 1..300).prop_map(Envelope::Bytes),
        1 => prop::collection::vec(any::<u8>(), 0..40).prop_map(|mut v| { v.insert(0, 0x7f); Envelope::Bytes(v) }),
        3 => (0u16..600, 1u16..600).prop_map(|(zeros, nonzeros)| Envelope::Mix { zeros, nonzeros }),
        2 => (prop::collection::vec(any::<u8>(), 1..24), 1u16..200).prop_map(|(unit, times)| Envelope::Repeat { unit, times }),
    ]
    .boxed()
}

pub fn op_case() -> BoxedStrategy<OpCase> {
    let mut cfg = WorldCfg::default();
    cfg.invalid_pct = 3;
    cfg.spec_pool = Some(vec![15, 16, 17, 17, 17, 18, 18, 18]);
    let kind = prop_oneof![
        5 => envelope().prop_map(|envelope| Kind::Regular { envelope }),
        3 => (prop_oneof![2 => Just(None), 2 => (0u128..1_000_000).prop_map(Some), 2 => Just(Some(3_000_000_000_000_000_000u128)), 1 => any::<u64>().prop_map(|x| Some(x as u128))], prop::bool::weighted(0.2)).prop_map(|(mint, system)| Kind::Deposit { mint, system }),
    ];
    (world_case(&cfg), any::<u8>(), l1_params(), kind, prop::array::uniform3(prop::option::weighted(0.4, prop_oneof![Just(0u64), 1u64..1000, any::<u64>()])), prop::option::weighted(0.25, (l1_params(), envelope())))
        .prop_map(|(mut world, sub, l1, kind, vaults, second)| {
            let op_spec = match world.spec {
                15 => sub % 2,
                16 => 2,
                17 => 3 + sub % 4,
                _ => 7,
            };
            if world.tx.ty == r::TxType::Eip4844 {
                world.tx.ty = r::TxType::Eip1559; // Optimism has no blob transactions
            }
            if matches!(kind, Kind::Deposit { .. }) {
                // deposits carry no gas price (they are paid for on L1)
                world.tx.ty = r::TxType::Legacy;
                world.tx.price = PriceSel::Fixed(r::U256::zero());
                world.tx.priority = None;
                world.tx.auths.clear();
                world.tx.balance = BalanceSel::AsIs;
            }
            OpCase { op_spec, world, l1, kind, vaults, second }
        })
        .boxed()
}

pub fn c33(ctx: &mut Ctx) {
    let n = ctx.tier.pick(120_000, 4_000_000);
    ctx.run_cases(
        "op-fees",
        "Optimism worlds: specs BEDROCK..ISTHMUS, generated L1Block attributes (base fee, overhead, scalars, blob base fee, Ecotone scalars incl. the unset first-Ecotone-block case, Isthmus operator scalar/constant incl. 0), regular transactions (legacy/2930/1559/7702 shapes) with generated envelopes (empty, 0x7f-prefixed, random, zero/non-zero mixes, repetitive) and deposits (mint none/small/large, system flag, value possibly above the balance) running generated programs; oracle: BigUint conservation sum(post)+burns == sum(pre)+mint; for non-deposits whose five parties are distinct and not touched by inner value flows: exact credit of base-fee vault (basefee*gas_used), beneficiary ((price-basefee)*gas_used), operator vault (gas_used*scalar/1e6+constant) and L1 vault (own transcription of the Bedrock/Regolith/Ecotone formulas; bounds from Fjord), sender debit == value + the four credits; deposits: nonce+1 and balance = pre+mint-value-if-succeeded also on failure, a failed deposit changes nothing else, documented gas_used; reuse: a second transaction on the same Evm after the L1 attributes changed equals a fresh Evm; non-trivial = non-deposit with non-zero L1 cost (and non-zero operator scalar from Isthmus) whose parties were checked, or a failed deposit",
        op_case,
        n,
        c33_case,
    );
    ctx.expect_labels("op-fees", &["BEDROCK", "REGOLITH", "CANYON", "ECOTONE", "FJORD", "GRANITE", "HOLOCENE", "ISTHMUS", "parties-checked", "l1-cost-formula-checked", "l1-cost-bounds-checked", "isthmus-operator-refund", "failed-deposit", "failed-deposit", "deposit-sender-checked", "mint>0", "reuse-checked", "rejected:lack-of-funds"]);
    ctx.assumptions.push("deposit transactions carry gas price 0 (OP-stack deposits are paid on L1); Optimism has no blob transactions; total supply < 2^255; L1 attributes are bounded (fees < 2^38, scalars < 2^32) so that no saturating multiplication of the L1 cost is reached".into());
    ctx.assumptions.push("from Fjord the L1 data fee depends on a FastLZ length estimate for which no independent implementation is available offline: only its bounds and the identity 'sender debit == sum of credits' are checked there".into());
}

// ------------------------------------------------------------------------------------------
// C22 on Optimism: without rewards neither the beneficiary nor the three fee vaults are paid,
// whatever reconfiguration follows
// ------------------------------------------------------------------------------------------

#[derive(Clone, Debug, Hash, Serialize, Deserialize)]
pub enum OpReconf {
    WithSpecId(u8),
    ModifySpecId(u8),
    AppendNoop,
    AppendInspector,
    Pop,
    ModifyBuild,
    CreateGeneric,
}

#[derive(Clone, Debug, Hash, Serialize, Deserialize)]
pub struct OpRewardCase {
    pub case: OpCase,
    pub steps: Vec<OpReconf>,
}

fn noop_register<EXT, DB: revm::Database>(_h: &mut revm::handler::register::EvmHandler<'_, EXT, DB>) {}

fn run_op_reward(c: &OpRewardCase, rewards: bool) -> Result<(ResultAndState, SpecId), String> {
    use revm::Handler;
    let (spec0, pre, block, tx) = build(&c.case);
    let mut handler: Handler<'_, revm::Context<revm::inspectors::NoOpInspector, ModelDB>, revm::inspectors::NoOpInspector, ModelDB> = Handler::optimism_with_spec(spec0, rewards);
    let mut cur = spec0;
    // only specs of the same L1 rule set keep the generated transaction valid
    let same_family = |i: u8| -> SpecId {
        let fam: &[SpecId] = match c.case.op_spec % 8 {
            0 | 1 => &[SpecId::BEDROCK, SpecId::REGOLITH],
            2 => &[SpecId::CANYON],
            3..=6 => &[SpecId::ECOTONE, SpecId::FJORD, SpecId::GRANITE, SpecId::HOLOCENE],
            _ => &[SpecId::ISTHMUS],
        };
        fam[i as usize % fam.len()]
    };
    for s in &c.steps {
        match s {
            OpReconf::ModifySpecId(i) => {
                cur = same_family(*i);
                handler.modify_spec_id(cur);
            }
            OpReconf::AppendNoop => handler.append_handler_register_plain(noop_register),
            OpReconf::AppendInspector => handler.append_handler_register_plain(revm::inspector_handle_register),
            OpReconf::Pop => {
                // popping the Optimism register itself would turn the handler into a mainnet one: only pop what was appended
                if handler.registers.len() > 1 {
                    handler.pop_handle_register();
                }
            }
            OpReconf::CreateGeneric => {
                handler = revm::primitives::spec_to_generic!(cur, handler.create_handle_generic::<SPEC>());
                handler.cfg.spec_id = cur;
            }
            _ => {}
        }
    }
    let env = op_env(spec0, &block, &tx, &c.case.kind, None);
    let mut evm = Evm::builder().with_db(ModelDB::new(pre)).with_external_context(revm::inspectors::NoOpInspector).with_env(Box::new(env)).with_handler(handler).build();
    for s in &c.steps {
        match s {
            OpReconf::WithSpecId(i) => {
                cur = same_family(*i);
                evm = evm.modify().with_spec_id(cur).build();
            }
            OpReconf::ModifyBuild => evm = evm.modify().build(),
            _ => {}
        }
    }
    *evm.block_mut() = block_env(cur, &block);
    evm.transact().map(|r| (r, cur)).map_err(|e| format!("{e:?}"))
}

pub fn c22_op_case(c: &OpRewardCase) -> CaseResult {
    let (spec, pre, block, tx) = build(&c.case);
    let _ = spec;
    if total_supply(&pre).bits() > 255 {
        return Ok(Outcome::trivial().label("excluded:supply-near-2^256"));
    }
    let on = run_op_reward(c, true);
    let off = run_op_reward(c, false);
    let ((on, s1), (off, s2)) = match (on, off) {
        (Ok(a), Ok(b)) => (a, b),
        (Err(a), Err(b)) => {
            ensure!(a == b, "C22|op|rejection-differs", "rewards on: {a}; rewards off: {b}");
            return Ok(Outcome::trivial().label("rejected"));
        }
        (a, b) => return Err(vec![Failure::new("C22|op|acceptance-differs", format!("rewards on accepted={}, rewards off accepted={}", a.is_ok(), b.is_ok()))]),
    };
    ensure!(s1 == s2, "C22|harness", "spec mismatch");
    ensure!(on.result == off.result, "C22|op|result-differs", "result with rewards {:?}, without {:?}", on.result, off.result);
    let mut post_on = pre.clone();
    apply_state(&mut post_on, &on.state, true);
    let mut post_off = pre.clone();
    apply_state(&mut post_off, &off.state, true);
    let coinbase = ra(&block.coinbase);
    let sender = ra(&tx.caller);
    let parties = [coinbase, BASE_VAULT, L1_VAULT, OP_VAULT];
    let rebuild = c.steps.iter().find_map(|s| match s {
        OpReconf::WithSpecId(_) => Some("with_spec_id"),
        OpReconf::ModifySpecId(_) => Some("modify_spec_id"),
        OpReconf::Pop => Some("pop_handle_register"),
        OpReconf::CreateGeneric => Some("create_handle_generic"),
        _ => None,
    });
    let is_deposit = matches!(c.case.kind, Kind::Deposit { .. });
    let to = tx.to.as_ref().map(ra);
    // which parties does the execution itself move value to/from?  (recorded on a plain rewards-on run)
    // (at the spec the reconfigured handler finally runs with: the execution, and with it the value flows, may differ between specs)
    let probe = run_op_at(&c.case, Some(s1));
    if probe.res.is_err() {
        return Err(vec![Failure::new("C22|harness|probe-run-rejected", format!("the recording run at {s1:?} was rejected although both compared runs were accepted: {:?}", probe.res.as_ref().err()))]);
    }
    let untouched = parties.iter().all(|p| !probe.rec.flow_addrs.contains(p)) && !parties.contains(&sender) && to.map(|t| !parties.contains(&t)).unwrap_or(true) && probe.rec.ops[0xff] == 0;
    let mut paid_on = BigUint::zero();
    for p in &parties {
        let (b_pre, b_on, b_off) = (bal(&pre, p), bal(&post_on, p), bal(&post_off, p));
        if untouched {
            // no value flow names this party: without rewards its balance must not move at all
            ensure!(
                b_off == b_pre,
                format!("C22|op|fees-paid-although-disabled|{}", rebuild.unwrap_or("no-rebuild")),
                "without rewards {p} went from {b_pre} to {b_off} (with rewards: {b_on}) [steps {:?}]",
                c.steps
            );
        } else {
            ensure!(b_off <= b_on, "C22|op|party-richer-without-rewards", "{p} ends with {b_off} without rewards but {b_on} with rewards");
        }
        if b_on > b_off {
            paid_on += &b_on - &b_off;
        }
    }
    if !parties.contains(&sender) {
        ensure!(bal(&post_on, &sender) == bal(&post_off, &sender), "C22|op|sender-differs", "sender balance differs between rewards on ({}) and off ({})", bal(&post_on, &sender), bal(&post_off, &sender));
    }
    for a in post_on.keys().chain(post_off.keys()) {
        let aa = ra(a);
        if parties.contains(&aa) {
            continue;
        }
        ensure!(post_on.get(a) == post_off.get(a), "C22|op|other-account-differs", "account {} differs between rewards on/off", hex::encode(a));
    }
    let gas_paid = !is_deposit && !paid_on.is_zero();
    Ok(Outcome::new(rebuild.is_some() && gas_paid && untouched).label_if(rebuild.is_some(), "rebuilding-step").label_if(gas_paid, "fees>0").label_if(is_deposit, "deposit").label_if(untouched, "parties-untouched-by-flows"))
}

pub fn c22_op(ctx: &mut Ctx) {
    let n = ctx.tier.pick(30_000, 1_000_000);
    ctx.run_cases(
        "op-reward-switch",
        "Optimism: Handler::optimism_with_spec(spec, false) followed by a random reconfiguration sequence (with_spec_id / modify_spec_id within the same L1 rule set, append no-op / inspector register, pop of appended registers, create_handle_generic, modify().build()), then an Optimism world transaction (regular or deposit); oracle: differential against rewards enabled: result identical, sender and every other account identical, and beneficiary + base-fee vault + L1-fee vault + operator-fee vault together receive none of the gas fee, L1 fee or operator fee; non-trivial = rebuilding step and a fee-paying transaction",
        || {
            let step = prop_oneof![
                2 => any::<u8>().prop_map(OpReconf::WithSpecId),
                2 => any::<u8>().prop_map(OpReconf::ModifySpecId),
                2 => Just(OpReconf::AppendNoop),
                1 => Just(OpReconf::AppendInspector),
                2 => Just(OpReconf::Pop),
                2 => Just(OpReconf::ModifyBuild),
                1 => Just(OpReconf::CreateGeneric),
            ];
            (op_case(), prop::collection::vec(step, 0..4)).prop_map(|(mut case, steps)| {
                case.second = None;
                OpRewardCase { case, steps }
            })
        },
        n,
        c22_op_case,
    );
    ctx.expect_labels("op-reward-switch", &["rebuilding-step", "fees>0", "deposit"]);
}
