//! vcheck-op: checks that need revm built with the `optimism` feature (C33, Optimism part of C22).
#![allow(dead_code)]
#[path = "../../vmain/src/common.rs"]
mod common;
#[path = "../../vmain/src/evmrun.rs"]
mod evmrun;
#[path = "../../vmain/src/monitors.rs"]
mod monitors;
mod opcheck;

use vcore::Ctx;

fn main() {
    let args: Vec<String> = std::env::args().skip(1).collect();
    let Some(id) = args.first().cloned() else {
        eprintln!("usage: vcheck-op <C33> [quick|thorough] [--seed N] [--replay file]");
        std::process::exit(2);
    };
    vcore::install_panic_hook();
    let mut ctx = Ctx::from_args(&id, &args[1..]);
    let budget = match ctx.tier {
        vcore::Tier::Quick => 30 * 60,
        vcore::Tier::Thorough => 8 * 3600,
    };
    std::thread::spawn(move || {
        std::thread::sleep(std::time::Duration::from_secs(budget));
        eprintln!("watchdog: time budget of {budget}s exhausted — inconclusive");
        std::process::exit(2);
    });
    vcore::set_quick_scale(8);
    match id.as_str() {
        "C33" => opcheck::c33(&mut ctx),
        "C22" => opcheck::c22_op(&mut ctx),
        _ => {
            eprintln!("unknown property {id} for vcheck-op");
            std::process::exit(2);
        }
    }
    std::process::exit(ctx.finish());
}
