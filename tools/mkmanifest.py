#!/usr/bin/env python3
"""Regenerates /verif/MANIFEST.json from the table below (single source of truth)."""
import json, os
ROOT = os.path.dirname(os.path.dirname(os.path.abspath(__file__)))
props = [json.loads(l) for l in open(os.path.join(ROOT, "properties.jsonl"))]

# id -> (technique, level text, level note)
CHECKS = {
 "C13": ("proptest stateful op sequences vs i128 model",
         "Random operation sequences on interpreter::Gas compared after every operation with an arbitrary-precision model; millions of sequences per run. Exploration, not proof: the meter is six small methods, so sequences of <= 40 ops over edge-biased u64/i64 arguments reach every branch many times.",
         "Trusts the i128 model (20 lines) and the stated frame-accounting preconditions (erase_cost <= spent, final refund on a non-negative counter)."),
 "C14": ("proptest + exhaustive tables vs BigUint EIP formulas",
         "Exhaustive enumeration of the finite cost tables (sload/call/selfdestruct/sstore cost+refund over all flags, value relations and SpecIds) plus random/edge arguments over the full u64/U256 range for the length-dependent formulas, each compared with an independent big-integer transcription of the EIPs.",
         "Trusts my transcription of the EIP formulas (cross-checked by the shipped execution-spec vectors through refevm in C01)."),
 "C27": ("proptest round-trip / oracle keccak",
         "Random byte strings (legacy, EF00-, EF01-prefixed) and addresses through every Bytecode constructor; views, length, hash (sha3 crate) and padding compared with the input; designator round-trip.",
         "Trusts the sha3 crate's Keccak-256."),
 "C32": ("proptest vs BigUint EIP-4844 definitions",
         "Edge and log-uniform arguments over all of u64 for calc_blob_gasprice, fake_exponential and calc_excess_blob_gas, compared with the EIP-4844 pseudo-code run over unbounded integers; the overflow band (ratios 0..130) is targeted by construction.",
         "Trusts the BigUint transcription of the EIP pseudo-code; accepts panic or saturation when the true value does not fit the return type."),
}
PLANNED = "check not built yet in this commit (planned: see DESIGN.md section 5); not claimed"

checks, na = [], []
for p in props:
    i = p["id"]
    if i in CHECKS:
        tech, text, note = CHECKS[i]
        checks.append({
            "property_id": i,
            "quick_cmd": f"./check {i} quick",
            "thorough_cmd": f"./check {i} thorough",
            "evidence_file": f"/verif/evidence/{i}.json",
            "replay_cmd_template": "./check --replay {path}",
            "engine": "vcheck",
            "level_claimed": {"category": "exploration", "text": text, "design_ref": f"DESIGN.md section 5, {i}"},
            "level_note": note,
            "technique": tech,
        })
    else:
        na.append({"property_id": i, "reason": PLANNED})
m = {
 "version": 1,
 "setup_cmd": "cd /verif/harness && CARGO_NET_OFFLINE=true cargo build --offline --profile verif -p vmain",
 "hooks": {
   "guard": "risechain_revm_verif",
   "enable": "no source hooks are needed: every observation goes through public API (Inspector, JournaledState, Stack, SharedMemory, Gas, State, BundleState); the harness depends on /repo/crates/* by path and is rebuilt by ./check",
   "baseline_off_cmd": "cd /repo && cargo nextest run --workspace --no-fail-fast --offline || cargo test --workspace --no-fail-fast --offline",
   "source_commits": [],
   "add_only": True,
 },
 "engines": [
   {"name": "vcheck", "path": "/verif/harness/vmain", "serves_properties": sorted(CHECKS), "kind_free_text": "Rust binary: sharded proptest driver (vcore) with signature-aware shrinking, model/differential oracles, evidence + replay writer"},
 ],
 "checks": checks,
 "not_applicable": na,
 "notes": "All checks: exit 0 = held on everything explored (KNOWN-FINDING lines for entries of known_findings.jsonl), 1 = VIOLATION line + replay file, 2 = build failure/watchdog (inconclusive). VERIF_SEED selects the PRNG stream; runs are a pure function of (tree, seed, tier).",
}
json.dump(m, open(os.path.join(ROOT, "MANIFEST.json"), "w"), indent=1)
print("checks:", len(checks), "not_applicable:", len(na))
