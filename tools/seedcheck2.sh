#!/bin/bash
# usage: seedcheck2.sh <seed-dir> <existing-worktree> [check-id ...]
# Like seedcheck.sh, but re-uses an existing scratch worktree (and its build output) instead of a cold one:
# the worktree is reset to HEAD first (tracked files restored, untracked files removed except target/),
# (1) demo passes on it, (2) patch applies, 130 tests pass with it, (3) demo fails with it;
# then the patch is applied to /repo, the given checks run (quick), and /repo is restored.
set -u
D="$(realpath "$1")"; WT="$(realpath "$2")"; shift 2
case "$WT" in /repo*|/verif*) echo "worktree must be outside /repo and /verif"; exit 2;; esac
[ -n "$(git -C /repo status --porcelain)" ] && { echo "repo not clean"; exit 2; }
git -C "$WT" checkout -- . || exit 2
git -C "$WT" clean -fdq -e target || exit 2
L=/tmp/seedcheck2.$$.log
# whatever ends this script (normal exit, error, INT/TERM/HUP), /repo's working tree is restored:
# a seeded change must never stay applied to /repo
trap 'git -C /repo checkout -- . ; rm -f $L' EXIT
trap 'exit 130' INT TERM HUP
echo "== demo on clean tree"; (cd "$WT" && bash "$D/demo.sh" "$WT" >$L 2>&1); RC1=$?; echo "   exit $RC1 (want 0)"; [ $RC1 -ne 0 ] && tail -15 $L
echo "== apply patch"; git -C "$WT" apply "$D/patch.diff" || { echo "   PATCH DOES NOT APPLY"; exit 1; }
echo "== test suite with the change"; (cd "$WT" && CARGO_BUILD_JOBS=8 cargo nextest run --workspace --no-fail-fast --offline 2>&1 | grep -E "Summary|FAIL" | head -5)
echo "== demo on changed tree"; (cd "$WT" && bash "$D/demo.sh" "$WT" >$L 2>&1); RC2=$?; echo "   exit $RC2 (want != 0)"; grep -E "panicked|assert|FAILED|failed" $L | head -5
rm -f $L
if [ $# -gt 0 ]; then
  git -C /repo apply "$D/patch.diff" || exit 1
  for id in "$@"; do
    echo "== ./check $id quick with the change"
    /verif/check "$id" quick 2>&1 | grep -E "^VIOLATION|sig=|tier=|BUILD" | cut -c1-330 | head -8
  done
  git -C /repo checkout -- . ; git -C /repo status --porcelain | head -3
fi
