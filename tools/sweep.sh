#!/bin/bash
# usage: sweep.sh "<seeds>" [ids...]   — runs the quick tier of every (or the given) check for each seed; prints one line per run
# and every VIOLATION line.  Used to flush out seed-dependent false alarms before registering changes.
SEEDS="$1"; shift
IDS="${*:-$(python3 -c "import json;print(' '.join(c['property_id'] for c in json.load(open('/verif/MANIFEST.json'))['checks']))")}"
cd "$(dirname "$0")/.."
for s in $SEEDS; do for id in $IDS; do
  t0=$(date +%s); out=$(VERIF_SEED=$s ./check $id quick 2>&1); rc=$?; t1=$(date +%s)
  echo "seed=$s $id rc=$rc t=$((t1-t0))s $(echo "$out" | grep -E 'tier=' | sed 's/.*evaluations/evaluations/')"
  echo "$out" | grep -E "^VIOLATION|sig=|BUILD|warning:" | cut -c1-400
done; done
