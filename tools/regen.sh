#!/bin/bash
# Regenerates every evidence file from the quick tier (VERIF_SEED=0) on the current /repo tree and validates
# MANIFEST + evidence.  /repo must be clean (no seeded change applied).
cd "$(dirname "$0")/.."
[ -n "$(git -C /repo status --porcelain)" ] && { echo "/repo is not clean"; exit 2; }
BAD=0
for id in $(python3 -c "import json;print(' '.join(c['property_id'] for c in json.load(open('MANIFEST.json'))['checks']))"); do
  out=$(VERIF_SEED=0 ./check $id quick 2>&1); rc=$?
  echo "$id rc=$rc $(echo "$out" | grep -E 'tier=' | sed 's/.*evaluations/evaluations/')"
  [ $rc -ne 0 ] && { BAD=1; echo "$out" | grep -E "VIOLATION|sig=|BUILD" | cut -c1-300; }
done
python3-vt tools/validate.py || BAD=1
exit $BAD
