#!/bin/bash
# usage: seedconfirm.sh <seed-dir> <existing-worktree>
# Confirms a seeded change in an existing scratch worktree (re-using its build output), without touching /repo:
# worktree reset to HEAD, (1) demo passes, (2) patch applies and the 130 tests pass with it, (3) demo fails with it.
set -u
D="$(realpath "$1")"; WT="$(realpath "$2")"
case "$WT" in /repo*|/verif*) echo "worktree must be outside /repo and /verif"; exit 2;; esac
git -C "$WT" checkout -- . || exit 2
git -C "$WT" clean -fdq -e target || exit 2
L=$(mktemp)
echo "== demo on clean tree"; (cd "$WT" && bash "$D/demo.sh" "$WT" >$L 2>&1); RC1=$?; echo "   exit $RC1 (want 0)"; [ $RC1 -ne 0 ] && tail -15 $L
echo "== apply patch"; git -C "$WT" apply "$D/patch.diff" || { echo "   PATCH DOES NOT APPLY"; exit 1; }
echo "== test suite with the change"; (cd "$WT" && CARGO_BUILD_JOBS=6 cargo nextest run --workspace --no-fail-fast --offline 2>&1 | grep -E "Summary|FAIL" | head -5)
echo "== demo on changed tree"; (cd "$WT" && bash "$D/demo.sh" "$WT" >$L 2>&1); RC2=$?; echo "   exit $RC2 (want != 0)"; grep -E "panicked|assert|FAILED|failed" $L | head -5
rm -f $L
echo "== done"
