#!/bin/bash
# usage: withrevert.sh "<commit> [<commit>...]" <check-id>...   — temporarily reverts fix commits in
# /repo's working tree (never committed), runs the checks to (re)generate replay files, restores.
set -u
COMMITS="$1"; shift
cd /repo || exit 2
[ -n "$(git status --porcelain)" ] && { echo "repo not clean"; exit 2; }
# whatever ends this script, /repo's working tree is restored
trap 'git -C /repo checkout -- .' EXIT
trap 'exit 130' INT TERM HUP
for c in $COMMITS; do git diff "$c~1" "$c" | git apply -R || { git checkout -- .; exit 2; }; done
for id in "$@"; do /verif/check "$id" quick 2>&1 | grep -E "^VIOLATION|sig=|BUILD" | cut -c1-260; done
cd /repo && git checkout -- . && git status --porcelain | head -3
# leave the harness binaries built from the restored tree
cd /verif/harness && (cargo build --offline --profile verif -p vmain; cargo build --offline --profile verif -p vop) 2>&1 | grep -E "^error" -A8
