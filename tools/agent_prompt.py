#!/usr/bin/env python3
"""Prints the prompt for a mutant-seeding sub-agent: property text + worktree path only (nothing from /verif's machinery)."""
import json, sys
pid, tag = sys.argv[1], (sys.argv[2] if len(sys.argv) > 2 else "a")
p = next(json.loads(l) for l in open('/verif/properties.jsonl') if json.loads(l)['id'] == pid)
wt = f"/tmp/wt-{pid}{tag}"
out = f"/tmp/seed-out/{pid}{tag}"
NOTES = {
 "C33": " Build note: the Optimism code is only compiled with the cargo feature `optimism` of the crate `revm` (e.g. `cargo test -p revm --features optimism --offline --test seed_demo`); your demo.sh must pass that feature. The 130-test suite command below runs without it and must still pass.",
 "C24": " Build note: the alternative backends are selected with cargo features of the crate `revm-precompile`: the default build uses the C `secp256k1` library and `c-kzg`; `--no-default-features --features std,kzg-rs` uses the pure-Rust `k256` and `kzg-rs` paths (e.g. `cargo test -p revm-precompile --no-default-features --features std,kzg-rs --offline --test seed_demo`). A demonstration may run the same inputs under both feature sets and compare printed results; demo.sh must do both builds itself.",
 "C22": " Build note: `CfgEnv::disable_beneficiary_reward` only exists with the cargo feature `optional_beneficiary_reward` of the crate `revm` (e.g. `cargo test -p revm --features optional_beneficiary_reward --offline --test seed_demo`); the handler constructor flag `Handler::mainnet_with_spec(spec, false)` needs no feature.",
}
NOTE = NOTES.get(pid, "")
print(f"""You are helping to evaluate a test suite. Work ONLY inside the git worktree {wt} (a scratch checkout of a Rust project: a fork of `revm`, the Rust Ethereum Virtual Machine) and the output directory {out}. Do not read or write anything under /verif or /repo, and do not commit anything. There is no network: always pass --offline to cargo (e.g. `CARGO_BUILD_JOBS=4 cargo build --offline`). Never use `git stash` (the stash is shared by all worktrees of the repository and other agents work in sibling worktrees): to test on a clean tree, save your change with `git diff > /tmp/<yourname>.diff`, `git checkout -- <files>`, and re-apply it with `git apply` afterwards.{NOTE}

Here is a semantic property that this code base is supposed to satisfy:

  id: {p['id']}
  title: {p['title']}
  statement: {p['statement']}
  quantified over: {p['quantifier']['text']}
  why the existing unit tests cannot settle it: {p['why_tests_cant']}
  code it is anchored in: {json.dumps(p['anchors'].get('mechanism', []))}

Your task: produce ONE realistic, small source change (a plausible bug a developer could introduce: a wrong comparison, a forgotten update, a mis-ordered step, a missed case, two cooperating sites that each look fine alone ...) that makes the code VIOLATE this property, such that:
  1. the whole workspace still compiles, and the existing test suite still passes unchanged:
       cd {wt} && CARGO_BUILD_JOBS=4 cargo nextest run --workspace --no-fail-fast --offline      (130 tests must pass)
  2. the violation needs something specific to manifest — a particular multi-step sequence of operations, an unusual input, a particular fork/configuration, a particular interleaving of calls, a boundary value — NOT something that any ordinary use (e.g. a plain value transfer or the first call of a function) would expose at once. Subtle is better than blatant; do not just delete a feature or make everything fail.
  3. you provide a demonstration: a small self-contained Rust test or example program (put it in a NEW file, e.g. {wt}/crates/revm/tests/seed_demo.rs or an `examples/` file of the most suitable crate; it may only use the crates' public API) that PASSES on the unmodified code and FAILS (assertion failure / non-zero exit) with your change applied. The demonstration must assert the property (what a user relies on), not an implementation detail.

Procedure: read the anchored code first, pick a mechanism, write the demonstration and check that it passes on the unmodified tree, then make the change, check the demonstration now fails, and run the full test suite to confirm all 130 tests still pass. If your first idea is caught by the existing tests, pick another one. {('Choose a mechanism DIFFERENT from the most obvious one (e.g. not the first function named in the anchors) — a second agent is already covering the obvious spot.' if tag != 'a' else '')}

Deliverables, written to {out}/ (create it):
  - patch.diff : `git -C {wt} diff -- . ':(exclude)<your demo file>'` of the source change ONLY (must apply with `git apply` to a clean checkout; it must NOT contain the demonstration file)
  - the demonstration file itself (copy), and demo.sh : a shell script taking the path of a checkout as $1 that copies the demonstration file into place, runs it with cargo --offline, and exits 0 iff the demonstration passes (use `set -e`; remove the copied file at the end via a trap)
  - README.md : which property clause is broken, what exactly is needed for the violation to manifest (inputs / sequence / configuration), and the commands you ran with their results (demo on clean tree, demo on changed tree, test suite on changed tree).
Leave the worktree with your change applied and the demo file present. Your final message should summarise the change in 5-10 lines.""")
