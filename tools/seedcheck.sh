#!/bin/bash
# usage: seedcheck.sh <seed-dir> [check-id ...]
# Validates a seeded change: (1) demo passes on a clean worktree, (2) patch applies, 130 tests pass with it,
# (3) demo fails with it; then applies it to /repo, runs the given checks (quick), and restores /repo.
set -u
D="$(realpath "$1")"; shift
WT=/tmp/wt-seedcheck.$$
cd /repo || exit 2
[ -n "$(git status --porcelain)" ] && { echo "repo not clean"; exit 2; }
git worktree add --detach "$WT" HEAD >/dev/null 2>&1 || exit 2
# whatever ends this script (normal exit, error, INT/TERM/HUP), /repo's working tree is restored and the
# scratch worktree removed: a seeded change must never stay applied to /repo
trap 'git -C /repo checkout -- . ; git -C /repo worktree remove --force "$WT" >/dev/null 2>&1' EXIT
trap 'exit 130' INT TERM HUP
echo "== demo on clean tree"; (cd "$WT" && bash "$D/demo.sh" "$WT" >/tmp/seedcheck.$$.log 2>&1); RC1=$?; echo "   exit $RC1 (want 0)"; [ $RC1 -ne 0 ] && tail -15 /tmp/seedcheck.$$.log
echo "== apply patch"; git -C "$WT" apply "$D/patch.diff" || { echo "   PATCH DOES NOT APPLY"; exit 1; }
echo "== test suite with the change"; (cd "$WT" && CARGO_BUILD_JOBS=8 cargo nextest run --workspace --no-fail-fast --offline 2>&1 | grep -E "Summary|FAIL" | head -5)
echo "== demo on changed tree"; (cd "$WT" && bash "$D/demo.sh" "$WT" >/tmp/seedcheck.$$.log 2>&1); RC2=$?; echo "   exit $RC2 (want != 0)"; grep -E "panicked|assert|FAILED|failed" /tmp/seedcheck.$$.log | head -5
rm -f /tmp/seedcheck.$$.log
if [ $# -gt 0 ]; then
  git -C /repo apply "$D/patch.diff" || exit 1
  for id in "$@"; do
    echo "== ./check $id quick with the change"
    /verif/check "$id" quick 2>&1 | grep -E "^VIOLATION|sig=|tier=|BUILD" | cut -c1-330 | head -8
  done
  git -C /repo checkout -- . ; git -C /repo status --porcelain | head -3
  # drop replay files written while the change was applied (kept only deliberately, by hand)
fi
