#!/usr/bin/env python3-vt
"""Validates MANIFEST.json and every evidence file against the schemas in /root/.vp."""
import json, glob, sys, jsonschema
ok = True
try:
    jsonschema.validate(json.load(open('/verif/MANIFEST.json')), json.load(open('/root/.vp/MANIFEST.schema.json')))
    print('manifest ok')
except Exception as e:
    ok = False; print('MANIFEST INVALID', str(e)[:500])
s = json.load(open('/root/.vp/EVIDENCE.schema.json'))
for f in sorted(glob.glob('/verif/evidence/*.json')):
    try:
        jsonschema.validate(json.load(open(f)), s)
    except Exception as e:
        ok = False; print('EVIDENCE INVALID', f, str(e)[:500])
m = json.load(open('/verif/MANIFEST.json'))
ids = {c['property_id'] for c in m['checks']} | {c['property_id'] for c in m.get('not_applicable', [])}
props = {json.loads(l)['id'] for l in open('/verif/properties.jsonl')}
if ids != props:
    ok = False; print('ID MISMATCH', sorted(ids ^ props))
print('all ok' if ok else 'PROBLEMS')
sys.exit(0 if ok else 1)
