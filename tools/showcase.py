#!/usr/bin/env python3
"""Pretty-print a world-case replay file."""
import json,sys
d=json.load(open(sys.argv[1]))
c=d['case']
print('SIG',d['signature']); print('MSG',d['message'][:1500])
if isinstance(c,dict) and 'accounts' in c:
    print('spec',c['spec']); print('tx',json.dumps(c['tx'])[:3000])
    for a in c['accounts']:
        print(' acct',a['addr'],a['balance'],'nonce',a['nonce'],json.dumps(a['code'])[:int(sys.argv[2]) if len(sys.argv)>2 else 600],a['storage'])
    print('block',c['block'])
else:
    print(json.dumps(c)[:4000])
